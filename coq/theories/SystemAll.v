(* SystemAll.v — the WHOLE-SYSTEM integration model "IntSystem": sso-proxy and sso-auth composed.

     step : sysdep -> state -> event -> state * out          run : sysdep -> state -> list event -> state * trace

   The two services are the two existing integration models, used WHOLESALE:

     ProxyAll.serve   the whole request path of sso-proxy   (C01 C03 C04 C05 C06 C11 C12 C13 C18)
     AuthAll.serve    the whole request path of sso-auth    (C07 C08 C09 C10 C18 C19 C20)

   and this file is the seam between them. Nothing of either service is re-modelled here:

   * every back-channel answer the proxy model consumes ([ProxyAll.answers]: /redeem, /refresh, /validate,
     /profile) is COMPUTED by running [AuthAll.serve] on the request the proxy sends
     (internal/proxy/providers/sso.go:102-401: Redeem, redeemRefreshToken, ValidateSessionState, UserGroups
     — method, path /<slug>/<leaf>, Host of the provider URL, url.Values.Encode body / query, the
     X-Client-Secret and X-Access-Token headers, the client id / secret THE PROXY is configured with)
     and reading the status and the JSON document off the authenticator model's response;
   * the authenticator model's own oracles (which string opens under which key to which session, which
     bytes are an HMAC of what) are no longer inputs: they are read off the system STATE — the sealed
     values and MACs the two models themselves issued earlier in the history. A string nobody issued
     opens to nothing and is nobody's MAC (symbolic, ideal sealing and MAC: DESIGN §3, C02);
   * the identity provider is the only scripted peer of the authenticator: a per-event script
     ([AuthAll.answers]: ANY token-endpoint / tokeninfo / userinfo / revoke behaviour) filtered through a
     small IdP STATE that changes by events — outage, revocation of a grant, group membership — and that
     honours its own revocations (a grant revoked by the operator or through the revoke endpoint answers
     "revoked" from then on); the upstream backends are the only scripted peers of the proxy.

   Events: browser request to the proxy (ANY ProxyAll.request: any Host, path, header lines, cookies — a
   cookie value opens iff the proxy issued it), browser request to the authenticator (ANY AuthAll.request:
   any endpoint, parameters, cookies — the back-channel paths included), clock tick, IdP change.

   Names. A sealed value / MAC issued as the k-th of its kind gets the byte string  tag :: decimal k
   (tags 'P' proxy session cookie, 'A' authenticator session cookie, 'C' auth code, 'S' signature bytes);
   the correspondence driver maps the real ciphertexts to these names.

   Ghost fields (provenance: grant, code, login time, confirmation time) are carried in the state for the
   statements; no handler reads them, with ONE documented exception: the IdP's revocation state is indexed
   by GRANT (the IdP login a credential descends from), i.e. the IdP is assumed to hand out different
   tokens to different grants and to know which grant a token belongs to.

   Modelling assumptions of the seam (docs/notes/IntSystem.md): the proxy's cookie secret, the
   authenticator's cookie secret and its auth-code secret are three different keys; requests are handled
   one at a time (concurrency is C15/C16's subject); url.QueryEscape is modelled for bytes < 256.
   No proofs in this file. *)
From V Require Import Base Validators.
From V Require ProxyCore ProxyAll AuthAll Hostmux RespHeaders ReqHeaders Callback.
Require Coq.Strings.String.
Import Coq.Strings.String.StringSyntax.

Module P := V.ProxyAll.
Module A := V.AuthAll.
Module PC := V.ProxyCore.
Module B := V.AuthBack.
Module F := V.AuthFlow.
Module T := V.IdToken.
Module S := V.SignOut.
Module G := V.AuthGates.

Definition bs := RespHeaders.bs.
Arguments bs s%string_scope.

Local Open Scope Z_scope.

(* ------------------------------------------------------------------------------------------ *)
(* deployment of the whole system *)

Record sysdep := {
  sd_p : P.deployment;              (* sso-proxy: upstreams, TTLs, cookie settings, provider URL *)
  sd_a : A.deployment;              (* sso-auth: host, providers, client "proxy", rules, keys *)
  sd_pid : str; sd_psecret : str;   (* CLIENT_ID / CLIENT_SECRET as configured AT THE PROXY *)
  sd_bc_host : str                  (* Host of the provider URL: what the proxy's back-channel requests carry *)
}.

(* ------------------------------------------------------------------------------------------ *)
(* names of sealed values *)
Definition name (tag : N) (k : nat) : str := tag :: G.dec (Z.of_nat k).
Definition tag_p : N := 80%N.  (* 'P' *)
Definition tag_a : N := 65%N.  (* 'A' *)
Definition tag_c : N := 67%N.  (* 'C' *)
Definition tag_s : N := 83%N.  (* 'S' *)

(* ------------------------------------------------------------------------------------------ *)
(* state *)

(* a session cookie sealed by the proxy *)
Record prec := {
  pr_val : str; pr_s : PC.session;
  pr_code : option str;      (* ghost: the auth code (its name) redeemed at the login this copy descends from *)
  pr_grant : option nat;     (* the IdP grant (index in st_v) that code belongs to *)
  pr_login : Z;              (* ghost: time of that login callback *)
  pr_host : str;             (* ghost: Host of that callback *)
  pr_up : P.iupstream;       (* ghost: upstream that served the request that sealed this copy *)
  pr_at : Z;                 (* ghost: time this copy was sealed *)
  pr_conf : Z;               (* ghost: time the validity deadline of this copy was last set *)
  pr_real : bool }.          (* ghost: ... by a login or a positive answer (true) / by outage grace (false) *)

(* a session cookie sealed by the authenticator *)
Record arec := {
  ar_val : str; ar_s : B.session;
  ar_slug : str;             (* ghost: provider slug of the authenticator that sealed it *)
  ar_grant : option nat;     (* the IdP grant it descends from *)
  ar_at : Z }.

(* a MAC computed by the proxy under ITS client secret: the signed text is uri ++ decimal ts *)
Record mrec := { mr_val : str; mr_uri : str; mr_ts : Z }.

(* an auth code minted by the authenticator *)
Record crec := {
  cr_val : str; cr_s : B.session;
  cr_uri : str;              (* ghost: the redirect_uri it was handed to *)
  cr_slug : str;
  cr_from : option str;      (* ghost: value of the authenticator cookie it was minted for *)
  cr_sig : option mrec;      (* ghost: the proxy's MAC the /sign_in request presented *)
  cr_grant : option nat;
  cr_at : Z }.

(* a login the IdP vouched for: a successful code exchange at the authenticator's callback *)
Record vrec := {
  vr_email : str; vr_slug : str; vr_kind : A.akind;
  vr_idp_code : str;         (* the IdP's authorization code that was exchanged *)
  vr_an : A.answers;         (* ghost: the IdP's answers during that exchange *)
  vr_at : Z }.


(* the identity provider's own state *)
Record idp := {
  i_down : bool;                          (* outage: every endpoint answers 503 *)
  i_rev : list (nat * Z);                 (* revoked grants, with the time of the revocation *)
  i_groups : list (str * list str) }.     (* directory: e-mail -> groups *)

Record state := {
  st_now : Z;
  st_p : list prec; st_a : list arec; st_c : list crec; st_v : list vrec; st_m : list mrec;
  st_idp : idp;
  st_out : list Z }.   (* ghost: times of proxy requests during which the authenticator or the IdP was unavailable,
                          or the back channel answered 429 / 503 *)

Definition idp0 : idp := {| i_down := false; i_rev := []; i_groups := [] |}.
Definition init (t0 : Z) : state :=
  {| st_now := t0; st_p := []; st_a := []; st_c := []; st_v := []; st_m := []; st_idp := idp0; st_out := [] |}.

(* ------------------------------------------------------------------------------------------ *)
(* events *)

Inductive link := LinkUp | Link503 | LinkReset.     (* the proxy's connection to the authenticator *)

(* net/url behaviour the authenticator model takes as library oracles (AuthAll.oracles) *)
Record aux := { x_parse : str -> option str; x_nested : str -> str * str * str; x_query_ok : str -> bool }.

Inductive idp_change :=
| IDown (b : bool)
| IRevoke (g : nat)                        (* the grant is revoked at the IdP (by the user / an administrator) *)
| IGroups (email : str) (gs : list str).   (* directory change *)

Inductive event :=
| EvTick (dt : Z)
| EvIdp (c : idp_change)
| EvProxy (q : P.request) (bk : RespHeaders.upstream) (lk : link) (sc : A.answers)
| EvAuth (q : A.request) (x : aux) (sc : A.answers).

(* ------------------------------------------------------------------------------------------ *)
(* the oracles of the two models, read off the state *)

Definition find_p (st : state) (v : str) : option prec := find (fun r => str_eqb (pr_val r) v) (st_p st).
Definition find_a (st : state) (v : str) : option arec := find (fun r => str_eqb (ar_val r) v) (st_a st).
Definition find_c (st : state) (v : str) : option crec := find (fun r => str_eqb (cr_val r) v) (st_c st).
Definition find_m (st : state) (v : str) : option mrec := find (fun r => str_eqb (mr_val r) v) (st_m st).

Definition p_opens (st : state) (v : str) : option PC.session := option_map pr_s (find_p st v).

Definition a_open (sd : sysdep) (st : state) (v : str) : option (N * B.session) :=
  match find_a st v with
  | Some r => Some (A.d_cookie_key (sd_a sd), ar_s r)
  | None => match find_c st v with
            | Some c => Some (A.d_code_key (sd_a sd), cr_s c)
            | None => None
            end
  end.

Definition a_tag (sd : sysdep) (st : state) (b : str) : G.tag :=
  match find_m st b with
  | Some m => G.Mac (sd_psecret sd) (mr_uri m ++ G.dec (mr_ts m))
  | None => G.Raw b
  end.

Definition a_oracles (sd : sysdep) (st : state) (x : aux) : A.oracles :=
  {| A.o_open := a_open sd st; A.o_tag := a_tag sd st;
     A.o_parse_string := x_parse x; A.o_nested := x_nested x; A.o_query_ok := x_query_ok x |}.
Definition no_aux : aux := {| x_parse := fun _ => None; x_nested := fun _ => ([], [], []); x_query_ok := fun _ => true |}.

(* ------------------------------------------------------------------------------------------ *)
(* the identity provider: script filtered through its state *)

Definition revoked_refresh (k : A.akind) : F.refresh_reply :=
  F.RStatus 400 (Some (match k with A.AGoogle => F.google_revoked_text | A.AOkta => F.okta_revoked_text end)) None.
(* tokeninfo answers 400 invalid_token; introspect answers 200 {"active": false} *)
Definition revoked_validate (k : A.akind) : F.validate_reply :=
  match k with A.AGoogle => F.VStatus 400 false false | A.AOkta => F.VStatus 200 true false end.

Definition is_revoked (i : idp) (g : option nat) : bool :=
  match g with Some n => existsb (fun r => Nat.eqb n (fst r)) (i_rev i) | None => false end.

Fixpoint dir_lookup (email : str) (t : list (str * list str)) : list str :=
  match t with [] => [] | (e, gs) :: t' => if str_eqb email e then gs else dir_lookup email t' end.

(* provider.ValidateGroupMembership as the /profile handler sees it (okta.go:321-347: the allowed groups
   the user is a member of, in the order asked; "no group membership found" is an error) *)
Definition idp_groups (i : idp) (email : str) (allowed : list str) : B.groups_answer :=
  match allowed with
  | [] => B.GrpOk []
  | _ => match dir_lookup email (i_groups i) with
         | [] => B.GrpErr B.EOther
         | ug => B.GrpOk (filter (fun x => mem_str x ug) allowed)
         end
  end.

(* [g]: the grant the credential presented in this request belongs to; [ga]: the group answer of the
   directory when the request is one the proxy model builds (None: the script's) *)
Definition eff_answers (i : idp) (k : A.akind) (g : option nat) (ga : option B.groups_answer) (sc : A.answers) : A.answers :=
  if i_down i then
    {| A.an_refresh := F.RStatus 503 None None; A.an_validate := F.VStatus 503 false false;
       A.an_tok := T.Resp 503 T.NotJSON; A.an_ui := T.Resp 503 T.NotJSON; A.an_payload := A.an_payload sc;
       A.an_revoke := S.IdpSt 503 S.BNotJSON; A.an_groups := B.GrpErr B.EUnavailable;
       A.an_nonce := A.an_nonce sc; A.an_static := A.an_static sc |}
  else
    {| A.an_refresh := if is_revoked i g then revoked_refresh k else A.an_refresh sc;
       A.an_validate := if is_revoked i g then revoked_validate k else A.an_validate sc;
       A.an_tok := A.an_tok sc; A.an_ui := A.an_ui sc; A.an_payload := A.an_payload sc;
       A.an_revoke := A.an_revoke sc;
       A.an_groups := match ga with Some a => a | None => A.an_groups sc end;
       A.an_nonce := A.an_nonce sc; A.an_static := A.an_static sc |}.

(* ------------------------------------------------------------------------------------------ *)
(* the proxy's back-channel requests (providers/sso.go) *)

(* url.QueryEscape (net/url url.go:278-334, mode encodeQueryComponent) for bytes *)
Definition unreserved (c : N) : bool :=
  ((48 <=? c) && (c <=? 57) || (65 <=? c) && (c <=? 90) || (97 <=? c) && (c <=? 122) ||
   (c =? 45) || (c =? 95) || (c =? 46) || (c =? 126))%N.
Definition hexd (n : N) : N := (if n <? 10 then 48 + n else 55 + n)%N.
Fixpoint qesc (s : str) : str :=
  match s with
  | [] => []
  | c :: r => if unreserved c then c :: qesc r
              else if (c =? 32)%N then 43%N :: qesc r
              else 37%N :: hexd (c / 16) :: hexd (c mod 16) :: qesc r
  end.
(* url.Values.Encode for keys given in sorted order *)
Fixpoint encode_pairs (ps : list (str * str)) : str :=
  match ps with
  | [] => []
  | [(k, v)] => qesc k ++ 61%N :: qesc v
  | (k, v) :: r => qesc k ++ 61%N :: qesc v ++ 38%N :: encode_pairs r
  end.

Definition k_grant_type : str := bs "grant_type".
Definition v_auth_code : str := bs "authorization_code".
Definition h_accept : str := bs "Accept".
Definition v_json : str := bs "application/json".
Definition h_ctype : str := bs "Content-Type".
Definition v_urlenc : str := bs "application/x-www-form-urlencoded".

Definition urlenc : B.ctype := {| B.ct_urlenc := true; B.ct_err := false |}.
Definition no_ctype : B.ctype := {| B.ct_urlenc := false; B.ct_err := false |}.

Definition bc_request (sd : sysdep) (slug leaf meth query body : str) (ct : B.ctype) (hs : list (str * str)) : A.request :=
  {| A.q_host := sd_bc_host sd; A.q_path := A.c_slash :: slug ++ leaf; A.q_method := meth; A.q_query := query;
     A.q_ctype := ct; A.q_body := body; A.q_headers := (h_accept, v_json) :: hs; A.q_sess := []; A.q_csrf := [] |}.

Definition scheme_of (sd : sysdep) : str := if P.dp_secure (sd_p sd) then bs "https" else bs "http".
(* GetRedirectURL(host).String(): scheme://host/oauth2/callback *)
Definition callback_uri (sd : sysdep) (host : str) : str := scheme_of sd ++ bs "://" ++ host ++ P.p_callback.
(* SignOut's return address: scheme://host/ *)
Definition signout_uri (sd : sysdep) (host : str) : str := scheme_of sd ++ bs "://" ++ host ++ bs "/".

(* Redeem, sso.go:102-163 *)
Definition rq_redeem (sd : sysdep) (slug host code : str) : A.request :=
  bc_request sd slug B.p_redeem B.m_post []
    (encode_pairs [(B.k_client_id, sd_pid sd); (B.k_client_secret, sd_psecret sd); (B.k_code, code);
                   (k_grant_type, v_auth_code); (A.k_redirect_uri, callback_uri sd host)])
    urlenc [(h_ctype, v_urlenc)].
(* redeemRefreshToken, sso.go:288-333 *)
Definition rq_refresh (sd : sysdep) (slug rtok : str) : A.request :=
  bc_request sd slug B.p_refresh B.m_post []
    (encode_pairs [(B.k_client_id, sd_pid sd); (B.k_client_secret, sd_psecret sd); (B.k_refresh_token, rtok)])
    urlenc [(h_ctype, v_urlenc)].
(* ValidateSessionState, sso.go:336-352 *)
Definition rq_validate (sd : sysdep) (slug access : str) : A.request :=
  bc_request sd slug B.p_validate B.m_get (encode_pairs [(B.k_client_id, sd_pid sd)]) [] no_ctype
    [(B.h_client_secret, sd_psecret sd); (B.h_access_token, access)].
(* UserGroups, sso.go:196-239 *)
Definition rq_profile (sd : sysdep) (slug email access : str) (groups : list str) : A.request :=
  bc_request sd slug B.p_profile B.m_get
    (encode_pairs [(B.k_client_id, sd_pid sd); (B.k_email, email); (B.k_groups, join [44%N] groups)]) [] no_ctype
    [(B.h_client_secret, sd_psecret sd); (B.h_access_token, access)].

(* what the proxy's HTTP client makes of the authenticator's response *)
Definition http_of (lk : link) (r : A.response) : PC.http_ans :=
  match lk with
  | LinkUp => PC.St (Z.of_N (A.r_status r))
  | Link503 => PC.St 503
  | LinkReset => PC.Transport
  end.
Definition jbody (lk : link) (r : A.response) : option B.body :=
  match lk, A.r_body r with LinkUp, A.BJson b => Some b | _, _ => None end.
(* json.Unmarshal into the anonymous structs of sso.go: the authenticator's documents carry every field *)
Definition redeem_doc (b : option B.body) : option (str * str * str * Z) :=
  match b with
  | Some b => match B.b_email b, B.b_access b, B.b_refresh b, B.b_expires b with
              | Some e, Some a, Some rt, Some x => Some (e, a, rt, x)
              | _, _, _, _ => None
              end
  | None => None
  end.
Definition refresh_doc (b : option B.body) : option (str * Z) :=
  match b with
  | Some b => match B.b_access b, B.b_expires b with Some a, Some x => Some (a, x) | _, _ => None end
  | None => None
  end.
Definition profile_doc (b : option B.body) : option (list str) :=
  match b with Some b => B.b_groups b | None => None end.

Definition idp_calls_of (lk : link) (r : A.response) : list A.call :=
  match lk with LinkUp => A.r_calls r | _ => [] end.

(* ------------------------------------------------------------------------------------------ *)
(* outputs of a step (what the theorems and the correspondence talk about) *)

Record pout := {
  po_out : P.outcome;               (* the proxy model's outcome: backend view, client response, cookie effect, calls *)
  po_ans : P.answers;               (* the back-channel answers it consumed — computed by the authenticator model *)
  po_redeem : A.response;           (* the authenticator model's responses to the four possible calls *)
  po_refresh : A.response; po_validate : A.response; po_profile : A.response;
  po_idp : list A.call;             (* calls that reached the IdP, in order *)
  po_issued : option str;           (* name of the session cookie sealed in this step *)
  po_mac : option str               (* name of the signature issued in this step *)
}.

Record aout := {
  ao_resp : A.response;
  ao_an : A.answers;                (* the IdP answers in effect *)
  ao_cookies : list str;            (* names of the session cookies set, in order *)
  ao_code : option str              (* name of the code minted *)
}.

Inductive out := OTick | OIdp | OProxy (o : pout) | OAuth (o : aout).

Section Sys.
Variable re_match : str -> str -> bool.
Variable re_replace : str -> str -> str -> str.
Variable lower : str -> str.

Definition now_ns (st : state) : Z := st_now st * A.ns.

(* the record of the session cookie a proxy request presents *)
Definition presented_p (sd : sysdep) (st : state) (q : P.request) : option prec :=
  match find (fun c => str_eqb (ReqHeaders.c_name c) (P.dp_cookie_name (sd_p sd)))
             (ReqHeaders.read_cookies (ReqHeaders.h_get ReqHeaders.k_cookie (P.in_headers q))) with
  | None => None
  | Some c => find_p st (ReqHeaders.c_value c)
  end.

Definition is_callback (q : P.request) : bool :=
  match P.route_of_path (P.rq_path q) with P.RtCallback => true | _ => false end.

(* ---- one browser request to the proxy ---- *)
Definition proxy_up (sd : sysdep) (q : P.request) : option P.iupstream :=
  P.route_ext re_match (P.dp_ups (sd_p sd)) (P.rq_host q).
(* the provider slug of the upstream the Host routes to: the proxy's back-channel URLs are <provider>/<slug>/... *)
Definition proxy_slug (sd : sysdep) (q : P.request) : str :=
  match proxy_up sd q with Some u => P.slug_of (sd_p sd) u | None => P.dp_slug (sd_p sd) end.
Definition proxy_allowed (sd : sysdep) (q : P.request) : list str :=
  match proxy_up sd q with Some u => p_groups (Hostmux.u_policy (P.up_hm u)) | None => [] end.
(* the provider type behind that slug: of the authenticator that handles <provider>/<slug>/validate *)
Definition proxy_kind (sd : sysdep) (q : P.request) : A.akind :=
  match A.find_slug (A.c_slash :: proxy_slug sd q ++ B.p_validate) (A.d_slugs (sd_a sd)) with
  | Some (_, k, _) => k
  | None => A.AGoogle
  end.

(* the code of a callback as the authenticator reads it off the proxy's redeem request (url.Values.Encode,
   then ParseForm: the presented code itself when it consists of bytes) *)
Definition redeemed_code (sd : sysdep) (q : P.request) : str :=
  B.presented_code (A.inner (rq_redeem sd (proxy_slug sd q) (P.rq_host q) (P.cb_code q)) B.p_redeem).

(* the IdP grant behind the credential this request makes the authenticator ask about *)
Definition proxy_grant (sd : sysdep) (st : state) (q : P.request) : option nat :=
  if is_callback q then match find_c st (redeemed_code sd q) with Some c => cr_grant c | None => None end
  else match presented_p sd st q with Some r => pr_grant r | None => None end.

(* the authenticator model answering one back-channel request of this step *)
Definition bc_serve (sd : sysdep) (st : state) (q : P.request) (sc : A.answers) (rq : A.request)
    (ga : option B.groups_answer) : A.response :=
  A.serve lower (sd_a sd) rq (a_oracles sd st no_aux)
          (eff_answers (st_idp st) (proxy_kind sd q) (proxy_grant sd st q) ga sc) (now_ns st).

Record bcalls := { bc_redeem : A.response; bc_refresh : A.response; bc_validate : A.response; bc_profile : A.response }.

Definition pres_session (sd : sysdep) (st : state) (q : P.request) : option PC.session :=
  match presented_p sd st q with Some r => Some (pr_s r) | None => None end.

(* /profile: e-mail and token of the session being checked (sso.go:260,375; oauthproxy.go:481) *)
Definition profile_email (sd : sysdep) (st : state) (q : P.request) (redeem_body : option (str * str * str * Z)) : str :=
  if is_callback q then match redeem_body with Some (e, _, _, _) => e | None => [] end
  else match pres_session sd st q with Some s => PC.s_email s | None => [] end.
Definition profile_access (sd : sysdep) (st : state) (q : P.request) (redeem_body : option (str * str * str * Z))
    (refresh_body : option (str * Z)) : str :=
  let acc0 := match pres_session sd st q with Some s => PC.s_access s | None => [] end in
  if is_callback q then match redeem_body with Some (_, a, _, _) => a | None => [] end
  else match pres_session sd st q with
       | Some s => if PC.expired (PC.s_refresh_dl s) (st_now st)
                   then match refresh_body with Some (t, _) => t | None => acc0 end else acc0
       | None => acc0
       end.

Definition bc_run (sd : sysdep) (st : state) (q : P.request) (lk : link) (sc : A.answers) : bcalls :=
  let slug := proxy_slug sd q in
  let s0 := pres_session sd st q in
  let r_redeem := bc_serve sd st q sc (rq_redeem sd slug (P.rq_host q) (P.cb_code q)) None in
  let r_refresh := bc_serve sd st q sc (rq_refresh sd slug (match s0 with Some s => PC.s_refresh_tok s | None => [] end)) None in
  let r_validate := bc_serve sd st q sc (rq_validate sd slug (match s0 with Some s => PC.s_access s | None => [] end)) None in
  let rb := redeem_doc (jbody lk r_redeem) in
  let email := profile_email sd st q rb in
  let r_profile := bc_serve sd st q sc
                     (rq_profile sd slug email (profile_access sd st q rb (refresh_doc (jbody lk r_refresh))) (proxy_allowed sd q))
                     (Some (idp_groups (st_idp st) email (proxy_allowed sd q))) in
  {| bc_redeem := r_redeem; bc_refresh := r_refresh; bc_validate := r_validate; bc_profile := r_profile |}.

(* the answers the proxy model consumes *)
Definition bc_answers (lk : link) (b : bcalls) (bk : RespHeaders.upstream) : P.answers :=
  {| P.an_auth := {| PC.a_refresh := http_of lk (bc_refresh b); PC.a_refresh_body := refresh_doc (jbody lk (bc_refresh b));
                     PC.a_validate := http_of lk (bc_validate b);
                     PC.a_profile := http_of lk (bc_profile b); PC.a_profile_body := profile_doc (jbody lk (bc_profile b)) |};
     P.an_redeem := http_of lk (bc_redeem b); P.an_redeem_body := redeem_doc (jbody lk (bc_redeem b)); P.an_backend := bk |}.

Definition proxy_outcome (sd : sysdep) (st : state) (q : P.request) (bk : RespHeaders.upstream) (lk : link) (sc : A.answers) : P.outcome :=
  P.serve re_match re_replace lower (p_opens st) (sd_p sd) q (bc_answers lk (bc_run sd st q lk sc) bk) (st_now st).

Definition bc_idp_calls (lk : link) (b : bcalls) (calls : list P.call) : list A.call :=
  flat_map (fun c => match c with
                     | P.CRedeem => idp_calls_of lk (bc_redeem b)
                     | P.CRefresh => idp_calls_of lk (bc_refresh b)
                     | P.CValidate => idp_calls_of lk (bc_validate b)
                     | P.CProfile => idp_calls_of lk (bc_profile b)
                     end) calls.

(* the session cookie sealed by this step, with its provenance *)
Definition new_prec (sd : sysdep) (st : state) (q : P.request) (oc : P.outcome) : option prec :=
  let now := st_now st in
  match P.oc_session oc, P.oc_upstream oc with
  | PC.CSaved s', Some u =>
      let v := name tag_p (length (st_p st)) in
      if is_callback q then
        Some {| pr_val := v; pr_s := s'; pr_code := option_map cr_val (find_c st (redeemed_code sd q));
                pr_grant := proxy_grant sd st q; pr_login := now; pr_host := P.rq_host q; pr_up := u; pr_at := now;
                pr_conf := now; pr_real := true |}
      else
        match presented_p sd st q with
        | Some r =>
            let same := Z.eqb (PC.s_valid_dl s') (PC.s_valid_dl (pr_s r)) in
            Some {| pr_val := v; pr_s := s'; pr_code := pr_code r; pr_grant := pr_grant r; pr_login := pr_login r;
                    pr_host := pr_host r; pr_up := u; pr_at := now;
                    pr_conf := if same then pr_conf r else now;
                    pr_real := if same then pr_real r
                               else match PC.s_grace s' with None => true | Some _ => false end |}
        | None => None
        end
  | _, _ => None
  end.

(* a redirect to the authenticator carries a MAC over (return address, now) *)
Definition new_mrec (sd : sysdep) (st : state) (q : P.request) (oc : P.outcome) : option mrec :=
  match P.oc_loc oc with
  | P.LkSignIn _ => Some {| mr_val := name tag_s (length (st_m st)); mr_uri := callback_uri sd (P.rq_host q); mr_ts := st_now st |}
  | P.LkSignOut _ => Some {| mr_val := name tag_s (length (st_m st)); mr_uri := signout_uri sd (P.rq_host q); mr_ts := st_now st |}
  | _ => None
  end.

Definition unavailable (st : state) (lk : link) : bool :=
  match lk with LinkUp => i_down (st_idp st) | _ => true end.
(* the proxy received a "provider unavailable" answer (429 / 503) on its back channel *)
Definition unavail_ans (h : PC.http_ans) : bool := match h with PC.St c => PC.unavailable c | PC.Transport => false end.
Definition saw_unavailable (a : PC.answers) : bool :=
  unavail_ans (PC.a_refresh a) || unavail_ans (PC.a_validate a) || unavail_ans (PC.a_profile a).

Definition proxy_step (sd : sysdep) (st : state) (q : P.request) (bk : RespHeaders.upstream) (lk : link)
    (sc : A.answers) : state * pout :=
  let b := bc_run sd st q lk sc in
  let oc := proxy_outcome sd st q bk lk sc in
  let np := new_prec sd st q oc in
  let nm := new_mrec sd st q oc in
  ({| st_now := st_now st;
      st_p := match np with Some r => st_p st ++ [r] | None => st_p st end;
      st_a := st_a st; st_c := st_c st; st_v := st_v st;
      st_m := match nm with Some m => st_m st ++ [m] | None => st_m st end;
      st_idp := st_idp st;
      st_out := if unavailable st lk || saw_unavailable (P.an_auth (bc_answers lk b bk)) then st_now st :: st_out st else st_out st |},
   {| po_out := oc; po_ans := bc_answers lk b bk; po_redeem := bc_redeem b; po_refresh := bc_refresh b;
      po_validate := bc_validate b; po_profile := bc_profile b; po_idp := bc_idp_calls lk b (P.oc_calls oc);
      po_issued := option_map pr_val np; po_mac := option_map mr_val nm |}).

(* ---- one browser request to the authenticator ---- *)
Definition presented_a (sd : sysdep) (st : state) (q : A.request) : option (str * A.akind * str * option arec) :=
  match A.find_slug (A.q_path q) (A.d_slugs (sd_a sd)) with
  | Some (slug, k, rest) =>
      Some (slug, k, rest, match A.lookup slug (A.q_sess q) with Some v => find_a st v | None => None end)
  | None => None
  end.

Fixpoint sets_of (ops : list F.cookie_op) : list F.session :=
  match ops with
  | [] => []
  | F.OpClear :: r => sets_of r
  | F.OpSet s :: r => s :: sets_of r
  end.

Fixpoint add_cookies (st_a0 : list arec) (slug : str) (g : option nat) (now : Z) (ss : list F.session) : list arec :=
  match ss with
  | [] => st_a0
  | s :: r =>
      add_cookies (st_a0 ++ [{| ar_val := name tag_a (length st_a0); ar_s := A.to_back s; ar_slug := slug;
                                ar_grant := g; ar_at := now |}]) slug g now r
  end.

Fixpoint cookie_names (n0 : nat) (ss : list F.session) : list str :=
  match ss with [] => [] | _ :: r => name tag_a n0 :: cookie_names (S n0) r end.

Definition revoke_called (cs : list A.call) : bool :=
  existsb (fun c => match c with A.CRevoke _ => true | _ => false end) cs.

Definition auth_slug (sd : sysdep) (st : state) (q : A.request) : str :=
  match presented_a sd st q with Some (s, _, _, _) => s | None => [] end.
Definition auth_kind (sd : sysdep) (st : state) (q : A.request) : A.akind :=
  match presented_a sd st q with Some (_, k, _, _) => k | None => A.AGoogle end.
Definition auth_pres (sd : sysdep) (st : state) (q : A.request) : option arec :=
  match presented_a sd st q with Some (_, _, _, r) => r | None => None end.
Definition auth_grant (sd : sysdep) (st : state) (q : A.request) : option nat :=
  match auth_pres sd st q with Some r => ar_grant r | None => None end.
Definition auth_answers (sd : sysdep) (st : state) (q : A.request) (sc : A.answers) : A.answers :=
  eff_answers (st_idp st) (auth_kind sd st q) (auth_grant sd st q) None sc.
Definition auth_resp (sd : sysdep) (st : state) (q : A.request) (x : aux) (sc : A.answers) : A.response :=
  A.serve lower (sd_a sd) q (a_oracles sd st x) (auth_answers sd st q sc) (now_ns st).

(* the request addresses /<slug>/callback *)
Definition is_login (sd : sysdep) (st : state) (q : A.request) : bool :=
  match presented_a sd st q with Some (_, _, rest, _) => str_eqb rest A.p_callback | None => false end.

(* a callback that sets a session is a login the IdP vouched for: a new grant *)
Definition grant_after (sd : sysdep) (st : state) (q : A.request) (r : A.response) : option nat :=
  if is_login sd st q then match sets_of (A.r_sess_ops r) with [] => auth_grant sd st q | _ => Some (length (st_v st)) end
  else auth_grant sd st q.
Definition new_vrecs (sd : sysdep) (st : state) (q : A.request) (sc : A.answers) (r : A.response) : list vrec :=
  if is_login sd st q then
    match sets_of (A.r_sess_ops r) with
    | s :: _ => [{| vr_email := F.s_email s; vr_slug := auth_slug sd st q; vr_kind := auth_kind sd st q;
                    vr_idp_code := B.form_get B.k_code (fst (B.compute_form (A.inner q A.p_callback)));
                    vr_an := auth_answers sd st q sc; vr_at := st_now st |}]
    | [] => []
    end
  else [].
(* the proxy's MAC a /sign_in request presents, if its sig parameter is one *)
Definition presented_mac (st : state) (q : A.request) : option mrec :=
  match S.b64_decode (B.form_get A.k_sig (fst (B.compute_form (A.inner q A.p_sign_in)))) with
  | Some b => find_m st b
  | None => None
  end.
Definition new_crecs (sd : sysdep) (st : state) (q : A.request) (r : A.response) : list crec :=
  match A.r_loc r with
  | A.LCode src s =>
      [{| cr_val := name tag_c (length (st_c st)); cr_s := A.to_back s; cr_uri := src; cr_slug := auth_slug sd st q;
          cr_from := match auth_pres sd st q with Some p => Some (ar_val p) | None => None end;
          cr_sig := presented_mac st q;
          cr_grant := auth_grant sd st q; cr_at := st_now st |}]
  | _ => []
  end.
(* the IdP honours its own revocation: a revoke call it answered positively revokes the grant *)
Definition revoked_now (sd : sysdep) (st : state) (q : A.request) (sc : A.answers) (r : A.response) : bool :=
  revoke_called (A.r_calls r) && S.revoke_ok (A.sprov (auth_kind sd st q)) (A.an_revoke (auth_answers sd st q sc)).
Definition idp_after (sd : sysdep) (st : state) (q : A.request) (sc : A.answers) (r : A.response) : idp :=
  let i := st_idp st in
  if revoked_now sd st q sc r then
    match auth_grant sd st q with
    | Some g => {| i_down := i_down i; i_rev := (g, st_now st) :: i_rev i; i_groups := i_groups i |}
    | None => i
    end
  else i.

Definition auth_step (sd : sysdep) (st : state) (q : A.request) (x : aux) (sc : A.answers) : state * aout :=
  let r := auth_resp sd st q x sc in
  let sets := sets_of (A.r_sess_ops r) in
  let nc := new_crecs sd st q r in
  ({| st_now := st_now st; st_p := st_p st;
      st_a := add_cookies (st_a st) (auth_slug sd st q) (grant_after sd st q r) (st_now st) sets;
      st_c := st_c st ++ nc; st_v := st_v st ++ new_vrecs sd st q sc r; st_m := st_m st;
      st_idp := idp_after sd st q sc r;
      st_out := st_out st |},
   {| ao_resp := r; ao_an := auth_answers sd st q sc; ao_cookies := cookie_names (length (st_a st)) sets;
      ao_code := match nc with c :: _ => Some (cr_val c) | [] => None end |}).

Definition idp_step (now : Z) (i : idp) (c : idp_change) : idp :=
  match c with
  | IDown b => {| i_down := b; i_rev := i_rev i; i_groups := i_groups i |}
  | IRevoke g => {| i_down := i_down i; i_rev := (g, now) :: i_rev i; i_groups := i_groups i |}
  | IGroups e gs => {| i_down := i_down i; i_rev := i_rev i; i_groups := (e, gs) :: i_groups i |}
  end.

Definition with_now (st : state) (t : Z) : state :=
  {| st_now := t; st_p := st_p st; st_a := st_a st; st_c := st_c st; st_v := st_v st; st_m := st_m st;
     st_idp := st_idp st; st_out := st_out st |}.
Definition with_idp (st : state) (i : idp) : state :=
  {| st_now := st_now st; st_p := st_p st; st_a := st_a st; st_c := st_c st; st_v := st_v st; st_m := st_m st;
     st_idp := i; st_out := st_out st |}.

Definition step (sd : sysdep) (st : state) (e : event) : state * out :=
  match e with
  | EvTick dt => (with_now st (st_now st + Z.max 0 dt), OTick)
  | EvIdp c => (with_idp st (idp_step (st_now st) (st_idp st) c), OIdp)
  | EvProxy q bk lk sc => let '(st', o) := proxy_step sd st q bk lk sc in (st', OProxy o)
  | EvAuth q x sc => let '(st', o) := auth_step sd st q x sc in (st', OAuth o)
  end.

(* the trace keeps, for every event, the state it was handled in *)
Fixpoint run (sd : sysdep) (st : state) (evs : list event) : state * list (state * event * out) :=
  match evs with
  | [] => (st, [])
  | e :: evs' =>
      let '(st1, o) := step sd st e in
      let '(st2, tr) := run sd st1 evs' in
      (st2, (st, e, o) :: tr)
  end.

End Sys.
