(* AuthBack.v — model of the authenticator's back-channel (property C08):
     internal/auth/middleware.go:37-102      withMethods, validateClientID, validateClientSecret
     internal/auth/authenticator.go:107-121  newMux: the route table (which gate wraps which handler)
     internal/auth/authenticator.go:634-814  Redeem, Refresh, GetProfile, ValidateToken
     internal/auth/logging_handler.go:84-101 getProxyHost: the production chain (cmd/sso-auth/main.go)
                                             calls req.ParseForm() BEFORE the mux and drops its error
     internal/auth/configuration.go:168-173,456-466  Configuration.Validate / ClientConfig.Validate
     internal/auth/error.go:28-42            codeForError
   and of the slice of the standard library (go1.23.5) the gates depend on:
     net/url   url.go:201-272 unescape (query-component mode), 969-998 parseQuery, Values.Get
     net/http  request.go:1272-1369 parsePostForm / Request.ParseForm (idempotent: a second call
               returns nil even when the first one failed), Request.FormValue, Header.Get.

   Cryptography is symbolic: the environment carries an oracle [e_open] telling for every string
   under which key it opens and to which session (the correspondence driver computes it with
   the real ciphers); Redeem unseals under the AUTH-CODE key only.
   mime.ParseMediaType is an oracle too ([ctype]). No proofs in this file. *)
From V Require Import Base.

Definition k_client_id : str := [99;108;105;101;110;116;95;105;100]. (* "client_id" *)
Definition k_client_secret : str := [99;108;105;101;110;116;95;115;101;99;114;101;116]. (* "client_secret" *)
Definition k_code : str := [99;111;100;101]. (* "code" *)
Definition k_refresh_token : str := [114;101;102;114;101;115;104;95;116;111;107;101;110]. (* "refresh_token" *)
Definition k_email : str := [101;109;97;105;108]. (* "email" *)
Definition k_groups : str := [103;114;111;117;112;115]. (* "groups" *)
Definition h_client_secret : str := [88;45;67;108;105;101;110;116;45;83;101;99;114;101;116]. (* "X-Client-Secret" *)
Definition h_access_token : str := [88;45;65;99;99;101;115;115;45;84;111;107;101;110]. (* "X-Access-Token" *)
Definition m_get : str := [71;69;84]. (* "GET" *)
Definition m_post : str := [80;79;83;84]. (* "POST" *)
Definition m_put : str := [80;85;84]. (* "PUT" *)
Definition m_patch : str := [80;65;84;67;72]. (* "PATCH" *)
Definition p_profile : str := [47;112;114;111;102;105;108;101]. (* "/profile" *)
Definition p_validate : str := [47;118;97;108;105;100;97;116;101]. (* "/validate" *)
Definition p_redeem : str := [47;114;101;100;101;101;109]. (* "/redeem" *)
Definition p_refresh : str := [47;114;101;102;114;101;115;104]. (* "/refresh" *)
Definition proxy_name : str := [112;114;111;120;121]. (* "proxy" *)

Definition is_nil {A} (l : list A) : bool := match l with [] => true | _ => false end.

(* ------------------------------------------------------------------------------------------ *)
(* net/url: QueryUnescape and ParseQuery                                                      *)

Definition ishex (c : N) : bool :=
  ((48 <=? c) && (c <=? 57)) || ((97 <=? c) && (c <=? 102)) || ((65 <=? c) && (c <=? 70)).
Definition unhex (c : N) : N :=
  if (48 <=? c) && (c <=? 57) then c - 48
  else if (97 <=? c) && (c <=? 102) then c - 97 + 10
  else if (65 <=? c) && (c <=? 70) then c - 65 + 10 else 0.

(* unescape(s, encodeQueryComponent): None = EscapeError ('%' not followed by two hex digits);
   "%XX" becomes the byte, '+' becomes ' ' *)
Fixpoint unescape_q (s : str) : option str :=
  match s with
  | [] => Some []
  | c :: r =>
      if N.eqb c 37 then
        match r with
        | a :: b :: r' =>
            if ishex a && ishex b then option_map (cons (16 * unhex a + unhex b)) (unescape_q r')
            else None
        | _ => None
        end
      else option_map (cons (if N.eqb c 43 then 32 else c)) (unescape_q r)
  end.

(* strings.Cut(s, sep) for a one-byte separator: (before, after); (s, "") when absent *)
Fixpoint cut_on (sep : N) (s : str) : str * str :=
  match s with
  | [] => ([], [])
  | c :: r => if N.eqb c sep then ([], r) else let '(a, b) := cut_on sep r in (c :: a, b)
  end.

Inductive seg_result := SegErr | SegSkip | SegPair (k v : str).

(* one iteration of the loop of parseQuery on the text between two '&' *)
Definition parse_segment (seg : str) : seg_result :=
  if existsb (N.eqb 59) seg then SegErr                   (* "invalid semicolon separator" *)
  else if is_nil seg then SegSkip
  else let '(k, v) := cut_on 61 seg in
       match unescape_q k with
       | None => SegErr
       | Some k' => match unescape_q v with
                    | None => SegErr
                    | Some v' => SegPair k' v'
                    end
       end.

(* parseQuery keeps going after an error: the result holds every well-formed pair, in order,
   and the error flag says whether some segment was bad *)
Fixpoint parse_segments (segs : list str) : list (str * str) * bool :=
  match segs with
  | [] => ([], false)
  | s :: r =>
      let '(ps, e) := parse_segments r in
      match parse_segment s with
      | SegErr => (ps, true)
      | SegSkip => (ps, e)
      | SegPair k v => ((k, v) :: ps, e)
      end
  end.

Definition parse_query (q : str) : list (str * str) * bool := parse_segments (split_on 38 q).

(* url.Values.Get / http.Header.Get on an ordered list of pairs: first value of the key, else "" *)
Fixpoint form_get (k : str) (f : list (str * str)) : str :=
  match f with
  | [] => []
  | (a, b) :: f' => if str_eqb k a then b else form_get k f'
  end.

(* all values of a key (used by the statements, not by the handlers) *)
Fixpoint values_of (k : str) (f : list (str * str)) : list str :=
  match f with
  | [] => []
  | (a, b) :: f' => if str_eqb k a then b :: values_of k f' else values_of k f'
  end.

(* ------------------------------------------------------------------------------------------ *)
(* requests and Request.ParseForm                                                             *)

(* oracle for mime.ParseMediaType(Content-Type) as used by parsePostForm: is the media type
   application/x-www-form-urlencoded, and did ParseMediaType return an error (an empty
   Content-Type is treated as application/octet-stream: no error, not urlencoded) *)
Record ctype := { ct_urlenc : bool; ct_err : bool }.

Record request := {
  rq_path : str;
  rq_method : str;
  rq_query : str;                       (* URL.RawQuery, any bytes *)
  rq_ctype : ctype;
  rq_body : str;                        (* raw body, any bytes *)
  rq_headers : list (str * str)         (* canonical key, value; in arrival order *)
}.

Definition form := list (str * str).
(* Request.Form after / before the first ParseForm *)
Definition form_state := option form.

Definition reads_body (m : str) : bool := str_eqb m m_post || str_eqb m m_put || str_eqb m m_patch.

(* first ParseForm: Form = body pairs followed by query pairs; the error is the body's
   (content-type or escape) error, else the query's *)
Definition compute_form (r : request) : form * bool :=
  let '(bp, be) :=
    if reads_body (rq_method r) then
      if ct_urlenc (rq_ctype r) then
        let '(p, e) := parse_query (rq_body r) in (p, ct_err (rq_ctype r) || e)
      else ([], ct_err (rq_ctype r))
    else ([], false) in
  let '(qp, qe) := parse_query (rq_query r) in
  (bp ++ qp, be || qe).

(* Request.ParseForm: when Form is already set nothing happens and nil is returned *)
Definition parse_form (r : request) (fs : form_state) : form_state * bool :=
  match fs with
  | Some f => (Some f, false)
  | None => let '(f, e) := compute_form r in (Some f, e)
  end.

Definition form_of (fs : form_state) : form := match fs with Some f => f | None => [] end.

(* req.URL.Query(): parse error dropped *)
Definition url_query (r : request) : form := fst (parse_query (rq_query r)).

(* ------------------------------------------------------------------------------------------ *)
(* configuration, sessions, provider, responses                                               *)

Record config := {
  cfg_id : str;                 (* ProxyClientID *)
  cfg_secret : str;             (* ProxyClientSecret *)
  cfg_code_key : N;             (* key of AuthCodeCipher (SESSION_KEY) *)
  cfg_cookie_key : N            (* key of the cookie cipher (SESSION_COOKIE_SECRET) *)
}.

(* the fields of sessions.SessionState that Redeem looks at; deadlines in seconds *)
Record session := {
  s_email : str; s_access : str; s_refresh_tok : str;
  s_refresh_dl : Z; s_lifetime_dl : Z
}.

Inductive perr := EBadRequest | ETokenRevoked | ERateLimit | EUnavailable | EOther.
Definition code_for_error (e : perr) : N :=
  match e with EBadRequest => 400 | ETokenRevoked => 401 | ERateLimit => 429 | EUnavailable => 503 | EOther => 500 end.

Inductive refresh_answer := RefOk (token : str) (expires : Z) | RefErr (e : perr).
Inductive groups_answer := GrpOk (groups : list str) | GrpErr (e : perr).

Record env := {
  e_now : Z;
  e_open : str -> option (N * session);     (* under which key the string opens, and to what *)
  e_refresh : refresh_answer;               (* provider.RefreshAccessToken *)
  e_groups : groups_answer;                 (* provider.ValidateGroupMembership *)
  e_valid : bool                            (* provider.ValidateSessionState *)
}.

Definition unseal (e : env) (key : N) (c : str) : option session :=
  match e_open e c with
  | Some (k, s) => if N.eqb k key then Some s else None
  | None => None
  end.

Inductive pcall :=
| PRefresh (token : str)
| PGroups (email : str) (allowed : list str) (token : str)
| PValidate (token : str).

(* JSON fields of the response body; an error page / empty body has none *)
Record body := {
  b_access : option str; b_refresh : option str; b_email : option str;
  b_expires : option Z; b_groups : option (list str)
}.
Definition no_body : body :=
  {| b_access := None; b_refresh := None; b_email := None; b_expires := None; b_groups := None |}.

Inductive handler := HProfile | HValidate | HRedeem | HRefresh.
Inductive gate := GClientID | GClientSecret.

Record response := {
  rs_status : N;
  rs_calls : list pcall;           (* identity-provider calls made, in order *)
  rs_body : body;
  rs_ran : option handler          (* ghost: the handler whose body was entered *)
}.

Definition err_resp (code : N) : response :=
  {| rs_status := code; rs_calls := []; rs_body := no_body; rs_ran := None |}.

Definition hfun := request -> form_state -> response.

(* ------------------------------------------------------------------------------------------ *)
(* middleware.go:37-102                                                                       *)

Definition with_methods (ms : list str) (f : hfun) : hfun := fun r fs =>
  if mem_str (rq_method r) ms then f r fs else err_resp 405.

Definition validate_client_id (cfg : config) (f : hfun) : hfun := fun r fs =>
  let '(fs', e) := parse_form r fs in
  if e then err_resp 500
  else
    let id := form_get k_client_id (form_of fs') in            (* req.FormValue("client_id") *)
    let id := if is_nil id then form_get k_client_id (url_query r) else id in
    if str_eqb id (cfg_id cfg) then f r fs' else err_resp 401.

Definition validate_client_secret (cfg : config) (f : hfun) : hfun := fun r fs =>
  let '(fs', e) := parse_form r fs in
  if e then err_resp 500
  else
    let sec := form_get k_client_secret (form_of fs') in       (* req.Form.Get("client_secret") *)
    let sec := if is_nil sec then form_get h_client_secret (rq_headers r) else sec in
    if str_eqb sec (cfg_secret cfg) then f r fs' else err_resp 401.

(* ------------------------------------------------------------------------------------------ *)
(* authenticator.go:634-814                                                                   *)

Definition ran (h : handler) (code : N) (calls : list pcall) (b : body) : response :=
  {| rs_status := code; rs_calls := calls; rs_body := b; rs_ran := Some h |}.

(* Redeem. (The [session == nil] branch at :658-664 cannot be reached: UnmarshalSession returns a
   nil session only together with an error; it would dereference a nil error.) *)
Definition redeem (cfg : config) (e : env) : hfun := fun r fs =>
  let '(fs', err) := parse_form r fs in
  if err then ran HRedeem 400 [] no_body
  else
    match unseal e (cfg_code_key cfg) (form_get k_code (form_of fs')) with
    | None => ran HRedeem 401 [] no_body                                   (* invalid auth code *)
    | Some s =>
        if ((s_refresh_dl s <? e_now e) || (s_lifetime_dl s <? e_now e))%Z
        then ran HRedeem 401 [] no_body                                    (* expired session *)
        else ran HRedeem 200 []
               {| b_access := Some (s_access s); b_refresh := Some (s_refresh_tok s);
                  b_email := Some (s_email s); b_expires := Some (s_refresh_dl s - e_now e)%Z;
                  b_groups := None |}
    end.

Definition refresh (e : env) : hfun := fun r fs =>
  let '(fs', err) := parse_form r fs in
  if err then ran HRefresh 400 [] no_body
  else
    let tok := form_get k_refresh_token (form_of fs') in
    if is_nil tok then ran HRefresh 400 [] no_body
    else match e_refresh e with
         | RefErr pe => ran HRefresh (code_for_error pe) [PRefresh tok] no_body
         | RefOk at_ exp =>
             ran HRefresh 201 [PRefresh tok]
               {| b_access := Some at_; b_refresh := None; b_email := None; b_expires := Some exp;
                  b_groups := None |}
         end.

(* GetProfile reads through FormValue; Form is always set when the gates ran first (with an
   unset Form, FormValue would also parse a multipart body, which is not modelled) *)
Definition get_profile (e : env) : hfun := fun r fs =>
  let f := form_of (fst (parse_form r fs)) in
  let email := form_get k_email f in
  if is_nil email then ran HProfile 400 [] no_body
  else
    let tok := form_get h_access_token (rq_headers r) in
    let g := form_get k_groups f in
    let allowed := if is_nil g then [] else split_on 44 g in
    match e_groups e with
    | GrpErr pe => ran HProfile (code_for_error pe) [PGroups email allowed tok] no_body
    | GrpOk gs =>
        ran HProfile 200 [PGroups email allowed tok]
          {| b_access := None; b_refresh := None; b_email := Some email; b_expires := None;
             b_groups := Some gs |}
    end.

Definition validate_token (e : env) : hfun := fun r fs =>
  let tok := form_get h_access_token (rq_headers r) in
  if is_nil tok then ran HValidate 400 [] no_body
  else if e_valid e then ran HValidate 200 [PValidate tok] no_body
  else ran HValidate 401 [PValidate tok] no_body.

Definition run_handler (cfg : config) (e : env) (h : handler) : hfun :=
  match h with
  | HProfile => get_profile e
  | HValidate => validate_token e
  | HRedeem => redeem cfg e
  | HRefresh => refresh e
  end.

(* ------------------------------------------------------------------------------------------ *)
(* the route table, authenticator.go:115-118, as data                                         *)

Record route := { r_path : str; r_methods : list str; r_gates : list gate; r_handler : handler }.

Definition routes : list route := [
  {| r_path := p_profile;  r_methods := [m_get];  r_gates := [GClientID; GClientSecret]; r_handler := HProfile |};
  {| r_path := p_validate; r_methods := [m_get];  r_gates := [GClientID; GClientSecret]; r_handler := HValidate |};
  {| r_path := p_redeem;   r_methods := [m_post]; r_gates := [GClientID; GClientSecret]; r_handler := HRedeem |};
  {| r_path := p_refresh;  r_methods := [m_post]; r_gates := [GClientID; GClientSecret]; r_handler := HRefresh |}
].

Fixpoint find_route (p : str) (t : list route) : option route :=
  match t with
  | [] => None
  | rt :: t' => if str_eqb p (r_path rt) then Some rt else find_route p t'
  end.

Definition apply_gate (cfg : config) (g : gate) (f : hfun) : hfun :=
  match g with
  | GClientID => validate_client_id cfg f
  | GClientSecret => validate_client_secret cfg f
  end.

(* gates listed outermost first: [g1; g2] h  =  g1 (g2 h) *)
Definition wrap (cfg : config) (gs : list gate) (h : hfun) : hfun := fold_right (apply_gate cfg) h gs.

Definition serve_route (cfg : config) (e : env) (rt : route) : hfun :=
  with_methods (r_methods rt) (wrap cfg (r_gates rt) (run_handler cfg e (r_handler rt))).

(* Form state on arrival at the mux: [pre = true] is the production chain, where the logging
   handler has already called ParseForm and dropped its error (so no gate ever sees one);
   [pre = false] is the bare mux of NewAuthenticator *)
Definition init_state (pre : bool) (r : request) : form_state :=
  if pre then fst (parse_form r None) else None.

Definition serve_table (t : list route) (cfg : config) (e : env) (pre : bool) (r : request) : response :=
  match find_route (rq_path r) t with
  | None => err_resp 404
  | Some rt => serve_route cfg e rt r (init_state pre r)
  end.

Definition serve := serve_table routes.

(* ------------------------------------------------------------------------------------------ *)
(* what a request presents, as the gates read it                                              *)

Definition presented_id (r : request) : str :=
  let id := form_get k_client_id (fst (compute_form r)) in
  if is_nil id then form_get k_client_id (url_query r) else id.

Definition presented_secret (r : request) : str :=
  let s := form_get k_client_secret (fst (compute_form r)) in
  if is_nil s then form_get h_client_secret (rq_headers r) else s.

(* ... and a reading that does not follow the gates: every value the caller put anywhere *)
Definition id_values (r : request) : list str :=
  values_of k_client_id (fst (parse_query (rq_body r))) ++ values_of k_client_id (fst (parse_query (rq_query r))).
Definition secret_values (r : request) : list str :=
  values_of k_client_secret (fst (parse_query (rq_body r))) ++
  values_of k_client_secret (fst (parse_query (rq_query r))) ++
  values_of h_client_secret (rq_headers r).

Definition presented_code (r : request) : str := form_get k_code (fst (compute_form r)).

(* ------------------------------------------------------------------------------------------ *)
(* configuration.go: Configuration.Validate over the client table, NewAuthenticator's lookup  *)

Definition client_ok (c : str * (str * str)) : bool :=
  negb (is_nil (fst (snd c))) && negb (is_nil (snd (snd c))).
Definition clients_validate (cs : list (str * (str * str))) : bool := forallb client_ok cs.

Fixpoint lookup_client (n : str) (cs : list (str * (str * str))) : str * str :=
  match cs with
  | [] => ([], [])                               (* Go map miss: the zero ClientConfig *)
  | (a, v) :: cs' => if str_eqb n a then v else lookup_client n cs'
  end.

Definition new_authenticator_creds (cs : list (str * (str * str))) : str * str := lookup_client proxy_name cs.
