(* Breaker.v — executable model of /repo/internal/auth/circuit/breaker.go (C15).

   The breaker guards all of its fields with one mutex (breaker.go:163). Each critical section is
   one atomic transition of a labelled transition system:

     Start        = beforeRequest                       (breaker.go:226-243)
     Finish i ok  = afterRequest(ok, generation of the i-th call in flight)   (breaker.go:245-262)
     Tick dt      = the (mock) clock advances by dt between two critical sections

   [Call] (breaker.go:215-224) is  beforeRequest ; f() outside the mutex ; afterRequest,  so "every
   interleaving of any number of overlapping calls and clock advances" is "every list of events".
   Ghost state: [inflight] holds the admission generation (the value beforeRequest returned and
   Call keeps on its stack) of every call that has started and not finished; the Go code keeps only
   their number, in Counts.CurrentRequests. [Finish i ok] with [i] out of range is a no-op, so
   every event list is well formed by construction.

   The model is generic in the three user-supplied rules (Options.ShouldTripFunc,
   ShouldResetFunc, BackoffDurationFunc) and in Options.HalfOpenConcurrentRequests; every call the
   code makes to a rule or to a hook (OnStateChange, OnBackoff) is recorded, in order, in the
   step's output.  Time and durations are integers (Z) in one arbitrary unit.  No proofs here. *)
From V Require Import Base.
Open Scope Z_scope.

(* breaker.go:19-23 *)
Inductive bstate := Closed | HalfOpen | Open.

Definition bstate_eqb (a b : bstate) : bool :=
  match a, b with
  | Closed, Closed | HalfOpen, HalfOpen | Open, Open => true
  | _, _ => false
  end.

(* breaker.go:85-89 — Go ints, hence Z: that CurrentRequests never goes negative is a theorem *)
Record counts := mkcounts { cur : Z; succ : Z; fail : Z }.

Definition counts_eqb (a b : counts) : bool :=
  (cur a =? cur b) && (succ a =? succ b) && (fail a =? fail b).

(* breaker.go:91-112 *)
Definition c_on_request (c : counts) := mkcounts (cur c + 1) (succ c) (fail c).
Definition c_after_request (c : counts) := mkcounts (cur c - 1) (succ c) (fail c).
Definition c_on_success (c : counts) := mkcounts (cur c) (succ c + 1) 0.
Definition c_on_failure (c : counts) := mkcounts (cur c) 0 (fail c + 1).
Definition c_clear (c : counts) := mkcounts (cur c) 0 0.   (* CurrentRequests is NOT cleared *)

(* Everything the breaker calls that the caller of NewBreaker supplied, in call order. *)
Inductive rule_kind := RTrip | RReset | RBackoff.
Inductive hook :=
| HRule (k : rule_kind) (c : counts)      (* ShouldTripFunc / ShouldResetFunc / BackoffDurationFunc called with c *)
| HState (prev to : bstate)               (* OnStateChange(prev, to)   breaker.go:326-328 *)
| HBackoff (d reset_at : Z).              (* OnBackoff(duration, reset) breaker.go:297-299 *)

(* breaker.go:148-168 (mutable fields) + the clock reading + ghost [inflight] *)
Record breaker := mkbreaker {
  st : bstate;
  gen : nat;
  cnt : counts;
  expires : Z;            (* backoffExpires *)
  now : Z;                (* what clock.Now() returns inside the next critical section *)
  inflight : list nat     (* ghost: admission generation of every started, unfinished call *)
}.

Definition with_cnt (b : breaker) (c : counts) :=
  mkbreaker (st b) (gen b) c (expires b) (now b) (inflight b).
Definition with_inflight (b : breaker) (l : list nat) :=
  mkbreaker (st b) (gen b) (cnt b) (expires b) (now b) l.

Inductive event := Start | Finish (i : nat) (ok : bool) | Tick (dt : Z).

(* What one event shows to the outside: for Start whether Call went on to run f (Some true) or
   returned ErrOpenState at once (Some false), whether f was entered, and the calls made to the
   supplied rules and hooks inside the critical section, in order. *)
Record obs := mkobs { o_adm : option bool; o_ran : bool; o_hooks : list hook }.

Fixpoint remove_nth {A} (i : nat) (l : list A) : list A :=
  match l, i with
  | [], _ => []
  | _ :: l', O => l'
  | x :: l', S i' => x :: remove_nth i' l'
  end.

Section Breaker.
Variable trip reset : counts -> bool.      (* Options.ShouldTripFunc, ShouldResetFunc *)
Variable backoff : counts -> Z.            (* Options.BackoffDurationFunc *)
Variable opt_half_open : Z.                (* Options.HalfOpenConcurrentRequests *)

(* breaker.go:182-185: a non-positive option means 1 *)
Definition half_open_max : Z := if 0 <? opt_half_open then opt_half_open else 1.

(* NewBreaker, breaker.go:171-210: its closing setState(StateClosed) is a no-op on the zero value,
   so the generation starts at 0 and no hook fires. backoffExpires is the zero time; it is never
   read before a transition to Open overwrites it. The mock clock starts at its epoch, 0. *)
Definition init : breaker := mkbreaker Closed 0 (mkcounts 0 0 0) 0 0 [].

(* breaker.go:316-329, with newGeneration 312-314 *)
Definition set_state (b : breaker) (s : bstate) : breaker * list hook :=
  if bstate_eqb (st b) s then (b, [])
  else (mkbreaker s (S (gen b)) (cnt b) (expires b) (now b) (inflight b), [HState (st b) s]).

(* breaker.go:293-300 *)
Definition set_backoff (b : breaker) : breaker * list hook :=
  let d := backoff (cnt b) in
  (mkbreaker (st b) (gen b) (cnt b) (now b + d) (now b) (inflight b),
   [HRule RBackoff (cnt b); HBackoff d (now b + d)]).

(* breaker.go:302-310: time.Time.After is the STRICT comparison *)
Definition current_state (b : breaker) : breaker * list hook :=
  match st b with
  | Open => if expires b <? now b then set_state b HalfOpen else (b, [])
  | _ => (b, [])
  end.
Definition clock_step (b : breaker) : breaker := fst (current_state b).

Definition let_through (b : breaker) : breaker :=
  mkbreaker (st b) (gen b) (c_on_request (cnt b)) (expires b) (now b) (inflight b ++ [gen b]).

(* breaker.go:226-243. Result: new state, Some g = admitted under generation g / None = ErrOpenState *)
Definition before_request (b : breaker) : breaker * option nat * list hook :=
  let '(b1, h) := current_state b in
  match st b1 with
  | Open => (b1, None, h)
  | HalfOpen => if half_open_max <=? cur (cnt b1) then (b1, None, h) else (let_through b1, Some (gen b1), h)
  | Closed => (let_through b1, Some (gen b1), h)
  end.

(* breaker.go:264-273 *)
Definition on_success (b : breaker) (state : bstate) : breaker * list hook :=
  let b1 := with_cnt b (c_on_success (cnt b)) in
  match state with
  | HalfOpen =>
      if reset (cnt b1) then
        let '(b2, h) := set_state b1 Closed in
        (with_cnt b2 (c_clear (cnt b2)), HRule RReset (cnt b1) :: h)
      else (b1, [HRule RReset (cnt b1)])
  | _ => (b1, [])
  end.

(* breaker.go:275-291 *)
Definition on_failure (b : breaker) (state : bstate) : breaker * list hook :=
  let b1 := with_cnt b (c_on_failure (cnt b)) in
  match state with
  | Closed =>
      if trip (cnt b1) then
        let '(b2, h) := set_state b1 Open in
        let b3 := with_cnt b2 (c_clear (cnt b2)) in
        let '(b4, h') := set_backoff b3 in
        (b4, HRule RTrip (cnt b1) :: h ++ h')
      else (b1, [HRule RTrip (cnt b1)])
  | Open => set_backoff b1
  | HalfOpen =>
      let '(b2, h) := set_state b1 Open in
      let '(b3, h') := set_backoff b2 in
      (b3, h ++ h')
  end.

(* breaker.go:245-262; [b] already has the finishing call removed from the ghost list *)
Definition after_request (b : breaker) (prev_generation : nat) (ok : bool) : breaker * list hook :=
  let b0 := with_cnt b (c_after_request (cnt b)) in
  let '(b1, h) := current_state b0 in
  if negb (Nat.eqb prev_generation (gen b1)) then (b1, h)
  else
    let '(b2, h') := if ok then on_success b1 (st b1) else on_failure b1 (st b1) in
    (b2, h ++ h').

Definition step (b : breaker) (e : event) : breaker * obs :=
  match e with
  | Start =>
      let '(b', r, h) := before_request b in
      (b', match r with Some _ => mkobs (Some true) true h | None => mkobs (Some false) false h end)
  | Finish i ok =>
      match nth_error (inflight b) i with
      | None => (b, mkobs None false [])
      | Some g =>
          let '(b', h) := after_request (with_inflight b (remove_nth i (inflight b))) g ok in
          (b', mkobs None false h)
      end
  | Tick dt => (mkbreaker (st b) (gen b) (cnt b) (expires b) (now b + dt) (inflight b), mkobs None false [])
  end.

Definition step_st (b : breaker) (e : event) : breaker := fst (step b e).

(* the state after an arbitrary interleaving *)
Definition exec_from (b : breaker) (evs : list event) : breaker := fold_left step_st evs b.
Definition exec (evs : list event) : breaker := exec_from init evs.

(* ... and what it showed, event by event *)
Fixpoint trace_from (b : breaker) (evs : list event) : list obs :=
  match evs with
  | [] => []
  | e :: evs' => let '(b', o) := step b e in o :: trace_from b' evs'
  end.
Definition trace (evs : list event) : list obs := trace_from init evs.

End Breaker.

(* helpers on traces, used by statements *)
Definition is_state_hook (h : hook) : bool := match h with HState _ _ => true | _ => false end.
Definition state_hooks (os : list obs) : list hook := filter is_state_hook (flat_map o_hooks os).

(* number of in-flight calls admitted under generation [g] *)
Definition count_gen (g : nat) (l : list nat) : nat := length (filter (Nat.eqb g) l).

(* sum of the clock advances in an event list *)
Fixpoint ticks (evs : list event) : Z :=
  match evs with
  | [] => 0
  | Tick dt :: r => dt + ticks r
  | _ :: r => ticks r
  end.
Definition tick_nonneg (e : event) : Prop := match e with Tick dt => 0 <= dt | _ => True end.

(* the documented state diagram (docs/architecture/circuit-breaker.md) *)
Definition edge_ok (a b : bstate) : bool :=
  match a, b with
  | Closed, Open | Open, HalfOpen | HalfOpen, Closed | HalfOpen, Open => true
  | _, _ => false
  end.
(* follow the OnStateChange calls of a hook log from state [s]: each must leave the state the
   previous one entered, along an edge of the diagram; result = the state finally entered *)
Fixpoint walk (s : bstate) (hs : list hook) : option bstate :=
  match hs with
  | [] => Some s
  | HState p t :: r => if bstate_eqb p s && edge_ok p t then walk t r else None
  | _ :: r => walk s r
  end.
Definition all_hooks (os : list obs) : list hook := flat_map o_hooks os.

(* an event that shows nothing: no hook or rule call, f not run, and (for a start) a rejection *)
Definition quiet_reject (o : obs) : Prop :=
  o_hooks o = [] /\ o_ran o = false /\ (o_adm o = Some false \/ o_adm o = None).

(* the state after a stale completion of the i-th in-flight call: the clock step, one call fewer
   in flight, nothing else *)
Definition after_stale (b : breaker) (i : nat) : breaker :=
  let b1 := clock_step b in
  mkbreaker (st b1) (gen b1) (mkcounts (cur (cnt b) - 1) (succ (cnt b)) (fail (cnt b)))
            (expires b) (now b) (remove_nth i (inflight b)).
