(* SignOut.v — model of sign-out across sso-proxy and sso-auth (property C19). Self-contained:
   only Base is imported; the pieces of library behaviour the property depends on are modelled
   here concretely (decimal printing / strconv.ParseInt, padded base64url, URL.String of the
   three-field return address), the HMAC is an arbitrary function [mac] (section variable).

   Go sources followed (function-for-function, branch-for-branch):
     internal/proxy/oauthproxy.go:292-313          OAuthProxy.SignOut
     internal/proxy/providers/sso.go:421-440       GetSignOutURL, signRedirectURL
     internal/auth/authenticator.go:113            route: withMethods(validateRedirectURI(validateSignature(SignOut)), GET, POST)
     internal/auth/middleware.go:37-49,104-188     withMethods, validateRedirectURI, validateSignature, validSignature,
                                                   redirectURLSignature
     internal/auth/authenticator.go:366-455        Authenticator.SignOut, SignOutPage
     internal/pkg/sessions/cookie_store.go:131-154 ClearSession, LoadSession (ErrNoCookie / ErrInvalidSession)
     internal/auth/providers/google.go:202-223,437-450   googleRequest status mapping, Revoke
     internal/auth/providers/okta.go:196-217,418-436     oktaRequest status mapping, Revoke
   Library code followed (go1.23.5): strconv.ParseInt / fmt.Sprint(int64); encoding/base64
   URLEncoding (padded) EncodeToString / DecodeString (decodeQuantum); net/url URL.String for
   {Scheme, Host, Path:"/"}, QueryEscape / QueryUnescape / Values.Encode / ParseQuery.

   Oracles (explicit arguments, never axioms): [mac] (HMAC-SHA256), "url.Parse(uri) succeeds",
   "validRedirectURI(uri, root domains)" (C07 owns the URL parser), the JSON decoding of the
   IdP's error body (the case carries error_description or NotJSON), Request.ParseForm's merge
   of a POST body with the query. url.Values.Encode / url.ParseQuery are modelled (section 3b).
   Time is Z seconds. No proofs in this file. *)
From V Require Import Base.

Definition is_nil {A} (l : list A) : bool := match l with [] => true | _ => false end.

(* ------------------------------------------------------------------------------------------ *)
(* 1. decimal: fmt.Sprint(int64) and strconv.ParseInt(s, 10, 64)                               *)

Definition digit_val (c : N) : option N := if (48 <=? c) && (c <=? 57) then Some (c - 48) else None.

(* the digit loop of strconv.ParseUint (base 10: '_' is not accepted) on an unbounded accumulator *)
Fixpoint parse_digits (acc : N) (s : str) : option N :=
  match s with
  | [] => Some acc
  | c :: s' => match digit_val c with Some d => parse_digits (acc * 10 + d) s' | None => None end
  end.

Definition parse_uint (s : str) : option N := match s with [] => None | _ => parse_digits 0 s end.

Definition two63 : N := 9223372036854775808.

(* strconv.ParseInt(s, 10, 64): optional sign, at least one digit, range error outside int64
   (ParseUint's own overflow at 2^64 is subsumed: its error value is >= the cutoff) *)
Definition parse_int (s : str) : option Z :=
  match s with
  | [] => None
  | c :: r =>
      let neg := c =? 45 in
      let body := if (c =? 43) || (c =? 45) then r else s in
      match parse_uint body with
      | None => None
      | Some v => if neg then (if v <=? two63 then Some (- Z.of_N v)%Z else None)
                  else (if v <? two63 then Some (Z.of_N v) else None)
      end
  end.

(* strconv.FormatInt(n, 10): most significant digit first; fuel = bit length, never exhausted *)
Fixpoint dec_fuel (fuel : nat) (n : N) : str :=
  match fuel with
  | O => []
  | S f => if n <? 10 then [48 + n] else dec_fuel f (n / 10) ++ [48 + n mod 10]
  end.
Definition dec_N (n : N) : str := dec_fuel (S (N.to_nat (N.size n))) n.
Definition dec (z : Z) : str :=
  match z with
  | Z0 => [48]
  | Zpos p => dec_N (Npos p)
  | Zneg p => 45 :: dec_N (Npos p)
  end.

(* ------------------------------------------------------------------------------------------ *)
(* 2. base64.URLEncoding (alphabet A-Za-z0-9-_ , '=' padding)                                  *)

Definition enc_char (v : N) : N :=
  if v <? 26 then 65 + v
  else if v <? 52 then 97 + (v - 26)
  else if v <? 62 then 48 + (v - 52)
  else if v =? 62 then 45 else 95.

Definition dec_char (c : N) : option N :=
  if (65 <=? c) && (c <=? 90) then Some (c - 65)
  else if (97 <=? c) && (c <=? 122) then Some (c - 97 + 26)
  else if (48 <=? c) && (c <=? 57) then Some (c - 48 + 52)
  else if c =? 45 then Some 62
  else if c =? 95 then Some 63
  else None.

Definition is_crlf (c : N) : bool := (c =? 10) || (c =? 13).
Definition pad : N := 61.

(* Encoding.Encode, base64.go:145-194 *)
Fixpoint b64_encode (b : list N) : str :=
  match b with
  | [] => []
  | [x] => [enc_char (x / 4); enc_char ((x mod 4) * 16); pad; pad]
  | [x; y] => [enc_char (x / 4); enc_char ((x mod 4) * 16 + y / 16); enc_char ((y mod 16) * 4); pad]
  | x :: y :: z :: r =>
      enc_char (x / 4) :: enc_char ((x mod 4) * 16 + y / 16) :: enc_char ((y mod 16) * 4 + z / 64)
        :: enc_char (z mod 64) :: b64_encode r
  end.

(* decodeQuantum's walk: alphabet characters give sextets, CR/LF are skipped wherever they occur,
   the first '=' ends the walk (the rest is kept for the padding check), anything else is an error *)
Fixpoint scan (s : str) : option (list N * option str) :=
  match s with
  | [] => Some ([], None)
  | c :: s' =>
      match dec_char c with
      | Some v => match scan s' with Some (q, r) => Some (v :: q, r) | None => None end
      | None => if is_crlf c then scan s'
                else if c =? pad then Some ([], Some s') else None
      end
  end.

Fixpoint skip_crlf (s : str) : str :=
  match s with c :: s' => if is_crlf c then skip_crlf s' else s | [] => [] end.

(* grouping into quanta; with padding an incomplete quantum must be closed by '=' ("==" after two
   sextets), only CR/LF may follow; the low bits of the last sextet are ignored (non-strict) *)
Fixpoint unquanta (q : list N) (rest : option str) : option (list N) :=
  match q with
  | a :: b :: c :: d :: r =>
      match unquanta r rest with
      | Some t => Some (a * 4 + b / 16 :: (b mod 16) * 16 + c / 4 :: (c mod 4) * 64 + d :: t)
      | None => None
      end
  | [] => match rest with None => Some [] | Some _ => None end
  | [_] => None
  | [a; b] =>
      match rest with
      | Some r => match skip_crlf r with
                  | c :: r' => if c =? pad
                               then (match skip_crlf r' with [] => Some [a * 4 + b / 16] | _ => None end)
                               else None
                  | [] => None
                  end
      | None => None
      end
  | [a; b; c] =>
      match rest with
      | Some r => match skip_crlf r with
                  | [] => Some [a * 4 + b / 16; (b mod 16) * 16 + c / 4]
                  | _ => None
                  end
      | None => None
      end
  end.

(* base64.URLEncoding.DecodeString: Some bytes, or None for CorruptInputError *)
Definition b64_decode (s : str) : option (list N) :=
  match scan s with Some (q, rest) => unquanta q rest | None => None end.

Definition bytes_ok (b : list N) : Prop := Forall (fun x => x < 256) b.

(* ------------------------------------------------------------------------------------------ *)
(* 3. URL.String() of &url.URL{Scheme: scheme, Host: host, Path: "/"}                          *)

Definition is_alnum (c : N) : bool :=
  ((48 <=? c) && (c <=? 57)) || ((65 <=? c) && (c <=? 90)) || ((97 <=? c) && (c <=? 122)).
(* shouldEscape(c, encodeHost) = false *)
Definition host_keep (c : N) : bool :=
  is_alnum c ||
  existsb (N.eqb c) [33;36;38;39;40;41;42;43;44;59;61;58;91;93;60;62;34  (* bang dollar amp apos parens star plus comma semi eq colon brackets lt gt dquote *)
                     ;45;95;46;126].                                      (* - _ . ~ *)
Definition hex_digit (v : N) : N := if v <? 10 then 48 + v else 55 + v.
Definition escape_host (h : str) : str :=
  flat_map (fun c => if host_keep c then [c] else [37; hex_digit (c / 16); hex_digit (c mod 16)]) h.
Definition host_plain (h : str) : bool := forallb host_keep h.

Definition url_string (scheme host : str) : str :=
  (match scheme with [] => [] | _ => scheme ++ [58] end) ++
  (match scheme, host with [], [] => [] | _, _ => [47; 47] end) ++
  escape_host host ++ [47].

(* ------------------------------------------------------------------------------------------ *)
(* 3b. the query string on the wire: url.Values.Encode (keys already sorted, one value each) and
   url.ParseQuery / Request.ParseForm (go1.23.5 net/url: QueryEscape, QueryUnescape, parseQuery)   *)

(* shouldEscape(c, encodeQueryComponent) = false *)
Definition query_keep (c : N) : bool := is_alnum c || existsb (N.eqb c) [45; 95; 46; 126].
Definition query_escape (s : str) : str :=
  flat_map (fun c => if query_keep c then [c]
                     else if c =? 32 then [43]
                     else [37; hex_digit (c / 16); hex_digit (c mod 16)]) s.

Definition unhex (c : N) : option N :=
  if (48 <=? c) && (c <=? 57) then Some (c - 48)
  else if (97 <=? c) && (c <=? 102) then Some (c - 97 + 10)
  else if (65 <=? c) && (c <=? 70) then Some (c - 65 + 10)
  else None.

(* QueryUnescape: %XX -> byte, '+' -> space, a malformed escape is an error *)
Fixpoint query_unescape (s : str) : option str :=
  match s with
  | [] => Some []
  | c :: r =>
      if c =? 37 then
        match r with
        | a :: b :: r' =>
            match unhex a, unhex b with
            | Some x, Some y => match query_unescape r' with Some t => Some (x * 16 + y :: t) | None => None end
            | _, _ => None
            end
        | _ => None
        end
      else match query_unescape r with
           | Some t => Some ((if c =? 43 then 32 else c) :: t)
           | None => None
           end
  end.

Definition amp : N := 38.
Definition eq_sign : N := 61.
Definition semicolon : N := 59.

(* Values.Encode *)
Definition encode_pair (kv : str * str) : str := query_escape (fst kv) ++ [eq_sign] ++ query_escape (snd kv).
Definition encode_query (ps : list (str * str)) : str := join [amp] (map encode_pair ps).

(* strings.Cut(s, "=") *)
Fixpoint cut_eq (s : str) : str * str :=
  match s with
  | [] => ([], [])
  | c :: r => if c =? eq_sign then ([], r) else let '(a, b) := cut_eq r in (c :: a, b)
  end.

(* parseQuery: None = an error was recorded (ParseForm returns it and the gate answers 400);
   empty segments are skipped, a segment containing ';' is an error *)
Fixpoint parse_segments (segs : list str) : option (list (str * str)) :=
  match segs with
  | [] => Some []
  | seg :: rest =>
      if existsb (N.eqb semicolon) seg then None
      else if is_nil seg then parse_segments rest
      else let '(k, v) := cut_eq seg in
           match query_unescape k, query_unescape v, parse_segments rest with
           | Some k', Some v', Some t => Some ((k', v') :: t)
           | _, _, _ => None
           end
  end.
Definition parse_query (q : str) : option (list (str * str)) := parse_segments (split_on amp q).

(* What the authenticator's handlers actually see.  In the production chain (cmd/sso-auth/main.go:48-57)
   auth.NewLoggingHandler runs first; its getProxyHost (logging_handler.go:84-95) calls req.ParseForm and
   drops the error.  parseQuery keeps every well-formed pair it met (it "continue"s past a bad one), and a
   second ParseForm is a no-op that returns nil, so validateRedirectURI / validateSignature never see the
   error: their 400-on-ParseForm-error branch is unreachable and the gates work on the pairs that parsed. *)
Fixpoint collect_segments (segs : list str) : list (str * str) :=
  match segs with
  | [] => []
  | seg :: rest =>
      if existsb (N.eqb semicolon) seg then collect_segments rest
      else if is_nil seg then collect_segments rest
      else let '(k, v) := cut_eq seg in
           match query_unescape k, query_unescape v with
           | Some k', Some v' => (k', v') :: collect_segments rest
           | _, _ => collect_segments rest
           end
  end.
Definition form_of_query (q : str) : list (str * str) := collect_segments (split_on amp q).

Definition s_http : str := [104;116;116;112].
Definition s_https : str := [104;116;116;112;115].
Definition k_redirect_uri : str := [114;101;100;105;114;101;99;116;95;117;114;105].
Definition k_sig : str := [115;105;103].
Definition k_ts : str := [116;115].

(* a Location: URL without query, and the query as url.Values.Encode writes it (sorted by key) *)
Record location := { l_base : str; l_params : list (str * str) }.

Fixpoint param (k : str) (ps : list (str * str)) : option str :=
  match ps with [] => None | (a, v) :: r => if str_eqb k a then Some v else param k r end.
(* Form.Get: "" when absent *)
Definition form_get (k : str) (ps : list (str * str)) : str :=
  match param k ps with Some v => v | None => [] end.

(* ------------------------------------------------------------------------------------------ *)
(* provider answers at the IdP's revoke endpoint *)
Inductive provider := PGoogle | POkta.
Inductive idp_body := BNotJSON | BDesc (error_description : str).
Inductive idp_answer := IdpSt (code : Z) (b : idp_body) | IdpReset.    (* HTTP status + body, or transport error *)

Definition google_phrase : str :=   (* "Token expired or revoked" *)
  [84;111;107;101;110;32;101;120;112;105;114;101;100;32;111;114;32;114;101;118;111;107;101;100].
Definition okta_phrase : str :=     (* "token is invalid or expired" *)
  [116;111;107;101;110;32;105;115;32;105;110;118;97;108;105;100;32;111;114;32;101;120;112;105;114;101;100].

(* strings.Contains *)
Fixpoint contains (s sub : str) : bool :=
  has_prefix s sub || match s with [] => false | _ :: s' => contains s' sub end.

(* googleRequest / oktaRequest: 400 + matching error_description -> ErrTokenRevoked *)
Definition already_revoked (p : provider) (b : idp_body) : bool :=
  match b with
  | BNotJSON => false
  | BDesc d => match p with
               | PGoogle => str_eqb d google_phrase
               | POkta => contains (lower_ascii d) okta_phrase   (* strings.ToLower: ASCII descriptions only *)
               end
  end.

(* Provider.Revoke returns nil: status 200, or ErrTokenRevoked mapped to success *)
Definition revoke_ok (p : provider) (a : idp_answer) : bool :=
  match a with
  | IdpReset => false
  | IdpSt c b => if (c =? 200)%Z then true else if (c =? 400)%Z then already_revoked p b else false
  end.

(* the authenticator's own session (sessions.SessionState), fields this property talks about *)
Record asession := { as_email : str; as_access : str; as_refresh : str }.
(* google revokes the access token (GET ?token=), okta the refresh token (POST token=) *)
Definition revoke_token (p : provider) (s : asession) : str :=
  match p with PGoogle => as_access s | POkta => as_refresh s end.

(* LoadSession: http.ErrNoCookie / ErrInvalidSession / a session *)
Inductive acookie := ACNone | ACJunk | ACSealed (s : asession).
Inductive method := MGet | MPost | MOther.

(* one request to the authenticator's /sign_out, fields as req.Form.Get returns them *)
Record areq := {
  q_method : method;
  q_uri : str; q_sig : str; q_ts : str;
  q_parses : bool;          (* oracle: url.Parse(q_uri) succeeds *)
  q_in_domain : bool;       (* oracle: validRedirectURI(q_uri, ProxyRootDomains) *)
  q_cookie : acookie;
  q_idp : idp_answer }.     (* what the IdP answers IF the provider's Revoke is called *)

Inductive abody :=
| BGate (code : Z)                                   (* ErrorResponse: 405 / 400, handler not reached *)
| BRedirect (loc : str)                              (* http.Redirect(rw, req, redirectURI, 302) *)
| BPage (status : Z) (email redirect sig ts : str).  (* sign_out.html; status 500 carries the error message *)

Record aresp := {
  r_body : abody;
  r_clears : bool;            (* a Set-Cookie that clears the authenticator's session cookie *)
  r_revoked : list str }.     (* tokens sent to the IdP's revoke endpoint, in order *)

Section Mac.
Variable mac : str -> str -> str.     (* HMAC-SHA256(key, message) *)

(* signRedirectURL, sso.go:435-440 *)
Definition sign_redirect (secret uri : str) (now : Z) : str :=
  b64_encode (mac secret (uri ++ dec now)).

(* GetSignOutURL, sso.go:421-432 (SignOutURL carries no query of its own) *)
Definition get_sign_out_url (base secret uri : str) (now : Z) : location :=
  {| l_base := base;
     l_params := [(k_redirect_uri, uri); (k_sig, sign_redirect secret uri now); (k_ts, dec now)] |}.

Record presp := {
  p_status : Z;
  p_clears : bool;          (* a Set-Cookie that clears the proxy session cookie ... *)
  p_sets_live : bool;       (* ... and none, before or after it, that carries a (re-sealed) session *)
  p_asks : bool;            (* does the handler consult the authenticator's back channel (it never authenticates) *)
  p_loc : location }.

(* OAuthProxy.SignOut, oauthproxy.go:292-313: ClearSession and the redirect, nothing else — whatever cookie
   the request carries (none, junk, a session whose validation or refresh is due, an expired one) is never
   opened, so no back-channel call is made and no session is re-saved. [origin_form] = (req.URL.Scheme == ""): true for an
   ordinary request line "GET /oauth2/sign_out"; false when the client sent an absolute-form
   target "GET http://host/oauth2/sign_out" — then NO scheme is written (the code sets the scheme
   only when req.URL.Scheme is empty) and the return address is the scheme-relative "//host/". *)
Definition proxy_scheme (secure origin_form : bool) : str :=
  if origin_form then (if secure then s_https else s_http) else [].
Definition proxy_sign_out (base secret : str) (secure origin_form : bool) (host : str) (now : Z) : presp :=
  let uri := url_string (proxy_scheme secure origin_form) host in
  {| p_status := 302%Z; p_clears := true; p_sets_live := false; p_asks := false;
     p_loc := get_sign_out_url base secret uri now |}.

(* validSignature, middleware.go:158-181 *)
Definition sig_ttl : Z := 300%Z.
Definition valid_signature (secret uri sig ts : str) (parses : bool) (now : Z) : bool :=
  if is_nil uri || is_nil sig || is_nil ts || is_nil secret then false
  else if negb parses then false
  else match b64_decode sig with
       | None => false
       | Some request_sig =>
           match parse_int ts with
           | None => false
           | Some t =>
               if (now - t >? sig_ttl)%Z then false      (* time.Now().Sub(tm) > ttl; a future ts passes *)
               else str_eqb request_sig (mac secret (uri ++ dec t))   (* hmac.Equal *)
           end
       end.

(* the route /sign_out and Authenticator.SignOut / SignOutPage *)
Definition auth_sign_out (secret : str) (p : provider) (now : Z) (q : areq) : aresp :=
  let plain b := {| r_body := b; r_clears := false; r_revoked := [] |} in
  match q_method q with
  | MOther => plain (BGate 405%Z)
  | m =>
    if negb (q_in_domain q) then plain (BGate 400%Z)
    else if negb (valid_signature secret (q_uri q) (q_sig q) (q_ts q) (q_parses q) now) then plain (BGate 400%Z)
    else
      match m with
      | MGet =>
          (* SignOutPage(""): any LoadSession error -> redirect, cookie untouched *)
          match q_cookie q with
          | ACSealed s => plain (BPage 200%Z (as_email s) (q_uri q) (q_sig q) (q_ts q))
          | _ => plain (BRedirect (q_uri q))
          end
      | _ =>
          match q_cookie q with
          | ACNone => plain (BRedirect (q_uri q))
          | ACJunk => {| r_body := BRedirect (q_uri q); r_clears := true; r_revoked := [] |}
          | ACSealed s =>
              if revoke_ok p (q_idp q)
              then {| r_body := BRedirect (q_uri q); r_clears := true; r_revoked := [revoke_token p s] |}
              else {| r_body := BPage 500%Z (as_email s) (q_uri q) (q_sig q) (q_ts q);
                      r_clears := false; r_revoked := [revoke_token p s] |}
          end
      end
  end.

(* the browser follows the proxy's redirect: the authenticator request built from a Location *)
Definition follow (l : location) (m : method) (in_domain : bool) (ck : acookie) (idp : idp_answer) : areq :=
  {| q_method := m;
     q_uri := form_get k_redirect_uri (l_params l); q_sig := form_get k_sig (l_params l);
     q_ts := form_get k_ts (l_params l);
     q_parses := true; q_in_domain := in_domain; q_cookie := ck; q_idp := idp |}.

(* ---- histories at the authenticator: arbitrary requests (any method, fields, cookie) under
   arbitrary IdP answers.  [st_revoked] is the IdP's state: the tokens that reached its revoke
   endpoint and were answered revoked / already revoked; [st_cleared] is a ghost log of the sessions
   whose cookie some response cleared. ---- *)
Record aevent := { e_provider : provider; e_now : Z; e_req : areq }.
Record astate := { st_revoked : list str; st_cleared : list (provider * asession) }.

Definition astep (secret : str) (st : astate) (e : aevent) : astate :=
  let r := auth_sign_out secret (e_provider e) (e_now e) (e_req e) in
  {| st_revoked := (if revoke_ok (e_provider e) (q_idp (e_req e)) then r_revoked r else []) ++ st_revoked st;
     st_cleared := match q_cookie (e_req e) with
                   | ACSealed s => if r_clears r then (e_provider e, s) :: st_cleared st else st_cleared st
                   | _ => st_cleared st
                   end |}.
Definition arun (secret : str) (evs : list aevent) : astate :=
  fold_left (astep secret) evs {| st_revoked := []; st_cleared := [] |}.

(* ---- concurrent confirmations: SingleFlightProvider.Revoke, singleflight_middleware.go:138-145 and
   internal/pkg/singleflight/singleflight.go:49-76.  The provider the authenticator calls is wrapped:
   Revoke runs under single.Do of "Revoke/" ++ Sprintf(%q:%q, s.AccessToken, s.RefreshToken):
   while a call for a key is in flight, every other caller with the SAME key makes no call of its own,
   waits, and receives the leader's error value.  The key names BOTH tokens of the session (repaired
   in 7e98525; before, it was the access token alone although Okta revokes the refresh token — C19-K1).
   Each critical section of Group.Do is one atomic event: [CReq] = a request reaches the provider layer
   (becomes leader of a new flight and calls the IdP, or joins the flight of its key), [CDone k] = the
   flight of key k completes and is removed from the map.  The leader's result is fixed by the IdP's
   answer to its call, so it is recorded when the flight is opened. ---- *)
(* fmt %q = strconv.Quote: the double quote (34) and the backslash (92) are backslash-escaped, printable
   ASCII is written as is, every other byte as backslash x NN (lower-case hex).  Exact for printable-ASCII
   tokens (what IdPs issue and the driver uses); for other bytes the model's hex escape stands in for Go's
   escape of that byte or rune (named escapes, backslash-u forms) - all that matters is that equal keys
   mean equal token pairs (flight_key_inj). *)
Definition hex_lower (v : N) : N := if v <? 10 then 48 + v else 87 + v.
Definition quote_byte (c : N) : str :=
  if c =? 34 then [92; 34]
  else if c =? 92 then [92; 92]
  else if (32 <=? c) && (c <? 127) then [c]
  else [92; 120; hex_lower (c / 16); hex_lower (c mod 16)].
Definition quote_body (s : str) : str := flat_map quote_byte s.
Definition quote (s : str) : str := 34 :: quote_body s ++ [34].

Definition flight_key (s : asession) : str := quote (as_access s) ++ [58] ++ quote (as_refresh s).

Record flight := { fl_key : str; fl_token : str; fl_ok : bool }.
Fixpoint find_flight (k : str) (fl : list flight) : option flight :=
  match fl with [] => None | f :: r => if str_eqb k (fl_key f) then Some f else find_flight k r end.
Fixpoint drop_flight (k : str) (fl : list flight) : list flight :=
  match fl with [] => [] | f :: r => if str_eqb k (fl_key f) then r else f :: drop_flight k r end.

(* Authenticator.SignOut with the provider's Revoke abstracted: [rv s] = (Revoke returned nil, tokens sent) *)
Definition auth_sign_out_gen (secret : str) (now : Z) (q : areq) (rv : asession -> bool * list str) : aresp :=
  let plain b := {| r_body := b; r_clears := false; r_revoked := [] |} in
  match q_method q with
  | MOther => plain (BGate 405%Z)
  | m =>
    if negb (q_in_domain q) then plain (BGate 400%Z)
    else if negb (valid_signature secret (q_uri q) (q_sig q) (q_ts q) (q_parses q) now) then plain (BGate 400%Z)
    else
      match m with
      | MGet =>
          match q_cookie q with
          | ACSealed s => plain (BPage 200%Z (as_email s) (q_uri q) (q_sig q) (q_ts q))
          | _ => plain (BRedirect (q_uri q))
          end
      | _ =>
          match q_cookie q with
          | ACNone => plain (BRedirect (q_uri q))
          | ACJunk => {| r_body := BRedirect (q_uri q); r_clears := true; r_revoked := [] |}
          | ACSealed s =>
              let '(ok, sent) := rv s in
              if ok then {| r_body := BRedirect (q_uri q); r_clears := true; r_revoked := sent |}
              else {| r_body := BPage 500%Z (as_email s) (q_uri q) (q_sig q) (q_ts q); r_clears := false; r_revoked := sent |}
          end
      end
  end.

(* does this request reach provider.Revoke at all, and with which session *)
Definition reaches_revoke (secret : str) (now : Z) (q : areq) : option asession :=
  match q_method q, q_cookie q with
  | MPost, ACSealed s =>
      if q_in_domain q && valid_signature secret (q_uri q) (q_sig q) (q_ts q) (q_parses q) now then Some s else None
  | _, _ => None
  end.

Record cstate := {
  cs_flights : list flight;        (* singleflight map: calls in flight *)
  cs_revoked : list str;           (* IdP: tokens whose revoke call was answered revoked / already revoked *)
  cs_cleared : list asession }.    (* ghost: sessions whose cookie a response cleared *)

Inductive cevent := CReq (now : Z) (q : areq) | CDone (key : str).

Definition cstep (secret : str) (p : provider) (st : cstate) (e : cevent) : cstate * option aresp :=
  match e with
  | CDone k => ({| cs_flights := drop_flight k (cs_flights st); cs_revoked := cs_revoked st; cs_cleared := cs_cleared st |}, None)
  | CReq now q =>
      match reaches_revoke secret now q with
      | None => (st, Some (auth_sign_out_gen secret now q (fun _ => (false, []))))
      | Some s =>
          match find_flight (flight_key s) (cs_flights st) with
          | Some f =>          (* joins the flight: no call of its own, the leader's result *)
              let r := auth_sign_out_gen secret now q (fun _ => (fl_ok f, [])) in
              ({| cs_flights := cs_flights st; cs_revoked := cs_revoked st;
                  cs_cleared := if r_clears r then s :: cs_cleared st else cs_cleared st |}, Some r)
          | None =>            (* leader: calls the IdP with the provider's token for this session *)
              let ok := revoke_ok p (q_idp q) in
              let tok := revoke_token p s in
              let r := auth_sign_out_gen secret now q (fun _ => (ok, [tok])) in
              ({| cs_flights := {| fl_key := flight_key s; fl_token := tok; fl_ok := ok |} :: cs_flights st;
                  cs_revoked := if ok then tok :: cs_revoked st else cs_revoked st;
                  cs_cleared := if r_clears r then s :: cs_cleared st else cs_cleared st |}, Some r)
          end
      end
  end.

Fixpoint crun_from (secret : str) (p : provider) (st : cstate) (evs : list cevent) : cstate * list aresp :=
  match evs with
  | [] => (st, [])
  | e :: rest =>
      let '(st1, o) := cstep secret p st e in
      let '(st2, rs) := crun_from secret p st1 rest in
      (st2, match o with Some r => r :: rs | None => rs end)
  end.
Definition cinit : cstate := {| cs_flights := []; cs_revoked := []; cs_cleared := [] |}.
Definition crun (secret : str) (p : provider) (evs : list cevent) : cstate * list aresp := crun_from secret p cinit evs.

End Mac.
