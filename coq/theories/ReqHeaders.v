(* ReqHeaders.v — C03: what an upstream receives as identity headers and cookies.

   Executable model, function for function, of
     internal/proxy/oauthproxy.go:538-609   Proxy (whitelist branch vs Authenticate)
     internal/proxy/oauthproxy.go:738-749   tail of Authenticate (inject + identity headers)
     internal/proxy/reverse_proxy.go:191-196,232-248   deleteCookieHandler / deleteCookie
   and of the library behaviour the property depends on (toolchain go1.23.5):
     net/textproto CanonicalMIMEHeaderKey, TrimString        (reader.go:647-666,742-789; textproto.go:124-147)
     net/http      readCookies, parseCookieValue, isCookieNameValid, Cookie.String,
                   sanitizeCookieValue, validCookieValueByte    (cookie.go:227-291,333-366,460-535)
     net/http/httputil ReverseProxy.ServeHTTP: removeHopByHopHeaders  (reverseproxy.go:294-304,577-592)

   A header map is a list of (canonical key, value) pairs in arrival order; [h_get k] is Go's
   [h[k]] (values in order, [] when the key is absent).

   [scrub] is a model parameter for the proposed repair (delete the four identity headers at the
   top of Proxy): [scrub_today] = false is the code that exists.

   Configuration note: parseOptionsConfig (proxy_config.go:372-420) never copies
   pass_access_token / skip_auth_preflight from the YAML document, so through configuration both
   are always false today; they remain parameters of the model (the driver sets the fields on the
   resolved UpstreamConfig through a shim to exercise both values).

   No proofs in this file. *)
From V Require Import Base.

(* ------------------------------------------------------------------------------------------ *)
(* bytes *)

(* textproto.isASCIISpace *)
Definition is_space (c : N) : bool := N.eqb c 32 || N.eqb c 9 || N.eqb c 10 || N.eqb c 13.

(* textproto.validHeaderFieldByte = httpguts.IsTokenRune restricted to bytes: RFC 7230 tchar *)
Definition token_punct : list N := [33;35;36;37;38;39;42;43;45;46;94;95;96;124;126].
Definition is_token_byte (c : N) : bool :=
  ((48 <=? c) && (c <=? 57)) || ((65 <=? c) && (c <=? 90)) || ((97 <=? c) && (c <=? 122)) ||
  existsb (N.eqb c) token_punct.

(* http.validCookieValueByte: 0x20 <= b < 0x7f, not DQUOTE (34), ';' (59), backslash (92) *)
Definition valid_value_byte (c : N) : bool :=
  (32 <=? c) && (c <? 127) && negb (N.eqb c 34) && negb (N.eqb c 59) && negb (N.eqb c 92).

(* textproto.TrimString *)
Fixpoint trim_left (s : str) : str :=
  match s with
  | [] => []
  | c :: s' => if is_space c then trim_left s' else s
  end.
Definition trim (s : str) : str := rev (trim_left (rev (trim_left s))).

(* strings.Cut on a single byte: (before, after); after = [] when the separator is absent *)
Fixpoint cut (sep : N) (s : str) : str * str :=
  match s with
  | [] => ([], [])
  | c :: s' => if N.eqb c sep then ([], s') else let '(a, b) := cut sep s' in (c :: a, b)
  end.

(* ------------------------------------------------------------------------------------------ *)
(* header keys *)

Definition upper_byte (c : N) : N := if (97 <=? c) && (c <=? 122) then c - 32 else c.

(* textproto.canonicalMIMEHeaderKey's loop: upper-case the first letter and every letter after a
   '-', lower-case the others *)
Fixpoint canon_go (upper : bool) (s : str) : str :=
  match s with
  | [] => []
  | c :: s' =>
      let c' := if upper then upper_byte c else lower_byte c in
      c' :: canon_go (N.eqb c' 45) s'
  end.

(* textproto.CanonicalMIMEHeaderKey: a key with a byte outside tchar is returned unchanged *)
Definition canon_key (s : str) : str := if forallb is_token_byte s then canon_go true s else s.

Definition k_xfu : str := [88;45;70;111;114;119;97;114;100;101;100;45;85;115;101;114].             (* X-Forwarded-User *)
Definition k_xfe : str := [88;45;70;111;114;119;97;114;100;101;100;45;69;109;97;105;108].          (* X-Forwarded-Email *)
Definition k_xfg : str := [88;45;70;111;114;119;97;114;100;101;100;45;71;114;111;117;112;115].     (* X-Forwarded-Groups *)
Definition k_xfat : str :=
  [88;45;70;111;114;119;97;114;100;101;100;45;65;99;99;101;115;115;45;84;111;107;101;110].          (* X-Forwarded-Access-Token *)
Definition k_cookie : str := [67;111;111;107;105;101].                                              (* Cookie *)
Definition k_connection : str := [67;111;110;110;101;99;116;105;111;110].                           (* Connection *)

Definition identity_keys : list str := [k_xfu; k_xfe; k_xfg; k_xfat].

(* httputil.hopHeaders *)
Definition hop_headers : list str :=
  [ k_connection;
    [80;114;111;120;121;45;67;111;110;110;101;99;116;105;111;110];               (* Proxy-Connection *)
    [75;101;101;112;45;65;108;105;118;101];                                     (* Keep-Alive *)
    [80;114;111;120;121;45;65;117;116;104;101;110;116;105;99;97;116;101];       (* Proxy-Authenticate *)
    [80;114;111;120;121;45;65;117;116;104;111;114;105;122;97;116;105;111;110];  (* Proxy-Authorization *)
    [84;101];                                                                   (* Te *)
    [84;114;97;105;108;101;114];                                                (* Trailer *)
    [84;114;97;110;115;102;101;114;45;69;110;99;111;100;105;110;103];           (* Transfer-Encoding *)
    [85;112;103;114;97;100;101] ].                                              (* Upgrade *)

(* ------------------------------------------------------------------------------------------ *)
(* http.Header *)

Definition headers := list (str * str).

Definition h_get (k : str) (h : headers) : list str :=
  map snd (filter (fun e => str_eqb (fst e) k) h).
(* Header.Del with an already canonical key *)
Definition h_del (k : str) (h : headers) : headers :=
  filter (fun e => negb (str_eqb (fst e) k)) h.
(* Header.Set with an already canonical key: replace all values by the single value v *)
Definition h_set (k v : str) (h : headers) : headers := h_del k h ++ [(k, v)].
(* Header.Set / Header.Del canonicalise their key argument *)
Definition hdr_set (k v : str) (h : headers) : headers := h_set (canon_key k) v h.
Definition hdr_del (k : str) (h : headers) : headers := h_del (canon_key k) h.

(* the header lines of the client's request as net/http's server hands them to a handler:
   keys canonicalised (textproto.ReadMIMEHeader), values appended in arrival order.
   (The server answers 400 to a field name that is not a token and to a value with a control
   byte other than TAB; it trims optional white space around values. The driver only sends
   requests the server accepts.) *)
Definition mk_headers (client : list (str * str)) : headers :=
  map (fun e => (canon_key (fst e), snd e)) client.

(* ------------------------------------------------------------------------------------------ *)
(* configuration, session, the two ways a request reaches the upstream *)

Record config := {
  cookie_name : str;                 (* UpstreamConfig.CookieName *)
  pass_access_token : bool;          (* UpstreamConfig.PassAccessToken *)
  inject : list (str * str)          (* UpstreamConfig.InjectRequestHeaders (a Go map: the driver
                                        keeps canonical keys distinct, so order is immaterial) *)
}.

Record session := {
  s_user : str; s_email : str; s_groups : list str; s_token : str
}.

(* How [pass_access_token] of the resolved configuration comes about (options.go SetUpstreamConfigs,
   proxy_config.go parseOptionsConfig:372-420): the deployment-wide defaults and the upstream's own
   `options` are merged into dst, but dst.PassAccessToken (like dst.SkipAuthPreflight) is never
   copied onto the resolved UpstreamConfig: whatever the documents say, the resolved flag is off.
   [upstream_option]: what the operator wrote for this upstream (None = option not mentioned).
   The property's reading: an upstream that writes `false` must never receive the token, whatever
   the deployment default is; the driver boots one world through the real configuration path with
   every boolean deployment default on and every boolean upstream option explicitly false. *)
Definition resolve_pass_access_token (deployment_default : bool) (upstream_option : option bool) : bool := false.

(* which branch of Proxy (oauthproxy.go:546-551) the request took and, when Authenticate
   returned nil, the session it loaded. Whether a request is whitelisted (skip_auth_regex match,
   or OPTIONS under skip_auth_preflight) is regexp behaviour: an oracle carried by the case. *)
Inductive mode :=
| Authenticated (s : session)
| SkipAuth.

Definition is_nil {A} (l : list A) : bool := match l with [] => true | _ => false end.

(* oauthproxy.go:738-749 *)
Definition authenticate_headers (cfg : config) (s : session) (h : headers) : headers :=
  let h1 := fold_left (fun h e => hdr_set (fst e) (snd e) h) (inject cfg) h in
  let h2 := h_set k_xfu (s_user s) h1 in
  let h3 := if pass_access_token cfg && negb (is_nil (s_token s))
            then h_set k_xfat (s_token s) h2 else h2 in
  let h4 := h_set k_xfe (s_email s) h3 in
  h_set k_xfg (join [44] (s_groups s)) h4.

(* the proposed repair: req.Header.Del of the four identity headers at the top of Proxy *)
Definition scrub_identity (h : headers) : headers :=
  fold_left (fun h k => h_del k h) identity_keys h.

(* oauthproxy.go:538-608, successful outcomes only: the header map handed to p.handler *)
Definition proxy_headers (scrub : bool) (cfg : config) (m : mode) (h : headers) : headers :=
  let h0 := if scrub then scrub_identity h else h in
  match m with
  | SkipAuth => h0
  | Authenticated s => authenticate_headers cfg s h0
  end.

(* ------------------------------------------------------------------------------------------ *)
(* cookies: Request.Cookies() and Cookie.String() on the byte level *)

Record cookie := { c_name : str; c_value : str; c_quoted : bool }.

(* http.isCookieNameValid *)
Definition cookie_name_valid (n : str) : bool := negb (is_nil n) && forallb is_token_byte n.

(* http.parseCookieValue raw true: strip one pair of surrounding double quotes when
   len(raw) > 1, then every byte must be a valid cookie-value byte *)
Definition strip_quotes (raw : str) : str * bool :=
  match raw with
  | c :: r =>
      if N.eqb c 34 then
        match rev r with
        | d :: m => if N.eqb d 34 then (rev m, true) else (raw, false)
        | [] => (raw, false)
        end
      else (raw, false)
  | [] => (raw, false)
  end.

Definition parse_cookie_value (raw : str) : option (str * bool) :=
  let '(v, q) := strip_quotes raw in
  if forallb valid_value_byte v then Some (v, q) else None.

(* one ';'-separated part of a Cookie line (cookie.go:345-363, empty filter) *)
Definition parse_part (part : str) : option cookie :=
  let part := trim part in
  if is_nil part then None
  else
    let '(name, val) := cut 61 part in
    let name := trim name in
    if negb (cookie_name_valid name) then None
    else match parse_cookie_value val with
         | None => None
         | Some (v, q) => Some {| c_name := name; c_value := v; c_quoted := q |}
         end.

Definition opt_list {A} (o : option A) : list A := match o with Some x => [x] | None => [] end.

(* the loop [for len(line) > 0 { part, line, _ = strings.Cut(line, ';') ... }] visits the
   ';'-separated parts of the trimmed line; empty parts are skipped by [parse_part] *)
Definition read_cookie_line (line : str) : list cookie :=
  flat_map (fun p => opt_list (parse_part p)) (split_on 59 (trim line)).

(* http.readCookies h with the empty filter *)
Definition read_cookies (lines : list str) : list cookie := flat_map read_cookie_line lines.

(* http.sanitizeCookieValue: drop invalid bytes; empty stays empty; quote when the value has a
   space or a comma or was quoted on arrival *)
Definition sanitize_cookie_value (v : str) (quoted : bool) : str :=
  let v := filter valid_value_byte v in
  if is_nil v then []
  else if existsb (fun c => N.eqb c 32 || N.eqb c 44) v || quoted then 34 :: v ++ [34]
  else v.

(* Cookie.String for a cookie with only Name/Value/Quoted set *)
Definition cookie_string (c : cookie) : str :=
  if cookie_name_valid (c_name c) then c_name c ++ 61 :: sanitize_cookie_value (c_value c) (c_quoted c)
  else [].

(* reverse_proxy.go:232-248 *)
Definition delete_cookie (cn : str) (h : headers) : headers :=
  let keep := filter (fun c => negb (str_eqb (c_name c) cn)) (read_cookies (h_get k_cookie h)) in
  match map cookie_string keep with
  | [] => h_del k_cookie h
  | l => h_set k_cookie (join [59] l) h
  end.

(* ------------------------------------------------------------------------------------------ *)
(* httputil.ReverseProxy: hop-by-hop removal on the outgoing copy.
   (The Director's additions — X-Forwarded-Host, User-Agent — and X-Forwarded-For / Te handling
   touch none of the projected headers and are not modelled.) *)

Definition connection_named (h : headers) : list str :=
  flat_map (fun f => filter (fun t => negb (is_nil t)) (map trim (split_on 44 f))) (h_get k_connection h).

Definition remove_hop_by_hop (h : headers) : headers :=
  let h1 := fold_left (fun h sf => hdr_del sf h) (connection_named h) h in
  fold_left (fun h k => h_del k h) hop_headers h1.

(* ------------------------------------------------------------------------------------------ *)
(* the chain: server -> Proxy -> deleteCookieHandler -> [signing: adds only signature headers]
   -> [TimeoutHandler] -> ReverseProxy -> transport *)

Definition to_reverse_proxy (scrub : bool) (cfg : config) (m : mode) (client : list (str * str)) : headers :=
  delete_cookie (cookie_name cfg) (proxy_headers scrub cfg m (mk_headers client)).

Definition upstream (scrub : bool) (cfg : config) (m : mode) (client : list (str * str)) : headers :=
  remove_hop_by_hop (to_reverse_proxy scrub cfg m client).

(* Routes of OAuthProxy.Handler() (oauthproxy.go:148-170) that can end in the reverse proxy:
   mux.PathPrefix("/") -> Proxy, and "/favicon.ico" -> Favicon (oauthproxy.go:223-230) =
   Authenticate (404 unless it returns nil) THEN Proxy, which scrubs, consults the whitelist and
   authenticates again (cf. coq/theories/ProxyCore.v [handle], EFavicon). The other routes
   (/robots.txt, /oauth2/v1/certs, /oauth2/sign_out, /oauth2/callback, /oauth2/auth, and /ping in
   front of the host router) never call p.handler. *)
Inductive route :=
| RProxy
| RFavicon (first : session).       (* the session Favicon's own Authenticate asserted *)

(* what the route did to the header map before Proxy starts *)
Definition route_pre (cfg : config) (r : route) (h : headers) : headers :=
  match r with
  | RProxy => h
  | RFavicon s1 => authenticate_headers cfg s1 h
  end.

Definition to_reverse_proxy_r (scrub : bool) (cfg : config) (r : route) (m : mode) (client : list (str * str)) : headers :=
  delete_cookie (cookie_name cfg) (proxy_headers scrub cfg m (route_pre cfg r (mk_headers client))).

Definition upstream_r (scrub : bool) (cfg : config) (r : route) (m : mode) (client : list (str * str)) : headers :=
  remove_hop_by_hop (to_reverse_proxy_r scrub cfg r m client).

(* the code that exists today has no scrubbing step. (Used by the examples only: the correspondence
   takes the flag from a probe of the tree under test, Corr_C03.case.) *)
Definition scrub_today : bool := false.

(* the values a session asserts *)
Definition want_user (s : session) : list str := [s_user s].
Definition want_email (s : session) : list str := [s_email s].
Definition want_groups (s : session) : list str := [join [44] (s_groups s)].
Definition token_enabled (cfg : config) (s : session) : bool :=
  pass_access_token cfg && negb (is_nil (s_token s)).

Definition name_value (c : cookie) : str * str := (c_name c, c_value c).

(* ------------------------------------------------------------------------------------------ *)
(* which session Authenticate asserts when a refresh or a revalidation is due
   (oauthproxy.go:660-714 with providers/sso.go RefreshSession 242-286, ValidateSessionState 336-401,
   ValidateGroup 168-193; successful outcomes only — failures never reach the upstream and are
   C01/C04's subject; restated here after coq/theories/ProxyCore.v refresh_session /
   validate_session / authenticate.ao_session, keeping only the four fields C03 projects).
   The provider mutates the session in place, Authenticate re-saves THAT session in the cookie and
   then builds the identity headers from THAT session. *)
Inductive due :=
| NotDue                                                        (* no deadline passed: nothing re-saved *)
| RefreshDue (new_token : str) (profile_groups : list str)      (* RefreshDeadline passed; /refresh 201, /profile 200 *)
| ValidateDue (profile_groups : list str)                       (* ValidDeadline passed; /validate 200, /profile 200 *)
| GraceFallback                                                 (* provider unavailable within the grace period:
                                                                   only a deadline moves, session re-saved *)
(* Two requests of ONE session overlap while a check is due: SingleFlightProvider
   (providers/singleflight_middleware.go RefreshSession / ValidateSessionState) coalesces them on the
   refresh token / access token. The closure runs for the request that LEADS the flight and mutates
   only that request's session object; a request that JOINS the flight gets the boolean result and keeps
   its own, unchanged (stale) session, which Authenticate then re-saves and asserts (DESIGN.md §7 D7 —
   C16's finding; C03 only needs the values to be consistent and vouched for). *)
| JoinedRefresh (new_token : str) (profile_groups : list str)
| JoinedValidate (profile_groups : list str).

(* ValidateGroup: no lookup when no groups are configured or the lone "*" *)
Definition no_group_check (allowed : list str) : bool :=
  match allowed with [] => true | [x] => str_eqb x [42] | _ => false end.
Definition matched_groups (allowed ug : list str) : list str :=
  if no_group_check allowed then [] else flat_map (fun u => filter (str_eqb u) allowed) ug.
(* the provider refuses (membership revoked) when a lookup was made and nothing matched *)
Definition due_succeeds (allowed : list str) (d : due) : bool :=
  match d with
  | RefreshDue _ ug | ValidateDue ug | JoinedRefresh _ ug | JoinedValidate ug =>
      no_group_check allowed || negb (is_nil (matched_groups allowed ug))
  | _ => true
  end.

Definition set_groups (s : session) (g : list str) : session :=
  {| s_user := s_user s; s_email := s_email s; s_groups := g; s_token := s_token s |}.
Definition set_token (s : session) (t : str) : session :=
  {| s_user := s_user s; s_email := s_email s; s_groups := s_groups s; s_token := t |}.

Definition asserted_session (allowed : list str) (s : session) (d : due) : session :=
  match d with
  | NotDue | GraceFallback | JoinedRefresh _ _ | JoinedValidate _ => s
  | RefreshDue tok ug => set_token (set_groups s (matched_groups allowed ug)) tok
  | ValidateDue ug => set_groups s (matched_groups allowed ug)
  end.

(* the session the authenticator's answers of this exchange vouch for *)
Definition fresh_session (allowed : list str) (s : session) (d : due) : session :=
  match d with
  | RefreshDue tok ug | JoinedRefresh tok ug => set_token (set_groups s (matched_groups allowed ug)) tok
  | ValidateDue ug | JoinedValidate ug => set_groups s (matched_groups allowed ug)
  | NotDue | GraceFallback => s
  end.

(* SaveSession: what the Set-Cookie of this response carries *)
Definition resaved_session (allowed : list str) (s : session) (d : due) : option session :=
  match d with NotDue => None | _ => Some (asserted_session allowed s d) end.

(* ------------------------------------------------------------------------------------------ *)
(* vocabulary of the property statements (used by the theorems and by the monitor) *)

(* the client put a header with this canonical name on the wire *)
Definition client_sent (client : list (str * str)) (k : str) : bool :=
  existsb (fun e => str_eqb (canon_key (fst e)) k) client.

(* the client's own Connection header lines name this header (RFC 7230 hop-by-hop request) *)
Definition client_conn_names (client : list (str * str)) (k : str) : bool :=
  mem_str k (map canon_key (connection_named (mk_headers client))).

(* the value the operator's inject_request_headers leave under a key (last one wins) *)
Definition last_injected (k : str) (inj : list (str * str)) : option str :=
  match rev (filter (fun e => str_eqb (canon_key (fst e)) k) inj) with
  | e :: _ => Some (snd e)
  | [] => None
  end.

(* X-Forwarded-Access-Token the upstream may see: the session's when enabled, else only what the
   operator injects, never a client-chosen value *)
Definition allowed_token (cfg : config) (s : session) : list str :=
  if token_enabled cfg s then [s_token s]
  else match last_injected k_xfat (inject cfg) with Some v => [v] | None => [] end.

(* the cookies the upstream must see: every well-formed pair of the client's Cookie lines whose
   name is not the session cookie's, in order (well-formed = accepted by net/http's parser) *)
Definition want_cookies (cn : str) (client : list (str * str)) : list (str * str) :=
  filter (fun nv => negb (str_eqb (fst nv) cn))
         (map name_value (read_cookies (h_get k_cookie (mk_headers client)))).
