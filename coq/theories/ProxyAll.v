(* ProxyAll.v — the INTEGRATION model of sso-proxy: one executable function for the whole request path,

     serve : deployment -> request -> answers -> time -> outcome

   composed from the per-property models through small adapters (no re-modelling of what they own):

     Hostmux.v      host routing, backend target, outgoing Host            (C13)   proxy.go:30-95, hostmux.go:86-111
     ProxyCore.v    IsWhitelistedRequest / Authenticate / Proxy / Favicon / AuthenticateOnly,
                    RefreshSession / ValidateSessionState                   (C01/C04/C05)  oauthproxy.go:223-230,547-784
     Validators.v   login gate, per-request gate                           (C11)
     ReqHeaders.v   identity headers, operator-injected headers, net/http cookie parsing,
                    deleteCookie                                            (C03)   oauthproxy.go:566-571,766-780; reverse_proxy.go:197-254
     Signer.v       HMAC + RSA signing, Director, ReverseProxy edits (hop-by-hop, X-Forwarded-For),
                    transport                                               (C12)   reverse_proxy.go:73-132,142-166,205-217; request_signer.go
     RespHeaders.v  setSecurityHeaders > overrides > requireHTTPS > router outcome > ReverseProxy /
                    TimeoutHandler merge, cookies                           (C18)   oauthproxy.go:148-170; middleware.go; reverse_proxy.go:88-121
     Callback.v     OAuthCallback                                           (C06)   oauthproxy.go:400-544
     ReqUri.v       gorilla/mux cleanPath                                   (C06)
   and the code that belongs to none of them:
     middleware.go:56-64          setHealthCheck("/ping")
     oauthproxy.go:148-158        gorilla routes in registration order
     logging_handler.go:35-66     the logging wrapper of cmd/sso-proxy/main.go:63-67 removes the
                                  SSO-Authenticated-User header before the response is written
     providers/sso.go:102-163     Redeem (session minted by a callback)

   Tables (securityHeaders, HSTS pair, ModifyResponse deletions, signedHeaders, SignatureHeaders) are the
   GENERATED ones (gen/Gen_Headers.v, gen/Gen_Signer.v).

   Oracles (explicit function arguments, never axioms):
     re_match / re_replace   Go's regexp (host routing patterns, skip_auth_regex, rewrite templates)
     lower                   strings.ToLower
     opens                   which cookie VALUE opens under the proxy's cookie secret to which session
                             (symbolic AEAD: C02 owns the byte level)
   Request parsing by net/http (request line, Host, header lines, ParseForm for the callback, and what the
   state / CSRF strings of a callback denote, cb_* fields) is an input, as in the composed models.

   What is deliberately fixed: pass_access_token = false and skip_auth_preflight = false (parseOptionsConfig
   never copies either option, proxy_config.go:406-418); upstream `to` is a bare authority (no path, no query);
   req.URL.Scheme = "" (origin-form request line); EscapedPath = Path.
   No proofs in this file. *)
From V Require Import Base Validators.
From V Require ProxyCore Hostmux ReqHeaders Signer RespHeaders Callback ReqUri Gen_Signer Gen_Headers.
Require Coq.Strings.String.
Import Coq.Strings.String.StringSyntax.

Definition bs := RespHeaders.bs.
Arguments bs s%string_scope.

(* ------------------------------------------------------------------------------------------ *)
(* constants *)
Definition p_favicon : str := bs "/favicon.ico".
Definition p_robots : str := bs "/robots.txt".
Definition p_certs : str := bs "/oauth2/v1/certs".
Definition p_sign_out : str := bs "/oauth2/sign_out".
Definition p_callback : str := bs "/oauth2/callback".
Definition p_auth : str := bs "/oauth2/auth".
Definition k_xrw : str := bs "X-Requested-With".
Definition v_xhr : str := bs "XMLHttpRequest".
Definition k_xfp : str := bs "X-Forwarded-Proto".
Definition m_get : str := bs "GET".
Definition m_head : str := bs "HEAD".
Definition m_options : str := bs "OPTIONS".
Definition s_sign_in : str := bs "/sign_in".
Definition s_sign_out : str := bs "/sign_out".

(* ------------------------------------------------------------------------------------------ *)
(* the deployment: resolved upstream configurations (after SetUpstreamConfigs; C14 owns YAML -> this) *)
Record iupstream := {
  up_hm : Hostmux.upstream;           (* route, allow lists, provider_slug, skip_auth_regex, preserve_host *)
  up_overrides : list (str * str);    (* header_overrides *)
  up_inject : list (str * str);       (* inject_request_headers *)
  up_replace : bool;                  (* http.TimeoutHandler wraps ReverseProxy: flush_interval = 0 && timeout != 0 *)
  up_hmac : option str;               (* SSO_CONFIG_<SERVICE>_SIGNING_KEY secret *)
  up_skip_sign : bool                 (* skip_request_signing *)
}.

Record deployment := {
  dp_ups : list iupstream;            (* in the order proxy.New registers them *)
  dp_slug : str;                      (* DefaultConfig.ProviderSlug *)
  dp_L : Z; dp_V : Z; dp_G : Z;       (* session lifetime / valid / grace TTLs, seconds *)
  dp_secure : bool;                   (* cookie_secure: Secure flag AND requireHTTPS in the chain *)
  dp_httponly : bool;
  dp_cookie_name : str;
  dp_cookie_domain : str;
  dp_signer : option N;               (* REQUESTSIGNER_KEY: name of the private key; None = not configured *)
  dp_auth_base : str                  (* provider URL as the browser sees it *)
}.

(* ------------------------------------------------------------------------------------------ *)
(* one request as net/http's server hands it to the handler *)
Record request := {
  rq_host : str;                      (* req.Host *)
  rq_method : str;
  rq_path : str;                      (* req.URL.Path *)
  rq_rawquery : str;
  rq_client : list (str * str);       (* header lines in wire order (without Host) *)
  rq_body : str;
  rq_chunked : bool;
  rq_ip : str;                        (* client address (X-Forwarded-For) *)
  (* the callback's view of the request (ParseForm; what state / CSRF cookie strings denote) *)
  cb_form_ok : bool; cb_error : str; cb_code : str;
  cb_state : Callback.wire; cb_csrf : option Callback.wire
}.

(* what the world answers during this request *)
Record answers := {
  an_auth : ProxyCore.answers;                     (* /refresh, /validate, /profile of the authenticator *)
  an_redeem : ProxyCore.http_ans;                  (* /redeem: status (200 = ok) *)
  an_redeem_body : option (str * str * str * Z);   (* email, access_token, refresh_token, expires_in; None = not JSON *)
  an_backend : RespHeaders.upstream                (* the backend's response when it is reached *)
}.

(* ------------------------------------------------------------------------------------------ *)
(* outcome *)
Inductive call := CRedeem | CRefresh | CValidate | CProfile.
Definition call_of (e : ProxyCore.endpoint) : call :=
  match e with ProxyCore.EpRefresh => CRefresh | ProxyCore.EpValidate => CValidate | ProxyCore.EpProfile => CProfile end.

Inductive loc_kind :=
| LkNone
| LkHttps                 (* requireHTTPS: https://host/path?query — the exact bytes are in the header map *)
| LkSignIn (slug : str)   (* <provider>/<slug>/sign_in?... *)
| LkSignOut (slug : str)  (* <provider>/<slug>/sign_out?... *)
| LkBack (uri : str)      (* callback: the URI recorded when the flow started *)
| LkClean.                (* gorilla/mux clean-path redirect *)

Record backend_view := {
  bk_target : str;                    (* authority the reverse proxy dials *)
  bk_host : str;                      (* Host header of the outgoing request *)
  bk_handler : ReqHeaders.headers;    (* header map handed to the upstream handler chain by OAuthProxy.Proxy,
                                         after deleteCookie (= at signing time) *)
  bk_req : Signer.request             (* the request as the backend receives it *)
}.

Record outcome := {
  oc_upstream : option iupstream;     (* the upstream whose handler chain served the request *)
  oc_backend : option backend_view;   (* None = no backend is contacted *)
  oc_client : RespHeaders.result;     (* status and header map the client receives *)
  oc_loc : loc_kind;
  oc_session : ProxyCore.cookie_effect;  (* effect on the session cookie *)
  oc_calls : list call                (* back-channel calls, in order *)
}.

(* ------------------------------------------------------------------------------------------ *)
(* adapter: ReqHeaders' header map (pairs in arrival order) -> Signer's (key -> value list) *)
Fixpoint dedup (l : list str) : list str :=
  match l with
  | [] => []
  | k :: l' => k :: filter (fun k' => negb (str_eqb k' k)) (dedup l')
  end.
Definition to_signer_headers (h : ReqHeaders.headers) : Signer.headers :=
  map (fun k => (k, ReqHeaders.h_get k h)) (dedup (map fst h)).

(* Header.Get with an already canonical key *)
Definition first_value (k : str) (h : ReqHeaders.headers) : str :=
  match ReqHeaders.h_get k h with v :: _ => v | [] => [] end.

(* adapter: ProxyCore's session -> the four fields ReqHeaders projects *)
Definition rh_session (s : ProxyCore.session) : ReqHeaders.session :=
  {| ReqHeaders.s_user := ProxyCore.s_user s; ReqHeaders.s_email := ProxyCore.s_email s;
     ReqHeaders.s_groups := ProxyCore.s_groups s; ReqHeaders.s_token := ProxyCore.s_access s |}.
Definition rh_mode (id : option ProxyCore.session) : ReqHeaders.mode :=
  match id with Some s => ReqHeaders.Authenticated (rh_session s) | None => ReqHeaders.SkipAuth end.

(* adapter: ProxyCore's cookie effect -> the Set-Cookie operation RespHeaders knows *)
Definition eff_ops (e : ProxyCore.cookie_effect) : list RespHeaders.cookie_op :=
  match e with
  | ProxyCore.CNone => []
  | ProxyCore.CCleared => [RespHeaders.CkSession true]
  | ProxyCore.CSaved _ => [RespHeaders.CkSession false]
  end.

(* logging_handler.go:35-41: authInfo := Header().Get(loggingUserHeader); if non-empty, Del *)
Definition logging_strip (r : RespHeaders.result) : RespHeaders.result :=
  match r with
  | RespHeaders.NoResponse => RespHeaders.NoResponse
  | RespHeaders.Resp st h =>
      RespHeaders.Resp st
        (match RespHeaders.hget RespHeaders.k_user h with
         | v :: _ => match RespHeaders.hval_str v with [] => h | _ => RespHeaders.hdel RespHeaders.k_user h end
         | [] => h
         end)
  end.

(* the effect on the session cookie as the CLIENT sees it: the last Set-Cookie line carrying the session
   cookie's name in the response it receives. It differs from what Authenticate did when the response
   headers of the backend displace the proxy's Set-Cookie lines (http.TimeoutHandler assigns header values
   key by key: a backend that sets any cookie replaces them; a 1xx response on a flush upstream clears them) *)
Definition visible_session (cn : str) (r : RespHeaders.result) (eff : ProxyCore.cookie_effect) : ProxyCore.cookie_effect :=
  match r with
  | RespHeaders.NoResponse => ProxyCore.CNone
  | RespHeaders.Resp _ h =>
      match rev (filter (fun v => match v with
                                  | RespHeaders.VCookie c => str_eqb (RespHeaders.ck_name c) cn
                                  | RespHeaders.VStr _ => false end)
                        (RespHeaders.hget RespHeaders.k_set_cookie h)) with
      | RespHeaders.VCookie c :: _ => if RespHeaders.ck_empty c then ProxyCore.CCleared else eff
      | _ => ProxyCore.CNone
      end
  end.

Inductive route := RtFavicon | RtRobots | RtCerts | RtSignOut | RtCallback | RtAuth | RtProxy.
(* oauthproxy.go:151-157, first match in registration order *)
Definition route_of_path (p : str) : route :=
  if str_eqb p p_favicon then RtFavicon
  else if str_eqb p p_robots then RtRobots
  else if str_eqb p p_certs then RtCerts
  else if str_eqb p p_sign_out then RtSignOut
  else if str_eqb p p_callback then RtCallback
  else if str_eqb p p_auth then RtAuth
  else RtProxy.

Section Serve.
Variable re_match : str -> str -> bool.
Variable re_replace : str -> str -> str -> str.
Variable lower : str -> str.
Variable opens : str -> option ProxyCore.session.

(* ---- routing over the extended upstream records (adapter for Hostmux.route_of, proved faithful) ---- *)
Definition simple_for (h : str) (u : iupstream) : bool := Hostmux.is_simple_for h (up_hm u).
Definition rw_match (h : str) (u : iupstream) : bool := Hostmux.is_rw_match re_match h (up_hm u).
Definition route_ext (ups : list iupstream) (h : str) : option iupstream :=
  match find (simple_for h) (rev ups) with
  | Some u => Some u
  | None => find (rw_match h) ups
  end.

(* ---- per-upstream views of the deployment, one per composed model ---- *)
Definition slug_of (d : deployment) (u : iupstream) : str := Hostmux.provider_slug true (dp_slug d) (up_hm u).
Definition pc_cfg (d : deployment) (u : iupstream) : ProxyCore.cfg :=
  {| ProxyCore.c_slug := slug_of d u; ProxyCore.c_L := dp_L d; ProxyCore.c_V := dp_V d; ProxyCore.c_G := dp_G d |}.
Definition pc_pol (u : iupstream) : ProxyCore.upolicy :=
  {| ProxyCore.u_rules := Hostmux.u_policy (up_hm u); ProxyCore.u_preflight := false |}.
Definition rh_cfg (d : deployment) (u : iupstream) : ReqHeaders.config :=
  {| ReqHeaders.cookie_name := dp_cookie_name d; ReqHeaders.pass_access_token := false;
     ReqHeaders.inject := up_inject u |}.
Definition rs_cfg (d : deployment) (u : iupstream) : RespHeaders.config :=
  {| RespHeaders.c_overrides := up_overrides u; RespHeaders.c_secure := dp_secure d;
     RespHeaders.c_httponly := dp_httponly d; RespHeaders.c_cookie_domain := dp_cookie_domain d;
     RespHeaders.c_cookie_name := dp_cookie_name d; RespHeaders.c_replace := up_replace u |}.
Definition sg_cfg (d : deployment) (u : iupstream) (host : str) : Signer.cfg :=
  {| Signer.c_signer := dp_signer d; Signer.c_hmac := up_hmac u; Signer.c_skip := up_skip_sign u;
     Signer.c_pass_token := false; Signer.c_inject := up_inject u; Signer.c_cookie_name := dp_cookie_name d;
     Signer.c_preserve_host := Hostmux.u_preserve (up_hm u);
     Signer.c_thost := Hostmux.target re_replace host (up_hm u); Signer.c_tpath := []; Signer.c_tquery := [] |}.

Definition cov : list str := Gen_Signer.signedHeaders.
Definition covh : list str := Signer.hmac_names Gen_Signer.SignatureHeaders.

(* ---- the request seen by each composed model ---- *)
Definition in_headers (q : request) : ReqHeaders.headers := ReqHeaders.mk_headers (rq_client q).

(* sessionStore.LoadSession: req.Cookie(name) = the first well-formed cookie of that name; then the cipher *)
Definition session_cookie (d : deployment) (q : request) : ProxyCore.cookie :=
  match find (fun c => str_eqb (ReqHeaders.c_name c) (dp_cookie_name d))
             (ReqHeaders.read_cookies (ReqHeaders.h_get ReqHeaders.k_cookie (in_headers q))) with
  | None => ProxyCore.NoCookie
  | Some c => match opens (ReqHeaders.c_value c) with
              | Some s => ProxyCore.Sealed s
              | None => ProxyCore.Junk
              end
  end.

Definition is_xhr (q : request) : bool := str_eqb (first_value k_xrw (in_headers q)) v_xhr.
Definition skip_hit (u : iupstream) (q : request) : bool :=
  existsb (fun p => re_match p (rq_path q)) (Hostmux.u_skip (up_hm u)).

Definition pc_request (d : deployment) (u : iupstream) (q : request) (ep : ProxyCore.which_endpoint) : ProxyCore.request :=
  {| ProxyCore.r_host := rq_host q; ProxyCore.r_is_options := str_eqb (rq_method q) m_options;
     ProxyCore.r_skip_hit := skip_hit u q; ProxyCore.r_xhr := is_xhr q;
     ProxyCore.r_endpoint := ep; ProxyCore.r_cookie := session_cookie d q |}.

Definition rs_request (q : request) : RespHeaders.request :=
  {| RespHeaders.q_scheme := []; RespHeaders.q_xfp := first_value k_xfp (in_headers q);
     RespHeaders.q_host := rq_host q; RespHeaders.q_path := rq_path q; RespHeaders.q_rawquery := rq_rawquery q;
     RespHeaders.q_get := str_eqb (rq_method q) m_get || str_eqb (rq_method q) m_head |}.

Definition hm_request (q : request) : Hostmux.request :=
  {| Hostmux.q_host := rq_host q; Hostmux.q_path := rq_path q; Hostmux.q_cookie := None |}.

(* ---- what the backend receives ---- *)
(* [pre]: Favicon runs Authenticate once BEFORE Proxy (oauthproxy.go:223-230): its header writes stay on
   the request; Proxy then scrubs the identity headers and starts over *)
Definition handler_headers (d : deployment) (u : iupstream) (q : request)
    (pre id : option ProxyCore.session) : ReqHeaders.headers :=
  let h1 := match pre with
            | Some s1 => ReqHeaders.authenticate_headers (rh_cfg d u) (rh_session s1) (in_headers q)
            | None => in_headers q
            end in
  ReqHeaders.delete_cookie (dp_cookie_name d) (ReqHeaders.proxy_headers true (rh_cfg d u) (rh_mode id) h1).

Definition signer_request (q : request) (h : ReqHeaders.headers) : Signer.request :=
  {| Signer.r_method := rq_method q; Signer.r_host := rq_host q; Signer.r_headers := to_signer_headers h;
     Signer.r_path := rq_path q; Signer.r_rawquery := rq_rawquery q; Signer.r_fragment := [];
     Signer.r_body := Some (rq_body q); Signer.r_chunked := rq_chunked q;
     Signer.r_clen := N.of_nat (length (rq_body q));   (* Request.ContentLength of a sized request = its body's length *)
     Signer.r_sso_sig := None; Signer.r_kid := None; Signer.r_gap_sig := None |}.

(* reverse_proxy.go:115-131 (order: deleteCookie > sign > [timeout] > ReverseProxy), then the transport *)
Definition received_request (d : deployment) (u : iupstream) (q : request) (h : ReqHeaders.headers) : Signer.request :=
  let c := sg_cfg d u (rq_host q) in
  let rs := signer_request q h in
  Signer.wire (Signer.rp_edits (rq_ip q) (Signer.r_headers rs) (Signer.director c (Signer.sign cov covh c rs))).

Definition backend_of (d : deployment) (u : iupstream) (q : request) (pre id : option ProxyCore.session) : backend_view :=
  let h := handler_headers d u q pre id in
  let f := Hostmux.forward re_replace (up_hm u) (hm_request q) None in
  {| bk_target := match Hostmux.r_target f with Some t => t | None => [] end;
     bk_host := match Hostmux.r_fwd_host f with Some t => t | None => [] end;
     bk_handler := h;
     bk_req := received_request d u q h |}.

(* ---- locations ---- *)
Definition provider_url (d : deployment) (u : iupstream) (leaf : str) : str :=
  dp_auth_base d ++ [47] ++ slug_of d u ++ leaf.

(* ---- the login callback ---- *)
Definition redeem_of (a : answers) : Callback.redeem_answer :=
  match an_redeem a with
  | ProxyCore.St c => if Z.eqb c 200 then match an_redeem_body a with
                                          | Some (e, _, _, _) => Callback.RedeemOk e
                                          | None => Callback.RedeemErr end
                      else Callback.RedeemErr
  | ProxyCore.Transport => Callback.RedeemErr
  end.
Definition groups_answer_of (a : answers) : groups_answer :=
  match ProxyCore.user_groups (an_auth a) with ProxyCore.UgOk gs => GroupsOk gs | _ => GroupsErr end.
Definition redeemed_email (a : answers) : str :=
  match an_redeem_body a with Some (e, _, _, _) => e | None => [] end.

Definition cb_request (u : iupstream) (q : request) (a : answers) (valid : bool) : Callback.cb_req :=
  {| Callback.cb_form_ok := cb_form_ok q; Callback.cb_error := cb_error q; Callback.cb_code := cb_code q;
     Callback.cb_state := cb_state q; Callback.cb_cookie := cb_csrf q; Callback.cb_host := rq_host q;
     Callback.cb_redeem := redeem_of a; Callback.cb_valid := valid |}.

(* SSOProvider.Redeem (sso.go:102-163) + the group validator's write of session.Groups + AuthorizedUpstream *)
Definition user_of_email (e : str) : str :=
  lower (match split_on at_sign e with x :: _ => x | [] => [] end).
Definition mint_session (d : deployment) (u : iupstream) (q : request) (a : answers) (now : Z) : ProxyCore.session :=
  match an_redeem_body a with
  | Some (e, acc, rt, exp) =>
      {| ProxyCore.s_slug := slug_of d u; ProxyCore.s_email := e; ProxyCore.s_user := user_of_email e;
         ProxyCore.s_access := acc; ProxyCore.s_refresh_tok := rt;
         ProxyCore.s_refresh_dl := (now + exp)%Z; ProxyCore.s_lifetime_dl := (now + dp_L d)%Z;
         ProxyCore.s_valid_dl := (now + dp_V d)%Z; ProxyCore.s_grace := None;
         ProxyCore.s_groups := (match p_groups (Hostmux.u_policy (up_hm u)) with
                                | [] => []
                                | g => gr_matched (validate_group g (groups_answer_of a)) end);
         ProxyCore.s_upstream := rq_host q |}
  | None =>
      {| ProxyCore.s_slug := []; ProxyCore.s_email := []; ProxyCore.s_user := []; ProxyCore.s_access := [];
         ProxyCore.s_refresh_tok := []; ProxyCore.s_refresh_dl := 0%Z; ProxyCore.s_lifetime_dl := 0%Z;
         ProxyCore.s_valid_dl := 0%Z; ProxyCore.s_grace := None; ProxyCore.s_groups := []; ProxyCore.s_upstream := [] |}
  end.

(* ---- per-route results: (router outcome for RespHeaders, backend, location kind, session effect, calls) ---- *)
Record routed_out := {
  ro_out : RespHeaders.outcome;
  ro_backend : option backend_view;
  ro_loc : loc_kind;
  ro_session : ProxyCore.cookie_effect;
  ro_calls : list call
}.

(* The Set-Cookie operations of ONE run of Authenticate, in order. ProxyCore keeps the final effect only;
   when a due refresh / revalidation succeeds (SaveSession, oauthproxy.go:707,732) and the per-request
   validators then refuse (748-760), the response carries the saved cookie FOLLOWED by the clearing one
   (deferred ClearSession, 650-654). Whether the refusal came from the validators is read off a second
   run under the same group rule without address / domain rules. *)
Definition pol_open (pol : ProxyCore.upolicy) : ProxyCore.upolicy :=
  {| ProxyCore.u_rules := {| p_addresses := []; p_domains := []; p_groups := p_groups (ProxyCore.u_rules pol) |};
     ProxyCore.u_preflight := ProxyCore.u_preflight pol |}.
Definition auth_ops (now : Z) (cfg : ProxyCore.cfg) (pol : ProxyCore.upolicy) (host : str) (ck : ProxyCore.cookie)
    (a : ProxyCore.answers) : list RespHeaders.cookie_op :=
  let o := ProxyCore.authenticate lower now cfg pol host ck a in
  match ProxyCore.ao_err o with
  | Some ProxyCore.ENotAuthorized =>
      let o' := ProxyCore.authenticate lower now cfg (pol_open pol) host ck a in
      match ProxyCore.ao_err o' with
      | None => eff_ops (ProxyCore.ao_cookie o') ++ [RespHeaders.CkSession true]
      | Some _ => [RespHeaders.CkSession true]
      end
  | _ => eff_ops (ProxyCore.ao_cookie o)
  end.

Definition page (xhr : bool) (code : N) : RespHeaders.lclass :=
  if xhr then RespHeaders.LXhr code else RespHeaders.LErrorPage code.

(* OAuthProxy.Proxy after its Authenticate / whitelist decision (oauthproxy.go:581-636): [pr] is
   ProxyCore's response; [ops] the Set-Cookie operations so far (an earlier Authenticate of Favicon included),
   [pre] the session that earlier Authenticate asserted *)
Definition proxy_out (d : deployment) (u : iupstream) (q : request) (a : answers)
    (pr : ProxyCore.response) (pre : option ProxyCore.session)
    (ops : list RespHeaders.cookie_op) (sess : ProxyCore.cookie_effect) (calls : list ProxyCore.endpoint) : routed_out :=
  let pre_user := match pre with Some s => Some (ProxyCore.s_email s) | None => None end in
  match ProxyCore.rs_out pr with
  | ProxyCore.Forward id =>
      let user := match id with Some s => Some (ProxyCore.s_email s) | None => pre_user end in
      {| ro_out := RespHeaders.OForward ops user (an_backend a);
         ro_backend := Some (backend_of d u q pre id);
         ro_loc := LkNone; ro_session := sess; ro_calls := map call_of calls |}
  | ProxyCore.SignIn =>
      if is_xhr q then
        {| ro_out := RespHeaders.OLocal (RespHeaders.LXhr 401) ops pre_user [];
           ro_backend := None; ro_loc := LkNone; ro_session := sess; ro_calls := map call_of calls |}
      else
        {| ro_out := RespHeaders.OLocal RespHeaders.LSignIn (ops ++ [RespHeaders.CkCsrf false]) pre_user
                                        (provider_url d u s_sign_in);
           ro_backend := None; ro_loc := LkSignIn (slug_of d u); ro_session := sess; ro_calls := map call_of calls |}
  | ProxyCore.Status n =>
      {| ro_out := RespHeaders.OLocal (page (is_xhr q) (Z.to_N n)) ops pre_user [];
         ro_backend := None; ro_loc := LkNone; ro_session := sess; ro_calls := map call_of calls |}
  end.

Definition local (c : RespHeaders.lclass) (ops : list RespHeaders.cookie_op) (user : option str) (loc : str)
    (lk : loc_kind) (sess : ProxyCore.cookie_effect) (calls : list call) : routed_out :=
  {| ro_out := RespHeaders.OLocal c ops user loc; ro_backend := None; ro_loc := lk; ro_session := sess; ro_calls := calls |}.

(* the gorilla router of one upstream (oauthproxy.go:149-157) *)
Definition router (d : deployment) (u : iupstream) (q : request) (a : answers) (now : Z) : routed_out :=
  let cfg := pc_cfg d u in
  let pol := pc_pol u in
  let aops := auth_ops now cfg pol (rq_host q) (session_cookie d q) (an_auth a) in
  (* Proxy's own Authenticate does not run for a whitelisted request *)
  let pops (ep : ProxyCore.which_endpoint) :=
    if ProxyCore.whitelisted pol (pc_request d u q ep) then [] else aops in
  if negb (str_eqb (ReqUri.clean_path (rq_path q)) (rq_path q)) then
    (* mux.Router.ServeHTTP: 301 to the cleaned path before any route is matched *)
    local RespHeaders.LMuxRedirect [] None (ReqUri.clean_path (rq_path q)) LkClean ProxyCore.CNone []
  else
  match route_of_path (rq_path q) with
  | RtRobots => local RespHeaders.LRobots [] None [] LkNone ProxyCore.CNone []
  | RtCerts => local RespHeaders.LCerts [] None [] LkNone ProxyCore.CNone []
  | RtSignOut =>                                                            (* oauthproxy.go:301-322 *)
      local RespHeaders.LSignOut [RespHeaders.CkSession true] None (provider_url d u s_sign_out)
            (LkSignOut (slug_of d u)) ProxyCore.CCleared []
  | RtCallback =>                                                           (* oauthproxy.go:400-544 *)
      let valid := login_gate lower (Hostmux.u_policy (up_hm u)) (redeemed_email a) (groups_answer_of a) in
      let r := cb_request u q a valid in
      let reached := match Callback.oauth_callback true true 1 (cb_request u q a true) with
                     | Callback.CbOk _ _ => true | Callback.CbPage _ => false end in
      let asked := gr_asked (validate_group (p_groups (Hostmux.u_policy (up_hm u))) (groups_answer_of a)) in
      let calls := (if Callback.redeem_called r then [CRedeem] else []) ++
                   (if reached && asked then [CProfile] else []) in
      match Callback.oauth_callback true true 1 r with
      | Callback.CbPage st => local (page (is_xhr q) st) [] None [] LkNone ProxyCore.CNone calls
      | Callback.CbOk _ loc =>
          local RespHeaders.LCallbackOk [RespHeaders.CkSession false; RespHeaders.CkCsrf true] None loc
                (LkBack loc) (ProxyCore.CSaved (mint_session d u q a now)) calls
      end
  | RtAuth =>                                                               (* oauthproxy.go:547-556 *)
      let pr := ProxyCore.handle lower now cfg pol (pc_request d u q ProxyCore.EAuthOnly) (an_auth a) in
      let o := ProxyCore.authenticate lower now cfg pol (rq_host q) (session_cookie d q) (an_auth a) in
      match ProxyCore.ao_err o with
      | None => local RespHeaders.LAuthOnly202 aops
                      (match ProxyCore.ao_session o with Some s => Some (ProxyCore.s_email s) | None => None end)
                      [] LkNone (ProxyCore.rs_cookie pr) (map call_of (ProxyCore.rs_calls pr))
      | Some _ => local RespHeaders.LAuthOnly401 aops None [] LkNone
                        (ProxyCore.rs_cookie pr) (map call_of (ProxyCore.rs_calls pr))
      end
  | RtFavicon =>                                                            (* oauthproxy.go:223-230 *)
      let pr := ProxyCore.handle lower now cfg pol (pc_request d u q ProxyCore.EFavicon) (an_auth a) in
      let o := ProxyCore.authenticate lower now cfg pol (rq_host q) (session_cookie d q) (an_auth a) in
      match ProxyCore.ao_err o with
      | Some _ => local RespHeaders.LFavicon404 aops None [] LkNone
                        (ProxyCore.rs_cookie pr) (map call_of (ProxyCore.rs_calls pr))
      | None =>
          proxy_out d u q a
            (ProxyCore.proxy_handle lower now cfg pol (pc_request d u q ProxyCore.EFavicon) (an_auth a))
            (ProxyCore.ao_session o) (aops ++ pops ProxyCore.EFavicon)
            (ProxyCore.rs_cookie pr) (ProxyCore.rs_calls pr)
      end
  | RtProxy =>                                                              (* oauthproxy.go:559-637 *)
      let pr := ProxyCore.handle lower now cfg pol (pc_request d u q ProxyCore.EProxy) (an_auth a) in
      proxy_out d u q a pr None (pops ProxyCore.EProxy) (ProxyCore.rs_cookie pr) (ProxyCore.rs_calls pr)
  end.

(* the handler chain of one upstream (oauthproxy.go:159-169): setSecurityHeaders > overrides >
   [requireHTTPS] > router; RespHeaders.proxy_handle composes the chain with the router's outcome *)
Definition redirected (d : deployment) (q : request) : bool :=
  dp_secure d && RespHeaders.needs_redirect (rs_request q).

Definition handle_up (d : deployment) (u : iupstream) (q : request) (a : answers) (now : Z) : outcome :=
  let ro := router d u q a now in
  let client := logging_strip
    (RespHeaders.proxy_handle Gen_Headers.proxy_security_headers Gen_Headers.proxy_hsts
       Gen_Headers.modify_response_deleted Gen_Headers.modify_response_trailer_deleted
       (rs_cfg d u) (rs_request q) (ro_out ro)) in
  if redirected d q then
    {| oc_upstream := Some u; oc_backend := None; oc_client := client; oc_loc := LkHttps;
       oc_session := ProxyCore.CNone; oc_calls := [] |}
  else
    {| oc_upstream := Some u; oc_backend := ro_backend ro; oc_client := client; oc_loc := ro_loc ro;
       oc_session := ro_session ro; oc_calls := ro_calls ro |}.

(* hostmux default route: http.Error(421) (hostmux.go:18-20) *)
Definition misdirected : outcome :=
  {| oc_upstream := None; oc_backend := None;
     oc_client := RespHeaders.Resp 421
       (RespHeaders.apply_op {| RespHeaders.c_overrides := []; RespHeaders.c_secure := false; RespHeaders.c_httponly := false;
                                RespHeaders.c_cookie_domain := []; RespHeaders.c_cookie_name := []; RespHeaders.c_replace := false |}
                             [] [] RespHeaders.OpHttpError);
     oc_loc := LkNone; oc_session := ProxyCore.CNone; oc_calls := [] |}.

(* setHealthCheck: 200, nothing else (middleware.go:56-64) *)
Definition health : outcome :=
  {| oc_upstream := None; oc_backend := None; oc_client := RespHeaders.Resp 200 [];
     oc_loc := LkNone; oc_session := ProxyCore.CNone; oc_calls := [] |}.

(* SSOProxy.ServeHTTP behind the logging wrapper *)
Definition serve (d : deployment) (q : request) (a : answers) (now : Z) : outcome :=
  if str_eqb (rq_path q) Hostmux.ping_path then health
  else match route_ext (dp_ups d) (rq_host q) with
       | None => misdirected
       | Some u => handle_up d u q a now
       end.

(* ------------------------------------------------------------------------------------------ *)
(* histories: the proxy's own issuing of sessions (callbacks and re-saves), an adversary who may present
   any cookie string; [opens] is then constrained to what was issued (hypothesis of the history theorems) *)
Record minted := { mi_session : ProxyCore.session; mi_host : str; mi_upstream : iupstream }.

Record event := { ev_req : request; ev_ans : answers; ev_dt : Z }.

Record hstate := { hs_now : Z; hs_minted : list minted }.

Definition hstep (d : deployment) (st : hstate) (e : event) : hstate * outcome :=
  let now := (hs_now st + Z.max 0 (ev_dt e))%Z in
  let o := serve d (ev_req e) (ev_ans e) now in
  ({| hs_now := now;
      hs_minted := match oc_session o, oc_upstream o with
                   | ProxyCore.CSaved s, Some u =>
                       hs_minted st ++ [{| mi_session := s; mi_host := rq_host (ev_req e); mi_upstream := u |}]
                   | _, _ => hs_minted st
                   end |}, o).

Fixpoint hrun (d : deployment) (st : hstate) (evs : list event) : hstate * list (event * outcome) :=
  match evs with
  | [] => (st, [])
  | e :: evs' =>
      let '(st1, o) := hstep d st e in
      let '(st2, tr) := hrun d st1 evs' in
      (st2, (e, o) :: tr)
  end.

End Serve.
