(* ReqUri.v — from the request-target on the wire to the redirect URI that OAuthStart records.

   Chain that is modelled (go1.23.5, gorilla/mux v1.7.2, sso at the pinned commit):

     net/http readRequest            request.go:1088-1161   request line -> url.ParseRequestURI, req.Host
     net/url  parse (viaRequest)     url.go:507-585         CTL check, getScheme, '?' split, authority, setPath
     net/url  unescape/escape/shouldEscape (encodePath)     url.go:102-176,201-274,286-345
     net/url  setPath / EscapedPath / validEncoded          url.go:691-756
     net/url  URL.String                                     url.go:829-898
     path.Clean                                              path/path.go:67-139  (as a segment stack, see below)
     sso      setHealthCheck("/ping")                        internal/proxy/middleware.go:56-64
     sso      hostmux static routes on req.Host              internal/pkg/hostmux/hostmux.go:88-111
     gorilla  Router.ServeHTTP with UseEncodedPath           mux.go:175-199 (301 when cleanPath(EscapedPath) differs)
     gorilla  cleanPath                                      mux.go:463-478
     sso      Handler(): six literal routes, then PathPrefix("/") -> Proxy   internal/proxy/oauthproxy.go:139-148
     sso      OAuthStart: requestURI := req.URL.String()     internal/proxy/oauthproxy.go:328

   Not modelled (outcome [PUnmodelled]): the asterisk form "*", opaque absolute URIs ("http:x"),
   the empty-authority form ("http:/x"), and authorities that are not plain  name[:digits]
   (user-info, IP literals, %-escapes, sub-delims): authority parsing belongs to C07's Url.v.
   Strings are byte lists; the model is total on all byte lists.  No proofs in this file. *)
From V Require Import Base.

Definition nilb {A} (l : list A) : bool := match l with [] => true | _ => false end.
Definition memb (c : N) (l : list N) : bool := existsb (N.eqb c) l.
Definition in_range (lo hi c : N) : bool := (lo <=? c) && (c <=? hi).

(* ---- byte classes ---- *)
Definition is_lower (c : N) := in_range 97 122 c.
Definition is_upper (c : N) := in_range 65 90 c.
Definition is_digit (c : N) := in_range 48 57 c.
Definition is_alpha (c : N) := is_lower c || is_upper c.
Definition is_alnum (c : N) := is_alpha c || is_digit c.
(* url.go:49-59 ishex, 61-72 unhex *)
Definition is_hex (c : N) := is_digit c || in_range 97 102 c || in_range 65 70 c.
Definition unhex (c : N) : N :=
  if is_digit c then c - 48
  else if in_range 97 102 c then c - 97 + 10
  else if in_range 65 70 c then c - 65 + 10 else 0.
(* "0123456789ABCDEF"[n]; total: taken modulo 16 *)
Definition upperhex (n : N) : N := let m := n mod 16 in if m <? 10 then 48 + m else 55 + m.

(* url.go:1290-1298 stringContainsCTLByte: b < ' ' || b == 0x7f *)
Definition is_ctl (b : N) : bool := (b <? 32) || (b =? 127).

(* url.go:102-176 shouldEscape(c, encodePath):
   unreserved alphanumerics and  - _ . ~  stay; of the reserved  $ & + , / : ; = ? @  only '?' is
   escaped in a path; everything else is escaped. *)
Definition should_escape_path (c : N) : bool :=
  negb (is_alnum c || memb c [45; 95; 46; 126; 36; 38; 43; 44; 47; 58; 59; 61; 64]).

(* url.go:734-756 validEncoded(s, encodePath), one byte:
   ! $ & ' ( ) * + , ; = : @  [ ]  %  are fine, otherwise shouldEscape decides *)
Definition valid_encoded_byte (c : N) : bool :=
  memb c [33; 36; 38; 39; 40; 41; 42; 43; 44; 59; 61; 58; 64; 91; 93; 37] || negb (should_escape_path c).
Definition valid_encoded (s : str) : bool := forallb valid_encoded_byte s.

(* url.go:201-274 unescape(s, encodePath): every '%' must be followed by two hex digits, else
   EscapeError; '+' is left alone in a path. *)
Fixpoint unescape (s : str) : option str :=
  match s with
  | [] => Some []
  | c :: r =>
      if N.eqb c 37 then
        match r with
        | h1 :: h2 :: r' =>
            if is_hex h1 && is_hex h2 then
              match unescape r' with
              | Some t => Some ((16 * unhex h1 + unhex h2) :: t)
              | None => None
              end
            else None
        | _ => None
        end
      else match unescape r with
           | Some t => Some (c :: t)
           | None => None
           end
  end.

(* url.go:286-345 escape(s, encodePath) *)
Definition escape_byte (c : N) : str :=
  if should_escape_path c then [37; upperhex (c / 16); upperhex c] else [c].
Definition escape (s : str) : str := flat_map escape_byte s.

(* ---- small string helpers ---- *)
(* strings.Cut(s, sep) for a one-byte separator: (before, Some after) or (s, None) *)
Fixpoint cut_at (sep : N) (s : str) : str * option str :=
  match s with
  | [] => ([], None)
  | c :: s' =>
      if N.eqb c sep then ([], Some s')
      else let '(a, b) := cut_at sep s' in (c :: a, b)
  end.
Fixpoint count_byte (sep : N) (s : str) : N :=
  match s with
  | [] => 0
  | c :: s' => (if N.eqb c sep then 1 else 0) + count_byte sep s'
  end.
Definition last_is (c : N) (s : str) : bool :=
  match rev s with d :: _ => N.eqb c d | [] => false end.
(* split "…/rest" into (before first '/', the remainder INCLUDING that '/') — url.go:555-559 *)
Fixpoint split_authority (s : str) : str * str :=
  match s with
  | [] => ([], [])
  | c :: s' => if N.eqb c 47 then ([], s) else let '(a, r) := split_authority s' in (c :: a, r)
  end.

(* ---- net/url ---- *)
(* url.go:444-466 getScheme.  None = error "missing protocol scheme" (a leading ':').
   [first] is true at index 0; [acc] is the reversed prefix read so far. *)
Fixpoint get_scheme_aux (first : bool) (acc : str) (s orig : str) : option (str * str) :=
  match s with
  | [] => Some ([], orig)
  | c :: s' =>
      if is_alpha c then get_scheme_aux false (c :: acc) s' orig
      else if is_digit c || N.eqb c 43 || N.eqb c 45 || N.eqb c 46 then
        (if first then Some ([], orig) else get_scheme_aux false (c :: acc) s' orig)
      else if N.eqb c 58 then (if first then None else Some (rev acc, s'))
      else Some ([], orig)
  end.
Definition get_scheme (s : str) : option (str * str) := get_scheme_aux true [] s s.

Record url := {
  u_scheme : str;        (* lower-cased *)
  u_host : str;          (* "" for origin-form *)
  u_path : str;          (* decoded *)
  u_rawpath : str;       (* "" when the default encoding of u_path is the original *)
  u_force_query : bool;
  u_rawquery : str
}.

(* url.go:691-705 setPath *)
Definition set_path (p : str) : option (str * str) :=
  match unescape p with
  | None => None
  | Some path => Some (path, if str_eqb p (escape path) then [] else p)
  end.

(* the authorities this model covers: name[:digits], name a non-empty run of letters, digits, '-', '.'
   (for these parseHost returns the text unchanged and escape(host, encodeHost) is the identity) *)
Definition host_byte (c : N) : bool := is_alnum c || N.eqb c 45 || N.eqb c 46.
Definition simple_authority (a : str) : bool :=
  let '(h, port) := cut_at 58 a in
  negb (nilb h) && forallb host_byte h &&
  match port with None => true | Some p => forallb is_digit p end.

Inductive parsed :=
| PBad                 (* url.ParseRequestURI fails: net/http answers 400 Bad Request *)
| PUnmodelled          (* a shape outside this model (see header) *)
| PUrl (u : url).

(* url.go:507-585 parse(rawURL, viaRequest = true) *)
Definition parse_request_uri (t : str) : parsed :=
  if existsb is_ctl t then PBad
  else if nilb t then PBad
  else if str_eqb t [42] then PUnmodelled
  else
    match get_scheme t with
    | None => PBad
    | Some (sch0, rest0) =>
        let sch := lower_ascii sch0 in
        let '(rest, force, rawq) :=
          if last_is 63 rest0 && N.eqb (count_byte 63 rest0) 1
          then (removelast rest0, true, [])
          else let '(a, b) := cut_at 63 rest0 in
               (a, false, match b with Some q => q | None => [] end) in
        if negb (has_prefix rest [47]) then
          (if nilb sch then PBad (* "invalid URI for request" *) else PUnmodelled (* opaque *))
        else if negb (nilb sch) then
          if has_prefix rest [47; 47] then
            let '(authority, rest') := split_authority (skipn 2 rest) in
            if simple_authority authority then
              match set_path rest' with
              | None => PBad
              | Some (p, rp) =>
                  PUrl {| u_scheme := sch; u_host := authority; u_path := p; u_rawpath := rp;
                          u_force_query := force; u_rawquery := rawq |}
              end
            else PUnmodelled
          else PUnmodelled (* "http:/x": OmitHost form *)
        else
          (* origin-form: with viaRequest and no scheme a leading "//" is NOT an authority *)
          match set_path rest with
          | None => PBad
          | Some (p, rp) =>
              PUrl {| u_scheme := []; u_host := []; u_path := p; u_rawpath := rp;
                      u_force_query := force; u_rawquery := rawq |}
          end
    end.

(* url.go:718-730 EscapedPath *)
Definition escaped_path (u : url) : str :=
  if negb (nilb (u_rawpath u)) && valid_encoded (u_rawpath u) &&
     match unescape (u_rawpath u) with Some p => str_eqb p (u_path u) | None => false end
  then u_rawpath u
  else if str_eqb (u_path u) [42] then [42]
  else escape (u_path u).

(* url.go:829-898 String, for URLs without Opaque, User, Fragment, OmitHost and with a host on
   which escape(host, encodeHost) is the identity (see simple_authority) *)
Definition url_string (u : url) : str :=
  let head :=
    (if nilb (u_scheme u) then [] else u_scheme u ++ [58]) ++
    (if negb (nilb (u_scheme u)) || negb (nilb (u_host u)) then
       (if negb (nilb (u_host u)) || negb (nilb (u_path u)) then [47; 47] else []) ++ u_host u
     else []) in
  let path := escaped_path u in
  let sep := if negb (nilb path) && negb (has_prefix path [47]) && negb (nilb (u_host u)) then [47] else [] in
  let dot := if nilb (head ++ sep) && memb 58 (fst (cut_at 47 path)) then [46; 47] else [] in
  head ++ sep ++ dot ++ path ++
  (if u_force_query u || negb (nilb (u_rawquery u)) then 63 :: u_rawquery u else []).

(* ---- what survives sealing: encoding/json on a Go string ----
   OAuthStart stores req.URL.String() in StateParameter.RedirectURI and seals json.Marshal of it;
   the callback reads it back with json.Unmarshal.  encoding/json (encode.go appendString) writes
   every byte that does not start a valid UTF-8 sequence (utf8.DecodeRuneInString = RuneError,
   size 1; unicode/utf8/utf8.go:65-110 `first`, `acceptRanges`) as \ufffd, which decodes to
   EF BF BD; everything else round-trips.  So the RECORDED redirect URI is [utf8_coerce] of the
   request URI.  (Only the raw query can contain such bytes: the path is %-escaped.) *)
(* length of the valid sequence starting with lead byte c followed by r; 0 = invalid *)
Definition utf8_cont (b : N) : bool := in_range 128 191 b.
Definition utf8_seq_len (c : N) (r : str) : N :=
  let '(sz, lo, hi) :=
    if in_range 194 223 c then (2, 128, 191)
    else if N.eqb c 224 then (3, 160, 191)
    else if in_range 225 236 c || in_range 238 239 c then (3, 128, 191)
    else if N.eqb c 237 then (3, 128, 159)
    else if N.eqb c 240 then (4, 144, 191)
    else if in_range 241 243 c then (4, 128, 191)
    else if N.eqb c 244 then (4, 128, 143)
    else (0, 0, 0) in
  match sz, r with
  | 2, s1 :: _ => if in_range lo hi s1 then 2 else 0
  | 3, s1 :: s2 :: _ => if in_range lo hi s1 && utf8_cont s2 then 3 else 0
  | 4, s1 :: s2 :: s3 :: _ => if in_range lo hi s1 && utf8_cont s2 && utf8_cont s3 then 4 else 0
  | _, _ => 0
  end.
Definition REPLACEMENT : str := [239; 191; 189].
Fixpoint utf8_coerce (s : str) : str :=
  match s with
  | [] => []
  | c :: r =>
      if c <? 128 then c :: utf8_coerce r
      else
        let k := utf8_seq_len c r in
        if N.eqb k 2 then match r with s1 :: r1 => c :: s1 :: utf8_coerce r1 | _ => REPLACEMENT ++ utf8_coerce r end
        else if N.eqb k 3 then match r with s1 :: s2 :: r2 => c :: s1 :: s2 :: utf8_coerce r2 | _ => REPLACEMENT ++ utf8_coerce r end
        else if N.eqb k 4 then match r with s1 :: s2 :: s3 :: r3 => c :: s1 :: s2 :: s3 :: utf8_coerce r3 | _ => REPLACEMENT ++ utf8_coerce r end
        else REPLACEMENT ++ utf8_coerce r
  end.

(* ---- path.Clean (path/path.go:67-139) ----
   Go walks the bytes with a lazy buffer; the same function on the list of '/'-separated
   elements: empty elements and "." are dropped, ".." removes the previous element (at the root
   it is dropped; in a relative path a leading run of ".." is kept), the result is joined with
   single slashes, rooted iff the input was; the empty result is ".". [acc] is reversed. *)
Definition DOT : str := [46].
Definition DOTDOT : str := [46; 46].
Fixpoint clean_stack (rooted : bool) (acc : list str) (ss : list str) : list str :=
  match ss with
  | [] => rev acc
  | s :: ss' =>
      if nilb s || str_eqb s DOT then clean_stack rooted acc ss'
      else if str_eqb s DOTDOT then
        match acc with
        | a :: acc' =>
            if negb rooted && str_eqb a DOTDOT then clean_stack rooted (s :: acc) ss'
            else clean_stack rooted acc' ss'
        | [] => if rooted then clean_stack rooted acc ss' else clean_stack rooted (s :: acc) ss'
        end
      else clean_stack rooted (s :: acc) ss'
  end.
Definition path_clean (p : str) : str :=
  match p with
  | [] => DOT
  | c :: _ =>
      let rooted := N.eqb c 47 in
      let body := join [47] (clean_stack rooted [] (split_on 47 p)) in
      let r := if rooted then 47 :: body else body in
      if nilb r then DOT else r
  end.

(* gorilla/mux mux.go:463-478 cleanPath *)
Definition clean_path (p : str) : str :=
  match p with
  | [] => [47]
  | c :: _ =>
      let p1 := if N.eqb c 47 then p else 47 :: p in
      let np := path_clean p1 in
      if last_is 47 p1 && negb (str_eqb np [47]) then np ++ [47] else np
  end.

(* ---- the sso-proxy routing chain in front of OAuthStart ---- *)
Definition PING : str := [47; 112; 105; 110; 103].                                    (* /ping *)
Definition fixed_routes : list str :=
  [ [47;102;97;118;105;99;111;110;46;105;99;111];                                     (* /favicon.ico *)
    [47;114;111;98;111;116;115;46;116;120;116];                                       (* /robots.txt *)
    [47;111;97;117;116;104;50;47;118;49;47;99;101;114;116;115];                       (* /oauth2/v1/certs *)
    [47;111;97;117;116;104;50;47;115;105;103;110;95;111;117;116];                     (* /oauth2/sign_out *)
    [47;111;97;117;116;104;50;47;99;97;108;108;98;97;99;107];                         (* /oauth2/callback *)
    [47;111;97;117;116;104;50;47;97;117;116;104] ].                                   (* /oauth2/auth *)

Inductive routed :=
| RBadRequest                      (* net/http: 400, no handler runs *)
| RUnmodelled
| RPing                            (* 200 from the health check, before host routing *)
| RMisdirected                     (* 421: req.Host is not a configured upstream host *)
| RCleanRedirect (loc : str)       (* gorilla: 301 with this Location *)
| RFixed                           (* one of the six literal routes; Proxy/OAuthStart does not see it *)
| RProxy (host : str) (recorded : str).
   (* PathPrefix("/") -> Proxy.  [host] is req.Host; [recorded] is what a later unsealing of the state
      (or CSRF cookie) yields as StateParameter.RedirectURI when OAuthStart starts a flow for this
      request: req.URL.String() through the JSON codec. *)

Definition with_path (u : url) (p : str) : url :=
  {| u_scheme := u_scheme u; u_host := u_host u; u_path := p; u_rawpath := u_rawpath u;
     u_force_query := u_force_query u; u_rawquery := u_rawquery u |}.

(* [hosts]: the static upstream hosts; [hdr_host]: the Host header (used for origin-form) *)
Definition route (hosts : list str) (hdr_host : str) (t : str) : routed :=
  (* request.go:1036-1043,1114 parseRequestLine cuts the line at its first two spaces: a space inside
     the target leaves a malformed HTTP-version field, 400 *)
  if memb 32 t then RBadRequest else
  match parse_request_uri t with
  | PBad => RBadRequest
  | PUnmodelled => RUnmodelled
  | PUrl u =>
      if str_eqb (u_path u) PING then RPing
      else
        let h := if nilb (u_host u) then hdr_host else u_host u in   (* request.go:1158-1161 *)
        if negb (mem_str h hosts) then RMisdirected
        else
          let ep := escaped_path u in
          let cp := clean_path ep in
          if negb (str_eqb cp ep) then RCleanRedirect (url_string (with_path u cp))  (* mux.go:182-194 *)
          else if mem_str ep fixed_routes then RFixed
          else RProxy h (utf8_coerce (url_string u))
  end.

(* ---- the property's predicates on a recorded redirect URI ---- *)
(* relative and same-site: "/" first, then neither "/" nor "\" (what browsers read as the start
   of an authority), and no control byte anywhere (browsers drop TAB/CR/LF before parsing) *)
Definition same_site_rel (r : str) : bool :=
  match r with
  | c :: rest =>
      N.eqb c 47 &&
      match rest with d :: _ => negb (N.eqb d 47) && negb (N.eqb d 92) | [] => true end &&
      negb (existsb is_ctl r)
  | [] => false
  end.
