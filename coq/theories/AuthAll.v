(* AuthAll.v — INTEGRATION model of sso-auth: one executable function for the whole request path
   of every endpoint, composed from the per-property models through small adapters.

     internal/auth/mux.go:20-103            NewAuthenticatorMux: /ping, host router (421), gorilla
                                            idpMux with one PathPrefix("/<slug>") + StripPrefix per
                                            provider, /static/, /robots.txt, 404
     internal/auth/authenticator.go:107-121 newMux: setHeaders(serviceMux) and the eight routes,
                                            each with withMethods and its middleware chain IN ORDER
     internal/auth/middleware.go:26-156     setHeaders, withMethods, validateClientID,
                                            validateClientSecret, validateRedirectURI, validateSignature
     internal/auth/error.go:44-69           ErrorResponse (HTML page or JSON by the Accept header)
     internal/auth/logging_handler.go + cmd/sso-auth/main.go:47-55   production chain: ParseForm is
                                            called (error dropped) before the mux   ([d_pre])
     gorilla/mux mux.go:175-199,463-478     clean-path 301 (outer and inner router, UseEncodedPath)

   What is REUSED (imported, not restated):
     Url.go_parse ..., AuthGates.valid_redirect_uri / valid_signature / norm_domains   (C07)
     AuthBack.parse_form / compute_form / form_get / run_handler (Redeem, Refresh, ...) (C08)
     AuthFlow.sign_in (authenticate ladder, SignIn dispatch), oauth_start, oauth_callback,
              refresh_access_token, idp_validates                                       (C09)
     IdToken.redeem (provider Redeem: token endpoint, id_token / userinfo)              (C10)
     SignOut.revoke_ok / revoke_token / b64_decode / b64_encode                         (C19)
     RespHeaders.auth_handle (setHeaders + handler header operations)                   (C18)
     ReqUri.clean_path (gorilla cleanPath)                                              (C13)
   The gates are polymorphic re-statements of AuthBack's two (validate_client_id/secret: proved
   equal in AuthAll_proofs.v) plus the two redirect gates, now computed by AuthGates' CONCRETE
   functions on the form values that AuthBack's CONCRETE form parser yields — AuthFlow's oracle
   booleans si_redirect_ok / si_sig_ok / st_*_ok / cb_redirect_ok are gone.

   Oracles that remain (explicit arguments, never axioms): the AEAD ([o_open]: under which key a
   string opens and to what session — the driver computes it with the real ciphers), the MAC
   ([o_tag]: which byte strings are HMACs of what — base64 decoding of sig is concrete),
   url.Parse(x).String() / URL.Query() of the /start parameter, url.ParseQuery of the redirect's
   query, strings.ToLower, mime.ParseMediaType, JSON decoding of IdP bodies (as in C09/C10), the
   server's random nonce, the embedded static file system.
   No proofs in this file. *)
From V Require Import Base.
From V Require Url AuthGates AuthBack AuthFlow IdToken SignOut ReqUri RespHeaders Gen_Headers.
Require Coq.Strings.String.
Import Coq.Strings.String.StringSyntax.

Module G := V.AuthGates.
Module B := V.AuthBack.
Module F := V.AuthFlow.
Module T := V.IdToken.
Module S := V.SignOut.
Module H := V.RespHeaders.

Local Open Scope N_scope.

(* ------------------------------------------------------------------------------------------ *)
(* constants *)

Definition k_redirect_uri : str := [114;101;100;105;114;101;99;116;95;117;114;105]. (* "redirect_uri" *)
Definition k_sig : str := [115;105;103].                                             (* "sig" *)
Definition k_ts : str := [116;115].                                                  (* "ts" *)
Definition k_state : str := [115;116;97;116;101].                                    (* "state" *)
Definition k_error : str := [101;114;114;111;114].                                   (* "error" *)
Definition h_accept : str := [65;99;99;101;112;116].                                 (* "Accept" *)
Definition v_app_json : str :=
  [97;112;112;108;105;99;97;116;105;111;110;47;106;115;111;110].                     (* "application/json" *)
Definition p_ping : str := [47;112;105;110;103].                                     (* "/ping" *)
Definition p_static : str := [47;115;116;97;116;105;99;47].                          (* "/static/" *)
Definition p_robots : str := [47;114;111;98;111;116;115;46;116;120;116].             (* "/robots.txt" *)
Definition p_start : str := [47;115;116;97;114;116].                                 (* "/start" *)
Definition p_sign_in : str := [47;115;105;103;110;95;105;110].                       (* "/sign_in" *)
Definition p_sign_out : str := [47;115;105;103;110;95;111;117;116].                  (* "/sign_out" *)
Definition p_callback : str := [47;99;97;108;108;98;97;99;107].                      (* "/callback" *)
Definition c_slash : N := 47.

Definition ns : Z := G.ns.

(* ------------------------------------------------------------------------------------------ *)
(* deployment = Configuration as NewAuthenticatorMux reads it *)

(* the provider types this model covers (AuthFlow also knows Cognito, whose Revoke goes through
   the AWS SDK and is not modelled by SignOut.v): a deployment names only these *)
Inductive akind := AGoogle | AOkta.
Definition fkind (p : akind) : F.pkind := match p with AGoogle => F.Google | AOkta => F.Okta end.

Record deployment := {
  d_host : str;                          (* server.host: the only Host the router serves *)
  d_slugs : list (str * akind);          (* provider slug -> provider type, registration order *)
  d_pre : bool;                          (* true: behind the logging handler of cmd/sso-auth *)
  d_proxy_domains : list str;            (* authorize.proxy.domains, as configured *)
  d_client_id : str; d_client_secret : str;   (* client "proxy" *)
  d_scheme : str;                        (* server.scheme *)
  d_addresses : list str; d_email_domains : list str;   (* authorize.email *)
  d_lifetime : Z;                        (* session.lifetime, seconds *)
  d_code_key : N; d_cookie_key : N       (* SESSION_KEY / SESSION_COOKIE_SECRET, as key names *)
}.

(* adapters: the three configuration records of the per-property models *)
Definition gcfg (d : deployment) : G.config :=
  {| G.c_domains := d_proxy_domains d; G.c_secret := d_client_secret d;
     G.c_client_id := d_client_id d; G.c_scheme := d_scheme d |}.
Definition fcfg (d : deployment) : F.config := F.mkCfg (d_addresses d) (d_email_domains d) (d_lifetime d).
Definition bcfg (d : deployment) : B.config :=
  {| B.cfg_id := d_client_id d; B.cfg_secret := d_client_secret d;
     B.cfg_code_key := d_code_key d; B.cfg_cookie_key := d_cookie_key d |}.
Definition root_domains (d : deployment) : list str := G.norm_domains (d_proxy_domains d).

(* ------------------------------------------------------------------------------------------ *)
(* requests *)

Record request := {
  q_host : str;                          (* req.Host *)
  q_path : str;                          (* req.URL.Path; the model covers paths that need no
                                            escaping, for which EscapedPath() = Path *)
  q_method : str;
  q_query : str;                         (* URL.RawQuery, any bytes *)
  q_ctype : B.ctype;
  q_body : str;
  q_headers : list (str * str);          (* canonical key, value; arrival order *)
  q_sess : list (str * str);             (* slug -> value of the cookie <name>_<slug> *)
  q_csrf : list (str * str)              (* slug -> value of the cookie <name>_<slug>_csrf *)
}.

(* the request as the service mux of one authenticator sees it (after http.StripPrefix) *)
Definition inner (q : request) (rest : str) : B.request :=
  {| B.rq_path := rest; B.rq_method := q_method q; B.rq_query := q_query q;
     B.rq_ctype := q_ctype q; B.rq_body := q_body q; B.rq_headers := q_headers q |}.

Fixpoint lookup (k : str) (t : list (str * str)) : option str :=
  match t with [] => None | (a, b) :: t' => if str_eqb k a then Some b else lookup k t' end.

(* ------------------------------------------------------------------------------------------ *)
(* oracles and provider answers *)

Record oracles := {
  o_open : str -> option (N * B.session);     (* AEAD: key name and session a string opens to *)
  o_tag : str -> G.tag;                       (* MAC: symbolic name of a byte string *)
  o_parse_string : str -> option str;         (* url.Parse(x).String(); None = Parse error *)
  o_nested : str -> str * str * str;          (* Parse(x).Query(): redirect_uri, sig, ts *)
  o_query_ok : str -> bool                    (* url.ParseQuery(Parse(x).RawQuery) succeeds *)
}.

Record answers := {
  an_refresh : F.refresh_reply;               (* token endpoint, grant_type=refresh_token *)
  an_validate : F.validate_reply;             (* tokeninfo / introspect *)
  an_tok : T.answer T.tok_fields;             (* token endpoint, grant_type=authorization_code *)
  an_ui : T.answer T.user_fields;             (* userinfo (Okta) *)
  an_payload : str -> T.body T.user_fields;   (* JSON class of the id_token payload bytes (Google) *)
  an_revoke : S.idp_answer;                   (* revoke endpoint *)
  an_groups : B.groups_answer;                (* provider.ValidateGroupMembership (group lookups are C17's) *)
  an_nonce : str;                             (* the server's random choice at /start *)
  an_static : N                               (* status the embedded file server answers *)
}.

(* ------------------------------------------------------------------------------------------ *)
(* adapters between the session / cookie / provider vocabularies of the models *)

Definition to_flow (s : B.session) : F.session :=
  F.mkS (B.s_email s) (B.s_access s) (B.s_refresh_tok s) (B.s_refresh_dl s) (B.s_lifetime_dl s).
Definition to_back (s : F.session) : B.session :=
  {| B.s_email := F.s_email s; B.s_access := F.s_access s; B.s_refresh_tok := F.s_rtok s;
     B.s_refresh_dl := F.s_refresh s; B.s_lifetime_dl := F.s_lifetime s |}.
Definition to_as (s : F.session) : S.asession :=
  {| S.as_email := F.s_email s; S.as_access := F.s_access s; S.as_refresh := F.s_rtok s |}.

Definition key_of (d : deployment) (k : N) : F.key :=
  if N.eqb k (d_cookie_key d) then F.KCookie else if N.eqb k (d_code_key d) then F.KCode else F.KOther.

(* what req.Cookie(name) + UnmarshalSession make of the presented session cookie *)
Definition cookie_of (d : deployment) (o : oracles) (v : option str) : F.cookie :=
  match v with
  | None => F.CkNone
  | Some c => match o_open o c with
              | Some (k, s) => F.CkSealed (key_of d k) (to_flow s)
              | None => F.CkJunk
              end
  end.

Definition acookie_of (c : F.cookie) : S.acookie :=
  match c with
  | F.CkNone => S.ACNone
  | F.CkSealed F.KCookie s => S.ACSealed (to_as s)
  | _ => S.ACJunk
  end.

Definition tprov (p : akind) : T.provider := match p with AGoogle => T.Google | AOkta => T.Okta end.
Definition sprov (p : akind) : S.provider := match p with AGoogle => S.PGoogle | AOkta => S.POkta end.

(* provider.Redeem (IdToken, with the len(jwt) check that the code has today) as the reply the
   flow model consumes; a panic cannot happen with the check (C10_no_panic) *)
Definition rd_of (p : akind) (an : answers) (code : str) : F.redeem_reply :=
  match T.redeem true (tprov p) (an_payload an) code (an_tok an) (an_ui an) with
  | T.Session s => F.RdTokens (T.s_email s) (T.s_access s) (T.s_refresh s) (T.s_expires_in s)
  | _ => F.RdErr
  end.

Definition perr_of (e : F.auth_err) : B.perr :=
  match e with
  | F.EBadRequest => B.EBadRequest | F.ETokenRevoked => B.ETokenRevoked
  | F.ERateLimited => B.ERateLimit | F.EUnavailable => B.EUnavailable
  | _ => B.EOther
  end.

(* provider.RefreshAccessToken / ValidateSessionState as the back-channel handlers see them *)
Definition benv (d : deployment) (p : akind) (o : oracles) (an : answers) (now_s : Z) : B.env :=
  {| B.e_now := now_s; B.e_open := o_open o;
     B.e_refresh := match F.refresh_access_token (fkind p) (an_refresh an) with
                    | inl e => B.RefErr (perr_of e)
                    | inr (tok, dur) => B.RefOk tok dur
                    end;
     B.e_groups := an_groups an;
     B.e_valid := F.idp_validates (fkind p) (an_validate an) |}.

(* "sig" as validSignature reads it: emptiness, base64.URLEncoding.DecodeString (concrete,
   SignOut.v), then the MAC oracle names the bytes *)
Definition sigval_of (o : oracles) (sg : str) : G.sigval :=
  match sg with
  | [] => G.SigAbsent
  | _ => match S.b64_decode sg with
         | None => G.SigBad
         | Some b => G.SigTag (o_tag o b)
         end
  end.

(* ------------------------------------------------------------------------------------------ *)
(* responses *)

Inductive call :=
| CIdp (c : F.idp_call)          (* token endpoint / tokeninfo / introspect *)
| CRevoke (tok : str).           (* revoke endpoint *)

Inductive location :=
| LNone
| LVerbatim (src : str)          (* http.Redirect(rw, req, src, 302): hexEscapeNonASCII src *)
| LCode (src : str) (s : F.session)   (* src re-serialised with code = seal(auth-code key, s) and state, scheme overwritten *)
| LIdP (state_plain : str)       (* provider sign-in URL; state = base64url(state_plain) *)
| LClean (p : str).              (* gorilla clean-path 301 to p *)

Inductive body :=
| BEmpty
| BErrPage (code : N)            (* error.html with Code/Title of [code] and some message *)
| BErrJson (code : N)            (* {"error": message}, Accept: application/json *)
| BSignInPage
| BSignOutPage (email uri sg ts : str) (with_message : bool)
| BJson (b : B.body)             (* back-channel JSON document *)
| BPlain                         (* http.Error / http.NotFound: text/plain, nosniff *)
| BRedirect                      (* the stub http.Redirect writes *)
| BRobots
| BStatic.

Inductive handler := HStart | HSignIn | HSignOut | HCallback | HBack (h : B.handler).
Inductive gate := GClientID | GClientSecret | GRedirectURI | GSignature.

Record response := {
  r_status : N;
  r_loc : location;
  r_sess_ops : list F.cookie_op;     (* Set-Cookie lines for the session cookie, in order *)
  r_csrf_ops : list F.set_cookie;    (* Set-Cookie lines for the CSRF cookie, in order *)
  r_calls : list call;               (* identity-provider calls, in order *)
  r_body : body;
  r_secured : bool;                  (* served inside setHeaders(serviceMux) of an authenticator *)
  r_ran : option handler             (* ghost: the handler whose body was entered *)
}.

Definition mk (st : N) (l : location) (so : list F.cookie_op) (co : list F.set_cookie)
    (cs : list call) (b : body) (ran : option handler) : response :=
  {| r_status := st; r_loc := l; r_sess_ops := so; r_csrf_ops := co; r_calls := cs; r_body := b;
     r_secured := true; r_ran := ran |}.

(* responses produced outside every authenticator: no security headers, no effect *)
Definition outside (st : N) (l : location) (b : body) : response :=
  {| r_status := st; r_loc := l; r_sess_ops := []; r_csrf_ops := []; r_calls := []; r_body := b;
     r_secured := false; r_ran := None |}.

(* error.go:44-69 *)
Definition accept_json (r : B.request) : bool := str_eqb (B.form_get h_accept (B.rq_headers r)) v_app_json.
Definition err_body (r : B.request) (code : N) : body := if accept_json r then BErrJson code else BErrPage code.
Definition err_with (r : B.request) (code : N) (so : list F.cookie_op) (co : list F.set_cookie)
    (cs : list call) (ran : option handler) : response :=
  mk code LNone so co cs (err_body r code) ran.
Definition gate_err (r : B.request) (code : N) : response := err_with r code [] [] [] None.

(* header operations a response implies (authenticator.go / error.go / http.go / net/http):
   Location, Set-Cookie lines, Content-Type and GAP-Auth of JSON documents, http.Error *)
Definition k_gap_auth : str := H.bs "GAP-Auth".
Definition hops (r : response) : list H.aop :=
  (match r_loc r with LNone => [] | _ => [H.ASet H.k_location []] end) ++
  map (fun _ => H.AAddCookie []) (r_csrf_ops r) ++
  map (fun _ => H.AAddCookie []) (r_sess_ops r) ++
  match r_body r with
  | BErrJson _ => [H.ASet H.k_content_type []]
  | BJson _ => [H.ASet k_gap_auth []; H.ASet H.k_content_type []]
  | BPlain => [H.AHttpError]
  | _ => []
  end.

(* the header map of the response, for the keys C18 talks about *)
Definition headers_of (r : response) : H.hdr H.hval :=
  if r_secured r then H.auth_handle Gen_Headers.auth_security_headers (hops r)
  else fold_left H.apply_aop (hops r) [].

(* ------------------------------------------------------------------------------------------ *)
(* middleware.go on the integrated response type                                              *)

Definition hfun := B.request -> B.form_state -> response.

Definition with_methods (ms : list str) (f : hfun) : hfun := fun r fs =>
  if mem_str (B.rq_method r) ms then f r fs else gate_err r 405.

Definition gate_client_id (d : deployment) (f : hfun) : hfun := fun r fs =>
  let '(fs', e) := B.parse_form r fs in
  if e then gate_err r 500
  else
    let id := B.form_get B.k_client_id (B.form_of fs') in
    let id := if B.is_nil id then B.form_get B.k_client_id (B.url_query r) else id in
    if str_eqb id (d_client_id d) then f r fs' else gate_err r 401.

Definition gate_client_secret (d : deployment) (f : hfun) : hfun := fun r fs =>
  let '(fs', e) := B.parse_form r fs in
  if e then gate_err r 500
  else
    let sec := B.form_get B.k_client_secret (B.form_of fs') in
    let sec := if B.is_nil sec then B.form_get B.h_client_secret (B.rq_headers r) else sec in
    if str_eqb sec (d_client_secret d) then f r fs' else gate_err r 401.

(* validateRedirectURI, middleware.go:104-124: AuthGates' concrete validRedirectURI *)
Definition gate_redirect_uri (d : deployment) (f : hfun) : hfun := fun r fs =>
  let '(fs', e) := B.parse_form r fs in
  if e then gate_err r 400
  else if G.valid_redirect_uri (B.form_get k_redirect_uri (B.form_of fs')) (root_domains d)
  then f r fs' else gate_err r 400.

(* validateSignature, middleware.go:139-156: AuthGates' concrete validSignature *)
Definition gate_signature (d : deployment) (o : oracles) (now_ns : Z) (f : hfun) : hfun := fun r fs =>
  let '(fs', e) := B.parse_form r fs in
  if e then gate_err r 400
  else
    let fm := B.form_of fs' in
    if G.valid_signature now_ns (B.form_get k_redirect_uri fm) (sigval_of o (B.form_get k_sig fm))
                         (B.form_get k_ts fm) (d_client_secret d)
    then f r fs' else gate_err r 400.

(* ------------------------------------------------------------------------------------------ *)
(* handlers: the per-property models behind adapters                                          *)

Section Serve.
Variable lower : str -> str.              (* strings.ToLower (Validators) *)

Definition calls_of_flow (l : list F.idp_call) : list call := map CIdp l.

(* SignIn + ProxyOAuthRedirect: AuthFlow.sign_in; the gate verdicts it is handed are [true]
   because the handler is only ever entered behind the gates of its route. One branch AuthFlow
   leaves out is reachable (AuthGates has it): url.ParseQuery of the redirect's own query fails
   in getAuthCodeRedirectURL -> 500, after authenticate has already re-saved the cookie. *)
Definition of_flow_sign_in (r : B.request) (query_ok : bool) (uri : str) (ran : option handler)
    (fr : F.response) : response :=
  let cs := calls_of_flow (F.r_calls fr) in
  match F.r_code fr with
  | Some s =>
      if query_ok then mk 302 (LCode uri s) (F.r_ops fr) [] cs BRedirect ran
      else err_with r 500 (F.r_ops fr) [] cs ran
  | None =>
      match F.r_body fr with
      | F.BodySignInPage => mk (F.r_status fr) LNone (F.r_ops fr) [] cs BSignInPage ran
      | _ => err_with r (F.r_status fr) (F.r_ops fr) [] cs ran
      end
  end.

Definition h_sign_in (d : deployment) (slug : str) (p : akind) (q : request) (o : oracles)
    (an : answers) (now_s : Z) : hfun := fun r fs =>
  let fm := B.form_of (fst (B.parse_form r fs)) in
  let uri := B.form_get k_redirect_uri fm in
  let ck := cookie_of d o (lookup slug (q_sess q)) in
  of_flow_sign_in r (o_query_ok o uri) uri (Some HSignIn)
    (F.sign_in lower (fcfg d) (fkind p) now_s (F.mkSI true true true true (B.form_get k_state fm)) ck
               (an_refresh an) (an_validate an)).

(* SignOut + SignOutPage, authenticator.go:366-455 — the part of SignOut.auth_sign_out behind
   its gates (proved equal to it there in AuthAll_proofs.v); reads req.Form without parsing *)
Definition h_sign_out (d : deployment) (slug : str) (p : akind) (q : request) (o : oracles)
    (an : answers) : hfun := fun r fs =>
  let fm := B.form_of fs in
  let uri := B.form_get k_redirect_uri fm in
  let sg := B.form_get k_sig fm in
  let ts := B.form_get k_ts fm in
  let ck := acookie_of (cookie_of d o (lookup slug (q_sess q))) in
  let redirect (so : list F.cookie_op) (cs : list call) :=
    mk 302 (LVerbatim uri) so [] cs BRedirect (Some HSignOut) in
  if str_eqb (B.rq_method r) B.m_get then
    match ck with
    | S.ACSealed s => mk 200 LNone [] [] [] (BSignOutPage (S.as_email s) uri sg ts false) (Some HSignOut)
    | _ => redirect [] []
    end
  else
    match ck with
    | S.ACNone => redirect [] []
    | S.ACJunk => redirect [F.OpClear] []
    | S.ACSealed s =>
        let tok := S.revoke_token (sprov p) s in
        if S.revoke_ok (sprov p) (an_revoke an) then redirect [F.OpClear] [CRevoke tok]
        else mk 500 LNone [] [] [CRevoke tok] (BSignOutPage (S.as_email s) uri sg ts true) (Some HSignOut)
    end.

(* OAuthStart: AuthFlow.oauth_start with the three verdicts computed by AuthGates' functions on
   url.Parse(x).String() of the outer and the nested redirect_uri (library oracle) *)
Definition start_request_of (d : deployment) (o : oracles) (now_ns : Z) (r : B.request) : F.start_request :=
  let raw := B.form_get k_redirect_uri (B.url_query r) in
  match o_parse_string o raw with
  | None => F.mkST true false false false []
  | Some a =>
      let '(nraw, nsig, nts) := o_nested o raw in
      let outer_ok := G.valid_redirect_uri a (root_domains d) in
      match o_parse_string o nraw with
      | None => F.mkST true outer_ok false false a
      | Some b =>
          F.mkST true outer_ok (G.valid_redirect_uri b (root_domains d))
                 (G.valid_signature now_ns b (sigval_of o nsig) nts (d_client_secret d)) a
      end
  end.

Definition of_flow_start (r : B.request) (ran : option handler) (sr : F.start_response) : response :=
  let co := F.start_set_cookies sr in
  match F.sr_state sr with
  | Some st => mk 302 (LIdP st) [] co [] BRedirect ran
  | None => err_with r (F.sr_status sr) [] co [] ran
  end.

Definition h_start (d : deployment) (o : oracles) (an : answers) (now_ns : Z) : hfun := fun r fs =>
  of_flow_start r (Some HStart) (F.oauth_start (an_nonce an) (start_request_of d o now_ns r)).

(* getOAuthCallback + OAuthCallback: AuthFlow.oauth_callback with the state decoded by
   SignOut's concrete base64.URLEncoding decoder, the redirect re-validated by AuthGates'
   concrete function, and the provider's Redeem computed by IdToken's model *)
Definition cb_request_of (d : deployment) (slug : str) (q : request) (fm : B.form) : F.cb_request :=
  F.mkCB true (B.form_get k_error fm) (B.form_get B.k_code fm)
         (S.b64_decode (B.form_get k_state fm)) (lookup slug (q_csrf q))
         (fun u => G.valid_redirect_uri u (root_domains d)).

Definition of_flow_callback (r : B.request) (ran : option handler) (cr : F.cb_response) : response :=
  let cs := calls_of_flow (F.cr_calls cr) in
  let co := F.callback_set_cookies cr in
  match F.cr_saved cr, F.cr_location cr with
  | Some s, Some redirect => mk 302 (LVerbatim redirect) [F.OpSet s] co cs BRedirect ran
  | _, _ => err_with r (F.cr_status cr) [] co cs ran
  end.

Definition h_callback (d : deployment) (slug : str) (p : akind) (q : request) (an : answers)
    (now_s : Z) : hfun := fun r fs =>
  let '(fs', e) := B.parse_form r fs in
  if e then err_with r 500 [] [] [] (Some HCallback)
  else
    let rq := cb_request_of d slug q (B.form_of fs') in
    of_flow_callback r (Some HCallback) (F.oauth_callback lower (fcfg d) now_s rq (rd_of p an (F.cb_code rq))).

(* Redeem / Refresh / GetProfile / ValidateToken: AuthBack.run_handler *)
Definition call_of_back (c : B.pcall) : list call :=
  match c with
  | B.PRefresh tok => [CIdp (F.CallRefresh tok)]
  | B.PValidate tok => [CIdp (F.CallValidate tok)]
  | B.PGroups _ _ _ => []                   (* group lookups: C17; not an IdP token call *)
  end.

Definition has_field (b : B.body) : bool :=
  match B.b_access b, B.b_refresh b, B.b_email b, B.b_expires b, B.b_groups b with
  | None, None, None, None, None => false
  | _, _, _, _, _ => true
  end.

(* how a back-channel handler writes: JSON document on success, http.Error (text/plain) on its
   own 400/401, ErrorResponse for provider errors of Refresh / GetProfile, bare status for
   ValidateToken (authenticator.go:634-814) *)
Definition back_body (r : B.request) (h : B.handler) (rs : B.response) : body :=
  if has_field (B.rs_body rs) then BJson (B.rs_body rs)
  else match h with
       | B.HValidate => BEmpty
       | B.HRedeem => BPlain
       | B.HRefresh | B.HProfile =>
           match B.rs_calls rs with
           | [] => BPlain
           | _ => err_body r (B.rs_status rs)
           end
       end.

(* One effect AuthBack's response type has no room for: Redeem answers an EXPIRED code (one that
   does open under the auth-code key) with p.sessionStore.ClearSession — a clearing Set-Cookie for
   the browser's session cookie on a back-channel response (authenticator.go:666-674). *)
Definition redeem_clears (d : deployment) (e : B.env) (r : B.request) (fs : B.form_state) : bool :=
  let '(fs', err) := B.parse_form r fs in
  negb err &&
  match B.unseal e (d_code_key d) (B.form_get B.k_code (B.form_of fs')) with
  | Some s => ((B.s_refresh_dl s <? B.e_now e) || (B.s_lifetime_dl s <? B.e_now e))%Z
  | None => false
  end.

Definition of_back_handler (r : B.request) (h : B.handler) (clears : bool) (rs : B.response) : response :=
  mk (B.rs_status rs) LNone (if clears then [F.OpClear] else []) [] (flat_map call_of_back (B.rs_calls rs))
     (back_body r h rs) (Some (HBack h)).

Definition h_back (d : deployment) (p : akind) (o : oracles) (an : answers) (now_s : Z) (h : B.handler) : hfun :=
  fun r fs =>
    let e := benv d p o an now_s in
    of_back_handler r h (match h with B.HRedeem => redeem_clears d e r fs | _ => false end)
                    (B.run_handler (bcfg d) e h r fs).

(* ------------------------------------------------------------------------------------------ *)
(* the route table of newMux, authenticator.go:111-118, as data, in source order              *)

Record route := { rt_path : str; rt_methods : list str; rt_gates : list gate; rt_handler : handler }.

Definition all_routes : list route := [
  {| rt_path := p_start;      rt_methods := [B.m_get];           rt_gates := [];                                      rt_handler := HStart |};
  {| rt_path := p_sign_in;    rt_methods := [B.m_get];           rt_gates := [GClientID; GRedirectURI; GSignature];   rt_handler := HSignIn |};
  {| rt_path := p_sign_out;   rt_methods := [B.m_get; B.m_post]; rt_gates := [GRedirectURI; GSignature];              rt_handler := HSignOut |};
  {| rt_path := p_callback;   rt_methods := [B.m_get];           rt_gates := [];                                      rt_handler := HCallback |};
  {| rt_path := B.p_profile;  rt_methods := [B.m_get];           rt_gates := [GClientID; GClientSecret];              rt_handler := HBack B.HProfile |};
  {| rt_path := B.p_validate; rt_methods := [B.m_get];           rt_gates := [GClientID; GClientSecret];              rt_handler := HBack B.HValidate |};
  {| rt_path := B.p_redeem;   rt_methods := [B.m_post];          rt_gates := [GClientID; GClientSecret];              rt_handler := HBack B.HRedeem |};
  {| rt_path := B.p_refresh;  rt_methods := [B.m_post];          rt_gates := [GClientID; GClientSecret];              rt_handler := HBack B.HRefresh |}
].

Fixpoint find_route (p : str) (t : list route) : option route :=
  match t with
  | [] => None
  | rt :: t' => if str_eqb p (rt_path rt) then Some rt else find_route p t'
  end.

Definition apply_gate (d : deployment) (o : oracles) (now_ns : Z) (g : gate) (f : hfun) : hfun :=
  match g with
  | GClientID => gate_client_id d f
  | GClientSecret => gate_client_secret d f
  | GRedirectURI => gate_redirect_uri d f
  | GSignature => gate_signature d o now_ns f
  end.

(* gates listed outermost first *)
Definition wrap (d : deployment) (o : oracles) (now_ns : Z) (gs : list gate) (h : hfun) : hfun :=
  fold_right (apply_gate d o now_ns) h gs.

Definition run_handler (d : deployment) (slug : str) (p : akind) (q : request) (o : oracles)
    (an : answers) (now_ns : Z) (h : handler) : hfun :=
  let now_s := (now_ns / ns)%Z in
  match h with
  | HStart => h_start d o an now_ns
  | HSignIn => h_sign_in d slug p q o an now_s
  | HSignOut => h_sign_out d slug p q o an
  | HCallback => h_callback d slug p q an now_s
  | HBack bh => h_back d p o an now_s bh
  end.

Definition serve_route (d : deployment) (slug : str) (p : akind) (q : request) (o : oracles)
    (an : answers) (now_ns : Z) (rt : route) : hfun :=
  with_methods (rt_methods rt) (wrap d o now_ns (rt_gates rt) (run_handler d slug p q o an now_ns (rt_handler rt))).

(* one authenticator: setHeaders(serviceMux) on the stripped path. gorilla first answers 301
   when cleanPath differs (also for the empty path left by "/<slug>"), then matches the table. *)
Definition serve_auth (d : deployment) (slug : str) (p : akind) (q : request) (rest : str)
    (o : oracles) (an : answers) (now_ns : Z) : response :=
  let cp := ReqUri.clean_path rest in
  if negb (str_eqb cp rest) then mk 301 (LClean cp) [] [] [] BEmpty None
  else match find_route rest all_routes with
       | None => mk 404 LNone [] [] [] BPlain None
       | Some rt =>
           let r := inner q rest in
           serve_route d slug p q o an now_ns rt r (B.init_state (d_pre d) r)
       end.

(* mux.go:58 PathPrefix("/<slug>") is a pure string prefix; first registered provider wins *)
Fixpoint strip_prefix (p s : str) : option str :=
  match p, s with
  | [], _ => Some s
  | c :: p', c' :: s' => if N.eqb c c' then strip_prefix p' s' else None
  | _ :: _, [] => None
  end.

Fixpoint find_slug (path : str) (l : list (str * akind)) : option (str * akind * str) :=
  match l with
  | [] => None
  | (slug, k) :: l' =>
      match strip_prefix (c_slash :: slug) path with
      | Some rest => Some (slug, k, rest)
      | None => find_slug path l'
      end
  end.

(* NewAuthenticatorMux: /ping, host router, idpMux *)
Definition serve (d : deployment) (q : request) (o : oracles) (an : answers) (now_ns : Z) : response :=
  if str_eqb (q_path q) p_ping then outside 200 LNone BEmpty                       (* mux.go:91-99 *)
  else if negb (str_eqb (q_host q) (d_host d)) then outside 421 LNone BPlain       (* hostmux default route *)
  else
    let cp := ReqUri.clean_path (q_path q) in
    if negb (str_eqb cp (q_path q)) then outside 301 (LClean cp) BEmpty            (* gorilla clean-path *)
    else match find_slug (q_path q) (d_slugs d) with
         | Some (slug, k, rest) => serve_auth d slug k q rest o an now_ns
         | None =>
             if has_prefix (q_path q) p_static then outside (an_static an) LNone BStatic
             else if str_eqb (q_path q) p_robots then outside 200 LNone BRobots
             else outside 404 LNone BPlain
         end.

End Serve.

(* ------------------------------------------------------------------------------------------ *)
(* the route table in the Go SOURCE (Gen_AuthBackRoutes.auth_routes_src), read into [route]s   *)

Definition n_validateClientID : str := H.bs "validateClientID".
Definition n_validateClientSecret : str := H.bs "validateClientSecret".
Definition n_validateRedirectURI : str := H.bs "validateRedirectURI".
Definition n_validateSignature : str := H.bs "validateSignature".

Definition gate_of_name (n : str) : option gate :=
  if str_eqb n n_validateClientID then Some GClientID
  else if str_eqb n n_validateClientSecret then Some GClientSecret
  else if str_eqb n n_validateRedirectURI then Some GRedirectURI
  else if str_eqb n n_validateSignature then Some GSignature
  else None.

Definition handler_of_name (n : str) : option handler :=
  if str_eqb n (H.bs "OAuthStart") then Some HStart
  else if str_eqb n (H.bs "SignIn") then Some HSignIn
  else if str_eqb n (H.bs "SignOut") then Some HSignOut
  else if str_eqb n (H.bs "OAuthCallback") then Some HCallback
  else if str_eqb n (H.bs "GetProfile") then Some (HBack B.HProfile)
  else if str_eqb n (H.bs "ValidateToken") then Some (HBack B.HValidate)
  else if str_eqb n (H.bs "Redeem") then Some (HBack B.HRedeem)
  else if str_eqb n (H.bs "Refresh") then Some (HBack B.HRefresh)
  else None.

Fixpoint gates_of (ws : list str) : option (list gate) :=
  match ws with
  | [] => Some []
  | w :: ws' => match gate_of_name w, gates_of ws' with
                | Some g, Some gs => Some (g :: gs)
                | _, _ => None
                end
  end.

(* None: a route, middleware or handler the integration model does not know *)
Fixpoint translate_all (l : list (str * list str * list str * str)) : option (list route) :=
  match l with
  | [] => Some []
  | (pth, ms, ws, hn) :: l' =>
      match handler_of_name hn, gates_of ws, translate_all l' with
      | Some h, Some gs, Some rs =>
          Some ({| rt_path := pth; rt_methods := ms; rt_gates := gs; rt_handler := h |} :: rs)
      | _, _, _ => None
      end
  end.
