(* Signer.v — C12: request signing and the path of a signed request to the upstream.

   Model, function for function, of
     internal/proxy/request_signer.go:19-31,109-144 (mapRequestToHashInput), 169-194 (Sign), 196-211
     github.com/18F/hmacauth hmacauth.go: NewHmacAuth (canonical header names), StringToSign,
       requestSignature (body appended to the MAC input), SignRequest, AuthenticateRequest
     internal/proxy/oauthproxy.go:41-48,554-559 (client identity headers dropped), 754-765 (identity
       headers set by Authenticate)
     internal/proxy/reverse_proxy.go:107-129 (handler order), 137-163 (Director), 199-211 (signing
       handler: HMAC then RSA), 219-229 (singleJoiningSlash), 232-249 (deleteCookie)
     internal/proxy/options.go:52-79 (published certs: {key id: public key}), 203-221 (parseEnvironment)
     internal/proxy/proxy_config.go:213-230, 427-445 (per-upstream HMAC key: lookup, cleanWhiteSpace, generateHmacAuth)
     net/http/httputil/reverseproxy.go (go1.23.5) ServeHTTP + removeHopByHopHeaders + hopHeaders
     net/http transfer.go (go1.23.5): outgoingLength / shouldSendContentLength — the Content-Length
       header an upstream receives is recomputed from the body, never copied from the header map
     net/textproto CanonicalMIMEHeaderKey, TrimString.

   A request at a point of the chain is a record; http.Header is an association list from canonical
   keys to value lists (Go: map[string][]string; map order is never observable through the functions
   below, which only look keys up).  Cryptography is symbolic: hash, RSA signature, MAC and key id are
   free constructors (definitions, not axioms).  The three signature headers (Sso-Signature, kid,
   Gap-Signature) carry symbolic values and therefore live in three option fields of the record; the
   hop-by-hop removal treats them as the headers they are.

   Library behaviour entering as an explicit argument (oracle): Request.Cookies() + Cookie.String()
   (the list [parsed] of (name, serialised cookie) pairs for the request's Cookie lines).
   No proofs in this file. *)
From V Require Import Base.

(* ------------------------------------------------------------------ bytes and names *)
Definition lf : N := 10.
Definition comma : N := 44.
Definition is_empty {A} (l : list A) : bool := match l with [] => true | _ => false end.

Definition content_length : str := [67;111;110;116;101;110;116;45;76;101;110;103;116;104]. (* "Content-Length" *)
Definition content_md5 : str := [67;111;110;116;101;110;116;45;77;100;53]. (* "Content-Md5" *)
Definition content_type : str := [67;111;110;116;101;110;116;45;84;121;112;101]. (* "Content-Type" *)
Definition date_h : str := [68;97;116;101]. (* "Date" *)
Definition authorization : str := [65;117;116;104;111;114;105;122;97;116;105;111;110]. (* "Authorization" *)
Definition x_forwarded_user : str := [88;45;70;111;114;119;97;114;100;101;100;45;85;115;101;114]. (* "X-Forwarded-User" *)
Definition x_forwarded_email : str := [88;45;70;111;114;119;97;114;100;101;100;45;69;109;97;105;108]. (* "X-Forwarded-Email" *)
Definition x_forwarded_groups : str := [88;45;70;111;114;119;97;114;100;101;100;45;71;114;111;117;112;115]. (* "X-Forwarded-Groups" *)
Definition x_forwarded_access_token : str := [88;45;70;111;114;119;97;114;100;101;100;45;65;99;99;101;115;115;45;84;111;107;101;110]. (* "X-Forwarded-Access-Token" *)
Definition cookie_h : str := [67;111;111;107;105;101]. (* "Cookie" *)
Definition sso_signature : str := [83;115;111;45;83;105;103;110;97;116;117;114;101]. (* "Sso-Signature" *)
Definition kid_h : str := [75;105;100]. (* "Kid" = CanonicalMIMEHeaderKey("kid") *)
Definition gap_signature : str := [71;97;112;45;83;105;103;110;97;116;117;114;101]. (* "Gap-Signature" *)
Definition connection : str := [67;111;110;110;101;99;116;105;111;110]. (* "Connection" *)
Definition proxy_connection : str := [80;114;111;120;121;45;67;111;110;110;101;99;116;105;111;110]. (* "Proxy-Connection" *)
Definition keep_alive : str := [75;101;101;112;45;65;108;105;118;101]. (* "Keep-Alive" *)
Definition proxy_authenticate : str := [80;114;111;120;121;45;65;117;116;104;101;110;116;105;99;97;116;101]. (* "Proxy-Authenticate" *)
Definition proxy_authorization : str := [80;114;111;120;121;45;65;117;116;104;111;114;105;122;97;116;105;111;110]. (* "Proxy-Authorization" *)
Definition te_h : str := [84;101]. (* "Te" *)
Definition trailer : str := [84;114;97;105;108;101;114]. (* "Trailer" *)
Definition transfer_encoding : str := [84;114;97;110;115;102;101;114;45;69;110;99;111;100;105;110;103]. (* "Transfer-Encoding" *)
Definition upgrade_h : str := [85;112;103;114;97;100;101]. (* "Upgrade" *)
Definition user_agent : str := [85;115;101;114;45;65;103;101;110;116]. (* "User-Agent" *)
Definition x_forwarded_host : str := [88;45;70;111;114;119;97;114;100;101;100;45;72;111;115;116]. (* "X-Forwarded-Host" *)
Definition x_forwarded_for : str := [88;45;70;111;114;119;97;114;100;101;100;45;70;111;114]. (* "X-Forwarded-For" *)
Definition m_post : str := [80;79;83;84]. (* "POST" *)
Definition m_put : str := [80;85;84]. (* "PUT" *)
Definition m_patch : str := [80;65;84;67;72]. (* "PATCH" *)
Definition tok_trailers : str := [116;114;97;105;108;101;114;115]. (* "trailers" *)
Definition tok_upgrade : str := [117;112;103;114;97;100;101]. (* "upgrade" *)
Definition val_upgrade : str := [85;112;103;114;97;100;101]. (* "Upgrade" *)

(* The covered headers as documented (request_signer.go:19-31 and the doc comment of
   mapRequestToHashInput; docs/sso_config.md "Request Signing" points at the same list,
   SignatureHeaders in oauthproxy.go).  The lists actually used by the code are re-extracted from the
   source on every run into gen/Gen_Signer.v; props/C12.v proves them equal to this one. *)
Definition documented_covered : list str :=
  [content_length; content_md5; content_type; date_h; authorization;
   x_forwarded_user; x_forwarded_email; x_forwarded_groups; x_forwarded_access_token; cookie_h].

(* ------------------------------------------------------------------ http.Header *)
Definition headers := list (str * list str).

Fixpoint hfind (k : str) (h : headers) : option (list str) :=
  match h with
  | [] => None
  | (k', v) :: h' => if str_eqb k' k then Some v else hfind k h'
  end.
(* h[k]: nil when absent *)
Definition hvals (k : str) (h : headers) : list str :=
  match hfind k h with Some v => v | None => [] end.
Definition hdel (k : str) (h : headers) : headers :=
  filter (fun e => negb (str_eqb (fst e) k)) h.
Definition hset (k : str) (vs : list str) (h : headers) : headers := (k, vs) :: hdel k h.
Definition hadd (k : str) (v : str) (h : headers) : headers := hset k (hvals k h ++ [v]) h.
Definition hdel_all (ks : list str) (h : headers) : headers := fold_left (fun h k => hdel k h) ks h.

(* net/textproto validHeaderFieldByte: RFC 7230 token characters *)
Definition is_tchar (c : N) : bool :=
  ((48 <=? c) && (c <=? 57)) || ((65 <=? c) && (c <=? 90)) || ((97 <=? c) && (c <=? 122)) ||
  existsb (N.eqb c) [33;35;36;37;38;39;42;43;45;46;94;95;96;124;126].
Definition upper_byte (c : N) : N := if (97 <=? c) && (c <=? 122) then c - 32 else c.
Fixpoint cap (up : bool) (s : str) : str :=
  match s with
  | [] => []
  | c :: s' => (if up then upper_byte c else lower_byte c) :: cap (N.eqb c 45) s'
  end.
(* textproto.CanonicalMIMEHeaderKey: a string with a byte that is not a token character is returned
   unchanged; otherwise first letter and letters after '-' upper-cased, the rest lower-cased *)
Definition canonical_key (s : str) : str := if forallb is_tchar s then cap true s else s.

(* textproto.TrimString: ASCII space, tab, CR, LF on both ends *)
Definition is_space (c : N) : bool := N.eqb c 32 || N.eqb c 9 || N.eqb c 10 || N.eqb c 13.
Fixpoint trim_left (s : str) : str :=
  match s with c :: s' => if is_space c then trim_left s' else s | [] => [] end.
Definition trim (s : str) : str := rev (trim_left (rev (trim_left s))).

(* ------------------------------------------------------------------ symbolic cryptography *)
Inductive digest := Hash (m : str).                       (* SHA-256 *)
Inductive rsa_sig := RsaSig (sk : N) (d : digest).        (* RSA-PKCS1v15 under private key #sk *)
Inductive mac_tag := Mac (key : str) (m : str).           (* "sha256 " ++ base64(HMAC-SHA256(key, m)) *)
Inductive key_id := KeyId (pk : N).                       (* hex(SHA-256(PEM(PKCS1 public key #pk))) *)

Definition pub (sk : N) : N := sk.                        (* key pairs are named by one number *)
Definition digest_eqb (a b : digest) : bool := match a, b with Hash x, Hash y => str_eqb x y end.
Definition rsa_verify (pk : N) (d : digest) (s : rsa_sig) : bool :=
  match s with RsaSig sk d' => N.eqb (pub sk) pk && digest_eqb d d' end.
Definition mac_eqb (a b : mac_tag) : bool :=
  match a, b with Mac k m, Mac k' m' => str_eqb k k' && str_eqb m m' end.
Definition key_id_eqb (a b : key_id) : bool := match a, b with KeyId x, KeyId y => N.eqb x y end.

(* ------------------------------------------------------------------ requests *)
Record request := {
  r_method : str;
  r_host : str;
  r_headers : headers;
  r_path : str;                 (* URL.Path (decoded) *)
  r_rawquery : str;
  r_fragment : str;
  r_body : option str;          (* None = Go's nil Body *)
  r_chunked : bool;             (* Request.ContentLength = -1 (unknown length) *)
  r_clen : N;                   (* otherwise Request.ContentLength, as net/http parsed it from the Content-Length
                                   line (the server hands the handler exactly that many body bytes) *)
  r_sso_sig : option rsa_sig;   (* Sso-Signature *)
  r_kid : option key_id;        (* kid *)
  r_gap_sig : option mac_tag    (* Gap-Signature *)
}.

Definition with_headers (r : request) (h : headers) : request :=
  {| r_method := r_method r; r_host := r_host r; r_headers := h; r_path := r_path r;
     r_rawquery := r_rawquery r; r_fragment := r_fragment r; r_body := r_body r;
     r_chunked := r_chunked r; r_clen := r_clen r; r_sso_sig := r_sso_sig r; r_kid := r_kid r; r_gap_sig := r_gap_sig r |}.

Definition body_bytes (r : request) : str := match r_body r with Some b => b | None => [] end.

Record identity := { i_user : str; i_email : str; i_groups : list str; i_token : str }.

Record cfg := {
  c_signer : option N;          (* RequestSigner: private key name, None = no REQUESTSIGNER_KEY *)
  c_hmac : option str;          (* per-upstream shared key from SSO_CONFIG_<SERVICE>_SIGNING_KEY *)
  c_skip : bool;                (* skip_request_signing *)
  c_pass_token : bool;          (* pass_access_token *)
  c_inject : list (str * str);  (* inject_request_headers (a Go map: canonical keys distinct) *)
  c_cookie_name : str;
  c_preserve_host : bool;
  c_thost : str;                (* `to`: host *)
  c_tpath : str;                (* `to`: path ("" for a bare host) *)
  c_tquery : str                (* `to`: query ("" for a bare host) *)
}.

(* ------------------------------------------------------------------ canonical forms *)
(* removeEmpty, request_signer.go:203-211 *)
Definition remove_empty (l : list str) : list str := filter (fun s => negb (is_empty s)) l.

(* "<PATH>(?<QUERY>)(#FRAGMENT)" — identical in both signers *)
Definition url_part (r : request) : str :=
  r_path r ++ (if is_empty (r_rawquery r) then [] else 63 :: r_rawquery r)
           ++ (if is_empty (r_fragment r) then [] else 35 :: r_fragment r).

(* one entry per covered header whose non-empty values exist, request_signer.go:113-118 *)
Definition rsa_entry (r : request) (h : str) : str := join [comma] (remove_empty (hvals h (r_headers r))).
Definition rsa_header_entries (cov : list str) (r : request) : list str :=
  flat_map (fun h => let e := remove_empty (hvals h (r_headers r)) in
                     if is_empty e then [] else [join [comma] e]) cov.

(* mapRequestToHashInput, request_signer.go:109-144 *)
Definition canon_rsa (cov : list str) (r : request) : str :=
  join [lf] (rsa_header_entries cov r ++ [url_part r] ++
             match r_body r with Some b => [b] | None => [] end).

(* hmacauth StringToSign: method, one line per header (kept when empty), the URL line *)
Definition hmac_line (r : request) (h : str) : str := join [comma] (hvals h (r_headers r)).
Definition canon_hmac (covh : list str) (r : request) : str :=
  r_method r ++ [lf] ++ flat_map (fun h => hmac_line r h ++ [lf]) covh ++ url_part r ++ [lf].
(* requestSignature: h.Write(StringToSign); if req.Body != nil { h.Write(body) } *)
Definition mac_input (covh : list str) (r : request) : str := canon_hmac covh r ++ body_bytes r.
(* NewHmacAuth canonicalises the configured header names; the RSA signer uses its list verbatim *)
Definition hmac_names (sigheaders : list str) : list str := map canonical_key sigheaders.

(* ------------------------------------------------------------------ the chain *)
(* OAuthProxy.Proxy, oauthproxy.go:554-559: the identity headers (identityHeaders, oauthproxy.go:41-48)
   a client supplied are deleted before the whitelist branch, for every request *)
Definition identity_headers : list str :=
  [x_forwarded_user; x_forwarded_email; x_forwarded_groups; x_forwarded_access_token].
Definition scrub (r : request) : request := with_headers r (hdel_all identity_headers (r_headers r)).

(* Authenticate, oauthproxy.go:754-765: `for key, val := range InjectRequestHeaders { req.Header.Set(key, val) }`
   (Header.Set canonicalises the key), then the identity headers — so an injected identity header is
   overwritten, an injected Authorization / Date / Content-Type / Cookie replaces the client's. All of it
   happens before the handler chain, i.e. before the request is signed. *)
Definition inject_headers (inj : list (str * str)) (h : headers) : headers :=
  fold_left (fun h kv => hset (canonical_key (fst kv)) [snd kv] h) inj h.
Definition inject (c : cfg) (i : identity) (r : request) : request :=
  let h := inject_headers (c_inject c) (r_headers r) in
  let h := hset x_forwarded_user [i_user i] h in
  let h := if c_pass_token c && negb (is_empty (i_token i))
           then hset x_forwarded_access_token [i_token i] h else h in
  let h := hset x_forwarded_email [i_email i] h in
  let h := hset x_forwarded_groups [join [comma] (i_groups i)] h in
  with_headers r h.
(* [i] = None: a whitelisted (skip_auth_regex) request, which skips Authenticate (and with it the injection) *)
Definition inject_opt (c : cfg) (i : option identity) (r : request) : request :=
  match i with Some i => inject c i (scrub r) | None => scrub r end.

(* deleteCookie, reverse_proxy.go:232-249; [parsed] = (Name, String()) of req.Cookies() *)
Definition delete_cookie (parsed : list (str * str)) (name : str) (r : request) : request :=
  let keep := map snd (filter (fun c => negb (str_eqb (fst c) name)) parsed) in
  with_headers r (if is_empty keep then hdel cookie_h (r_headers r)
                  else hset cookie_h [join [59] keep] (r_headers r)).

(* hmacauth SignRequest: req.Header.Set("Gap-Signature", RequestSignature(req)) *)
Definition hmac_sign (covh : list str) (key : str) (r : request) : request :=
  {| r_method := r_method r; r_host := r_host r; r_headers := hdel gap_signature (r_headers r);
     r_path := r_path r; r_rawquery := r_rawquery r; r_fragment := r_fragment r;
     r_body := r_body r;   (* re-buffered: ioutil.ReadAll + NopCloser(bytes.NewBuffer) = identity on bytes *)
     r_chunked := r_chunked r; r_clen := r_clen r; r_sso_sig := r_sso_sig r; r_kid := r_kid r;
     r_gap_sig := Some (Mac key (mac_input covh r)) |}.

(* RequestSigner.Sign, request_signer.go:169-194 *)
Definition rsa_sign (cov : list str) (sk : N) (r : request) : request :=
  {| r_method := r_method r; r_host := r_host r;
     r_headers := hdel kid_h (hdel sso_signature (r_headers r));
     r_path := r_path r; r_rawquery := r_rawquery r; r_fragment := r_fragment r;
     r_body := r_body r;   (* re-buffered, as above *)
     r_chunked := r_chunked r; r_clen := r_clen r;
     r_sso_sig := Some (RsaSig sk (Hash (canon_rsa cov r)));
     r_kid := Some (KeyId (pub sk)); r_gap_sig := r_gap_sig r |}.

(* newSigningHandler, reverse_proxy.go:199-211 — present in the chain iff !SkipRequestSigning *)
Definition sign (cov covh : list str) (c : cfg) (r : request) : request :=
  if c_skip c then r else
  let r1 := match c_hmac c with Some k => hmac_sign covh k r | None => r end in
  match c_signer c with Some sk => rsa_sign cov sk r1 | None => r1 end.

(* singleJoiningSlash, reverse_proxy.go:219-229 *)
Definition single_joining_slash (a b : str) : str :=
  let aslash := has_suffix a [47] in
  let bslash := has_prefix b [47] in
  if aslash && bslash then a ++ tl b
  else if negb aslash && negb bslash then a ++ [47] ++ b
  else a ++ b.

(* Director.DirectorFunc, reverse_proxy.go:137-163 *)
Definition director (c : cfg) (r : request) : request :=
  let h := r_headers r in
  let h := match hfind user_agent h with Some _ => h | None => hset user_agent [[]] h end in
  let h := hadd x_forwarded_host (r_host r) h in
  {| r_method := r_method r;
     r_host := if c_preserve_host c then r_host r else c_thost c;
     r_headers := h;
     r_path := single_joining_slash (c_tpath c) (r_path r);
     r_rawquery := if is_empty (c_tquery c) || is_empty (r_rawquery r) then c_tquery c ++ r_rawquery r
                   else c_tquery c ++ [38] ++ r_rawquery r;
     r_fragment := r_fragment r; r_body := r_body r; r_chunked := r_chunked r; r_clen := r_clen r;
     r_sso_sig := r_sso_sig r; r_kid := r_kid r; r_gap_sig := r_gap_sig r |}.

(* httputil hopHeaders *)
Definition hop_headers : list str :=
  [connection; proxy_connection; keep_alive; proxy_authenticate; proxy_authorization;
   te_h; trailer; transfer_encoding; upgrade_h].

(* the tokens of the Connection header values: split on ',', trimmed, empty ones dropped *)
Definition hop_tokens (vals : list str) : list str :=
  flat_map (fun f => filter (fun t => negb (is_empty t)) (map trim (split_on comma f))) vals.
(* the keys removeHopByHopHeaders deletes: h.Del canonicalises each token *)
Definition hop_keys (h : headers) : list str :=
  map canonical_key (hop_tokens (hvals connection h)) ++ hop_headers.

(* httpguts.HeaderValuesContainsToken: case-insensitive token match *)
Definition contains_token (vals : list str) (tok : str) : bool :=
  existsb (fun t => str_eqb (lower_ascii t) tok) (hop_tokens vals).

(* ReverseProxy.ServeHTTP between Director and RoundTrip (go1.23.5, Director mode), step by step.
   [req_h] are the headers of the inbound request (Te is looked up there), [ip] the client address. *)
(* upgradeType *)
Definition upgrade_type (h0 : headers) : str :=
  if contains_token (hvals connection h0) tok_upgrade
  then match hvals upgrade_h h0 with v :: _ => v | [] => [] end else [].
(* removeHopByHopHeaders *)
Definition rp_step_hop (h0 : headers) : headers := hdel_all (hop_keys h0) h0.
(* Issue 21096: Te: trailers is re-added when the inbound request had it *)
Definition rp_step_te (req_h h : headers) : headers :=
  if contains_token (hvals te_h req_h) tok_trailers then hset te_h [tok_trailers] h else h.
(* protocol upgrades: Connection: Upgrade and Upgrade: <type> are re-added *)
Definition rp_step_upgrade (up : str) (h : headers) : headers :=
  if is_empty up then h else hset upgrade_h [up] (hset connection [val_upgrade] h).
(* X-Forwarded-For: prior values folded, client address appended *)
Definition rp_step_xff (ip : str) (h : headers) : headers :=
  let prior := hvals x_forwarded_for h in
  hset x_forwarded_for [if is_empty prior then ip else join [44;32] prior ++ [44;32] ++ ip] h.
(* an absent User-Agent is set to "" (so that the transport does not add its default) *)
Definition step_ua (h : headers) : headers :=
  match hfind user_agent h with Some _ => h | None => hset user_agent [[]] h end.
Definition rp_headers (ip : str) (req_h h0 : headers) : headers :=
  step_ua (rp_step_xff ip (rp_step_upgrade (upgrade_type h0) (rp_step_te req_h (rp_step_hop h0)))).

Definition rp_edits (ip : str) (req_h : headers) (r : request) : request :=
  let gone (k : str) := mem_str k (hop_keys (r_headers r)) in
  {| r_method := r_method r; r_host := r_host r; r_headers := rp_headers ip req_h (r_headers r);
     r_path := r_path r; r_rawquery := r_rawquery r; r_fragment := r_fragment r; r_body := r_body r;
     r_chunked := r_chunked r; r_clen := r_clen r;
     r_sso_sig := if gone sso_signature then None else r_sso_sig r;
     r_kid := if gone kid_h then None else r_kid r;
     r_gap_sig := if gone gap_signature then None else r_gap_sig r |}.

(* decimal rendering (strconv.FormatInt) *)
Fixpoint uint_digits (u : Decimal.uint) : str :=
  match u with
  | Decimal.Nil => []
  | Decimal.D0 u => 48 :: uint_digits u | Decimal.D1 u => 49 :: uint_digits u
  | Decimal.D2 u => 50 :: uint_digits u | Decimal.D3 u => 51 :: uint_digits u
  | Decimal.D4 u => 52 :: uint_digits u | Decimal.D5 u => 53 :: uint_digits u
  | Decimal.D6 u => 54 :: uint_digits u | Decimal.D7 u => 55 :: uint_digits u
  | Decimal.D8 u => 56 :: uint_digits u | Decimal.D9 u => 57 :: uint_digits u
  end.
Definition dec (n : N) : str := uint_digits (N.to_uint n).

(* The Content-Length line http.Transport writes (transfer.go: outgoingLength,
   shouldSendContentLength) for the request ReverseProxy hands it: chunked when the inbound length
   was unknown; the decimal Request.ContentLength when positive; "0" only for POST, PUT and PATCH.
   (Only the ContentLength FIELD is consulted, never the number of bytes in the body.) *)
Definition wire_content_length (r : request) : option str :=
  if r_chunked r then None
  else let n := r_clen r in
       if 0 <? n then Some (dec n)
       else if mem_str (r_method r) [m_post; m_put; m_patch] then Some [48] else None.

(* The wire and the upstream's parser: Content-Length recomputed; an empty User-Agent is not sent
   (only the first value is); the request-URI carries no fragment; the upstream's Body is never nil.
   (Accept-Encoding: gzip added by the transport and the Host line are not covered and not modelled.) *)
Definition wire_headers (r : request) : headers :=
  let h := hdel content_length (r_headers r) in
  let h := match wire_content_length r with Some v => hset content_length [v] h | None => h end in
  match hvals user_agent h with
  | v :: _ => if is_empty v then hdel user_agent h else hset user_agent [v] h
  | [] => hdel user_agent h
  end.
Definition wire (r : request) : request :=
  {| r_method := r_method r; r_host := r_host r; r_headers := wire_headers r; r_path := r_path r;
     r_rawquery := r_rawquery r; r_fragment := []; r_body := Some (body_bytes r);
     r_chunked := r_chunked r; r_clen := r_clen r; r_sso_sig := r_sso_sig r; r_kid := r_kid r; r_gap_sig := r_gap_sig r |}.

(* The protocol on the upstream connection. upstreamTransport.getTransport (reverse_proxy.go:48-71) builds
   an http.Transport with its own DialContext and TLSClientConfig and does not set ForceAttemptHTTP2;
   net/http then never negotiates HTTP/2, so http AND https upstreams (also ones that offer h2 by ALPN)
   are spoken to in HTTP/1.1 and [wire] above is the h1 wire. (Over h2 the client would split the
   Cookie header into one field per pair and the upstream's server re-join them with "; " — not the
   ";"-joined value deleteCookie built and both signers signed.) *)
Definition upstream_proto : str := [72;84;84;80;47;49;46;49]. (* "HTTP/1.1" *)

(* The request as it is when the signing handler runs, and as the upstream receives it.
   Handler order (reverse_proxy.go:107-129): deleteCookie -> sign (HMAC, then RSA) -> [timeout] ->
   ReverseProxy (Director, hop-by-hop removal, X-Forwarded-For) -> transport. *)
Definition at_sign_time (c : cfg) (parsed : list (str * str)) (i : option identity) (r0 : request) : request :=
  delete_cookie parsed (c_cookie_name c) (inject_opt c i r0).

Definition received (cov covh : list str) (c : cfg) (parsed : list (str * str)) (i : option identity)
           (ip : str) (r0 : request) : request :=
  let rs := at_sign_time c parsed i r0 in
  wire (rp_edits ip (r_headers rs) (director c (sign cov covh c rs))).

(* Attempts. upstreamTransport.RoundTrip (reverse_proxy.go:31-41) makes one http.Transport.RoundTrip per
   request and gives up on an error (the client gets 502); net/http itself re-sends a request only if it is
   replayable (no body, or GetBody) and the connection it went out on was a reused one that died. Whatever
   the number of attempts, each one that reaches the upstream is the SAME outgoing request: the body the
   signers buffered is never handed out twice (a second attempt needs no body or fails before the wire). *)
Definition attempts (n : nat) (cov covh : list str) (c : cfg) (parsed : list (str * str)) (i : option identity)
           (ip : str) (r0 : request) : list request :=
  repeat (received cov covh c parsed i ip r0) n.

(* ------------------------------------------------------------------ verification at the upstream *)
(* /oauth2/v1/certs: {key id: public key} (options.go:52-79) *)
Definition published_certs (c : cfg) : list (key_id * N) :=
  match c_signer c with Some sk => [(KeyId (pub sk), pub sk)] | None => [] end.
Fixpoint cert_lookup (k : key_id) (certs : list (key_id * N)) : option N :=
  match certs with
  | [] => None
  | (k', pk) :: t => if key_id_eqb k k' then Some pk else cert_lookup k t
  end.

(* None: no Sso-Signature; Some b: the signature verifies (or not) over the canonical form of THIS
   request under the published key named by its kid *)
Definition verify_rsa (cov : list str) (certs : list (key_id * N)) (r : request) : option bool :=
  match r_sso_sig r with
  | None => None
  | Some s => Some (match r_kid r with
                    | Some k => match cert_lookup k certs with
                                | Some pk => rsa_verify pk (Hash (canon_rsa cov r)) s
                                | None => false end
                    | None => false end)
  end.
Definition kid_published (certs : list (key_id * N)) (r : request) : bool :=
  match r_kid r with Some k => match cert_lookup k certs with Some _ => true | None => false end | None => false end.

(* hmacauth AuthenticateRequest result codes: 0 ResultNoSignature, 3 ResultMatch, 4 ResultMismatch *)
Definition verify_hmac (covh : list str) (key : str) (r : request) : N :=
  match r_gap_sig r with
  | None => 0
  | Some t => if mac_eqb t (Mac key (mac_input covh r)) then 3 else 4
  end.

(* ------------------------------------------------------------------ configuration of the HMAC key *)
(* options.go parseEnvironment: every SSO_CONFIG_<NAME>=<value> becomes (lower(<NAME>), value);
   [environ] lists (<NAME>, value) pairs. *)
Definition upper_ascii (s : str) : str := map upper_byte s.
Definition env_vars (environ : list (str * str)) : list (str * str) :=
  map (fun e => (lower_ascii (fst e), snd e)) environ.
Fixpoint env_lookup (k : str) (vars : list (str * str)) : option str :=
  match vars with [] => None | (k', v) :: t => if str_eqb k' k then Some v else env_lookup k t end.

(* cleanWhiteSpace, proxy_config.go:427-430: TrimSpace, then every run of white space becomes "_"
   (ASCII white space here; the generator uses no other) *)
Fixpoint collapse_ws (in_ws : bool) (s : str) : str :=
  match s with
  | [] => []
  | c :: s' => if is_space c then (if in_ws then collapse_ws true s' else 95 :: collapse_ws true s')
               else c :: collapse_ws false s'
  end.
Definition clean_ws (s : str) : str := collapse_ws false (trim s).
Definition signing_key_suffix : str := [95;115;105;103;110;105;110;103;95;107;101;121]. (* "_signing_key" *)

Inductive hmac_config := HmacOff | HmacOn (key : str) | HmacConfigError.

(* generateHmacAuth, proxy_config.go:432-445: exactly two ':'-separated components; the first must be a
   name hmacauth.DigestNameToCryptoHash accepts ([algs]: the lower-case names of the hashes linked
   into the binary — an oracle); the second is the key, byte for byte *)
Definition generate_hmac (algs : list str) (spec : str) : hmac_config :=
  match split_on 58 spec with
  | [a; secret] => if mem_str a algs then HmacOn secret else HmacConfigError
  | _ => HmacConfigError
  end.
(* loadServiceConfigs, proxy_config.go:213-230: the key is looked up under
   strings.ToLower(Service) ++ "_signing_key" with Service = cleanWhiteSpace(service) — lower-cased like
   the variable names since /repo c723740 (before that commit the name was used as written and a
   service name with an upper-case letter never found its key). ASCII case folding here. *)
Definition hmac_of_config (algs : list str) (service : str) (environ : list (str * str)) : hmac_config :=
  match env_lookup (lower_ascii (clean_ws service) ++ signing_key_suffix) (env_vars environ) with
  | None => HmacOff
  | Some spec => generate_hmac algs spec
  end.

(* ------------------------------------------------------------------ guards used by the theorems *)
(* Header names the chain writes or deletes on its own; a covered header among them could not survive *)
Definition chain_touched : list str :=
  hop_headers ++ [user_agent; x_forwarded_host; x_forwarded_for; sso_signature; kid_h; gap_signature].
Definition cov_ok (cov : list str) : bool := forallb (fun k => negb (mem_str k chain_touched)) cov.

(* no token of the Connection header names a covered header / a signature header *)
Definition conn_safe (protected : list str) (h : headers) : bool :=
  forallb (fun t => negb (mem_str (canonical_key t) protected)) (hop_tokens (hvals connection h)).
Definition sig_headers : list str := [sso_signature; kid_h; gap_signature].

(* the Content-Length header the signer sees is the one the transport will write *)
Definition cl_canonical (r : request) : bool :=
  strs_eqb (hvals content_length (r_headers r))
           (match wire_content_length r with Some v => [v] | None => [] end).
Definition bare_target (c : cfg) : bool :=
  (is_empty (c_tpath c) || str_eqb (c_tpath c) [47]) && is_empty (c_tquery c).
