(* Caches.v — the authenticator's group caches as one labelled transition system (C17).

   Modelled after the code that exists (pinned /repo):
     internal/pkg/groups/fillcache.go:39-176      FillCache  (Get / Update / RefreshLoop / Stop)
     internal/pkg/groups/localcache.go:26-91      LocalCache (get / set + purge timer / Purge)
     internal/auth/providers/group_cache.go:74-110 GroupCache.ValidateGroupMembership
     internal/auth/providers/google.go:354-389     GoogleProvider.ValidateGroupMembership
     internal/auth/providers/amazon_cognito.go:344-398 AmazonCognitoProvider.ValidateGroupMembership

   The directory (Google Admin SDK / Cognito IdP / Okta userinfo) is the environment: every
   answer it gives is carried by the event that consumes it and is recorded in the trace
   [w_dir] (newest first).  Every critical section of the Go code (one mutex hold) is one
   atomic transition; user callbacks (the fill function) run between two transitions
   ([UpdateBegin] ... [UpdateEnd]).  An event that no thread could perform in the current state
   (e.g. an [UpdateEnd] by a thread that is not inside a fill) is answered [ORefused] and
   changes nothing, so "every interleaving" is "every event list".

   No proofs in this file. *)
From V Require Import Base.

Definition comma : N := 44.

(* ---------- small library: association lists keyed by strings, multisets of strings ---------- *)

Fixpoint lookup {A} (k : str) (m : list (str * A)) : option A :=
  match m with
  | [] => None
  | (k', v) :: m' => if str_eqb k k' then Some v else lookup k m'
  end.

Fixpoint remove_key {A} (k : str) (m : list (str * A)) : list (str * A) :=
  match m with
  | [] => []
  | (k', v) :: m' => if str_eqb k k' then remove_key k m' else (k', v) :: remove_key k m'
  end.

(* Go: m[k] = v *)
Definition store {A} (k : str) (v : A) (m : list (str * A)) : list (str * A) := (k, v) :: remove_key k m.

(* Go: delete(set, x) on a map[string]struct{} represented as a list *)
Fixpoint remove_str (x : str) (l : list str) : list str :=
  match l with
  | [] => []
  | y :: l' => if str_eqb x y then remove_str x l' else y :: remove_str x l'
  end.

(* one goroutine of a multiset of goroutines goes away *)
Fixpoint remove_one (x : str) (l : list str) : list str :=
  match l with
  | [] => []
  | y :: l' => if str_eqb x y then l' else y :: remove_one x l'
  end.

Fixpoint count_str (x : str) (l : list str) : nat :=
  match l with
  | [] => 0%nat
  | y :: l' => if str_eqb x y then S (count_str x l') else count_str x l'
  end.

(* sort.Strings: ascending byte-wise lexicographic order (Go's < on strings) *)
Fixpoint str_leb (a b : str) : bool :=
  match a, b with
  | [], _ => true
  | _ :: _, [] => false
  | x :: a', y :: b' => if N.ltb x y then true else if N.eqb x y then str_leb a' b' else false
  end.

Fixpoint insert_sorted (x : str) (l : list str) : list str :=
  match l with
  | [] => [x]
  | y :: l' => if str_leb x y then x :: l else y :: insert_sorted x l'
  end.

Definition sort_strs (l : list str) : list str := fold_right insert_sorted [] l.

(* ---------- the directory ---------- *)

Inductive fill_ans :=
| FOk (members : list str)     (* ListMemberships succeeded *)
| FNotFound                    (* fill function returned groups.ErrGroupNotFound *)
| FErr.                        (* any other error *)

Inductive dir_ans :=
| DOk (groups : list str)
| DErr.

Inductive dir_ev :=
| DFill (g : str) (a : fill_ans)                       (* "who is in g?" *)
| DDirect (u : str) (asked : list str) (a : dir_ans).  (* "which of [asked] is u in?"  (Cognito/Okta: asked is informational) *)

(* ---------- FillCache (fillcache.go:39-53) ---------- *)

Record fc := {
  fc_cache : list (str * list str);   (* c.cache *)
  fc_inflight : list str;             (* c.inflight *)
  fc_loops : list str;                (* c.refreshLoopGroups *)
  fc_stopped : bool;                  (* c.stopCh closed *)
  (* ghost state: which goroutines exist. Never read by a transition that models Go code
     except to decide whether an event is enabled at all. *)
  fc_fillers : list (N * str);        (* thread t is inside c.fillFunc(g) *)
  fc_loopthreads : list str           (* one entry per live refresh-loop goroutine (multiset) *)
}.

Definition fc_init : fc :=
  {| fc_cache := []; fc_inflight := []; fc_loops := []; fc_stopped := false;
     fc_fillers := []; fc_loopthreads := [] |}.

Definition busy (t : N) (fl : list (N * str)) : bool := existsb (fun p => N.eqb (fst p) t) fl.
Definition filling (t : N) (g : str) (fl : list (N * str)) : bool :=
  existsb (fun p => N.eqb (fst p) t && str_eqb (snd p) g) fl.
Definition fillers_of (g : str) (fl : list (N * str)) : list (N * str) :=
  filter (fun p => str_eqb (snd p) g) fl.

(* LocalCache key (localcache.go:35-38) *)
Definition key := (str * str)%type.
Definition key_eqb (a b : key) : bool := str_eqb (fst a) (fst b) && str_eqb (snd a) (snd b).

Fixpoint klookup (k : key) (m : list (key * list str)) : option (list str) :=
  match m with
  | [] => None
  | (k', v) :: m' => if key_eqb k k' then Some v else klookup k m'
  end.
Fixpoint kremove (k : key) (m : list (key * list str)) : list (key * list str) :=
  match m with
  | [] => []
  | (k', v) :: m' => if key_eqb k k' then kremove k m' else (k', v) :: kremove k m'
  end.
Definition kstore (k : key) (v : list str) (m : list (key * list str)) := (k, v) :: kremove k m.
Fixpoint kmem (k : key) (l : list key) : bool :=
  match l with [] => false | y :: l' => key_eqb k y || kmem k l' end.
Fixpoint kremove_one (k : key) (l : list key) : list key :=
  match l with [] => [] | y :: l' => if key_eqb k y then l' else y :: kremove_one k l' end.

Record world := {
  w_fc : fc;
  w_lc : list (key * list str);   (* LocalCache.localCacheData *)
  w_timers : list key;            (* pending per-entry purge goroutines (localcache.go:62-67) *)
  w_dir : list dir_ev             (* everything the directory has said, newest first *)
}.

Definition w_init : world := {| w_fc := fc_init; w_lc := []; w_timers := []; w_dir := [] |}.

(* ---------- events and outputs ---------- *)

Inductive event :=
| UpdateBegin (t : N) (g : str)               (* Update, first critical section (fillcache.go:81-88) *)
| UpdateEnd (t : N) (g : str) (a : fill_ans)  (* fill function returned [a]; second critical section (:91-109) *)
| LoopStart (g : str)                         (* RefreshLoop's critical section (:125-134) + goroutine spawn *)
| LoopExit (g : str)                          (* loop goroutine saw stopCh, deferred unregister (:140-144,:155-156) *)
| Stop                                        (* close(stopCh) (:173-175) *)
| Get (g : str)                               (* (:67-72) *)
| GoogleAsk (u : str) (gs : list str) (a : dir_ans)
      (* GoogleProvider.ValidateGroupMembership(u, gs, _); [a] = what CheckMemberships(gs,u) says if called *)
| CognitoAsk (prof : option str) (gs : list str) (a : dir_ans)
      (* AmazonCognitoProvider.ValidateGroupMembership(_, gs, token); [prof] = username the userInfo
         endpoint reports for the token (None: request failed / empty token); [a] = CheckMemberships(username) *)
| GCAsk (u : str) (tu : str) (gs : list str) (a : dir_ans)
      (* GroupCache.ValidateGroupMembership(u, gs, token) over a directory-backed inner provider;
         [tu] = the user the access token belongs to (Okta answers for the token, not for [u]) *)
| LCGet (k : key)
| LCPurge (k : key)                           (* explicit LocalCache.Purge *)
| LCTimer (k : key).                          (* one pending purge goroutine fires: <-time.After(ttl); Purge(key) *)

Inductive output :=
| ORefused                                    (* not enabled: no thread can take this step here *)
| OUnit
| OPanic                                      (* close of closed channel *)
| OBool (b : bool)                            (* UpdateBegin: true = proceeds to the fill function, false = Update returned false;
                                                 UpdateEnd: Update's return value; LoopStart: RefreshLoop's return value *)
| OGet (r : option (list str))
| OAns (r : option (list str)) (asked_dir : bool) (started : list str).
      (* r = None: error returned. asked_dir: the directory was consulted directly in this call.
         started: groups for which this call started a refresh loop, in order. *)

Definition is_ok (a : fill_ans) : bool := match a with FOk _ => true | _ => false end.

(* ---------- FillCache transitions ---------- *)

Definition set_cache (s : fc) c := {| fc_cache := c; fc_inflight := fc_inflight s; fc_loops := fc_loops s;
  fc_stopped := fc_stopped s; fc_fillers := fc_fillers s; fc_loopthreads := fc_loopthreads s |}.

(* fillcache.go:81-88 *)
Definition update_begin (s : fc) (t : N) (g : str) : fc * output :=
  if busy t (fc_fillers s) then (s, ORefused)
  else if mem_str g (fc_inflight s) then (s, OBool false)
  else ({| fc_cache := fc_cache s; fc_inflight := g :: fc_inflight s; fc_loops := fc_loops s;
           fc_stopped := fc_stopped s; fc_fillers := (t, g) :: fc_fillers s;
           fc_loopthreads := fc_loopthreads s |}, OBool true).

(* fillcache.go:91-109 *)
Definition update_end (s : fc) (t : N) (g : str) (a : fill_ans) : fc * output :=
  if filling t g (fc_fillers s) then
    let cache' := match a with
                  | FOk ms => store g ms (fc_cache s)
                  | FNotFound => remove_key g (fc_cache s)
                  | FErr => fc_cache s
                  end in
    ({| fc_cache := cache'; fc_inflight := remove_str g (fc_inflight s); fc_loops := fc_loops s;
        fc_stopped := fc_stopped s;
        fc_fillers := filter (fun p => negb (N.eqb (fst p) t)) (fc_fillers s);
        fc_loopthreads := fc_loopthreads s |}, OBool (is_ok a))
  else (s, ORefused).

(* fillcache.go:125-134 *)
Definition loop_start (s : fc) (g : str) : fc * bool :=
  if mem_str g (fc_loops s) then (s, false)
  else ({| fc_cache := fc_cache s; fc_inflight := fc_inflight s; fc_loops := g :: fc_loops s;
           fc_stopped := fc_stopped s; fc_fillers := fc_fillers s;
           fc_loopthreads := g :: fc_loopthreads s |}, true).

(* fillcache.go:140-144 reached through :155-156 only *)
Definition loop_exit (s : fc) (g : str) : fc * output :=
  if fc_stopped s && mem_str g (fc_loopthreads s) then
    ({| fc_cache := fc_cache s; fc_inflight := fc_inflight s; fc_loops := remove_str g (fc_loops s);
        fc_stopped := fc_stopped s; fc_fillers := fc_fillers s;
        fc_loopthreads := remove_one g (fc_loopthreads s) |}, OUnit)
  else (s, ORefused).

Definition stop (s : fc) : fc * output :=
  if fc_stopped s then (s, OPanic)
  else ({| fc_cache := fc_cache s; fc_inflight := fc_inflight s; fc_loops := fc_loops s;
           fc_stopped := true; fc_fillers := fc_fillers s; fc_loopthreads := fc_loopthreads s |}, OUnit).

(* the per-group scan shared by google.go:368-380 and amazon_cognito.go:367-379:
   returns the state (loops possibly started), the groups matched from cached sets,
   whether some set was missing, and the groups for which a loop was started *)
Fixpoint scan (u : str) (gs : list str) (s : fc) : fc * list str * bool * list str :=
  match gs with
  | [] => (s, [], false, [])
  | g :: gs' =>
      match lookup g (fc_cache s) with
      | None =>
          let '(s1, started) := loop_start s g in
          let '(s2, m, _, st) := scan u gs' s1 in
          (s2, m, true, if started then g :: st else st)
      | Some ms =>
          let '(s2, m, d, st) := scan u gs' s in
          (s2, if mem_str u ms then g :: m else m, d, st)
      end
  end.

(* ---------- one step of the whole world ---------- *)

Definition with_fc (w : world) (s : fc) : world :=
  {| w_fc := s; w_lc := w_lc w; w_timers := w_timers w; w_dir := w_dir w |}.
Definition with_fc_dir (w : world) (s : fc) (d : dir_ev) : world :=
  {| w_fc := s; w_lc := w_lc w; w_timers := w_timers w; w_dir := d :: w_dir w |}.

Definition is_nil {A} (l : list A) : bool := match l with [] => true | _ => false end.

Definition gc_key (u : str) (gs : list str) : key := (u, join [comma] (sort_strs gs)).

Definition step (w : world) (e : event) : world * output :=
  match e with
  | UpdateBegin t g => let '(s, o) := update_begin (w_fc w) t g in (with_fc w s, o)
  | UpdateEnd t g a =>
      let '(s, o) := update_end (w_fc w) t g a in
      match o with
      | ORefused => (w, ORefused)
      | _ => (with_fc_dir w s (DFill g a), o)
      end
  | LoopStart g => let '(s, b) := loop_start (w_fc w) g in (with_fc w s, OBool b)
  | LoopExit g => let '(s, o) := loop_exit (w_fc w) g in (with_fc w s, o)
  | Stop => let '(s, o) := stop (w_fc w) in (with_fc w s, o)
  | Get g => (w, OGet (lookup g (fc_cache (w_fc w))))
  | GoogleAsk u gs a =>
      (* google.go:354-389 *)
      if is_nil gs then (w, OAns (Some []) false [])
      else
        let '(s, m, d, st) := scan u gs (w_fc w) in
        if d then (with_fc_dir w s (DDirect u gs a),
                   OAns (match a with DOk r => Some r | DErr => None end) true st)
        else (with_fc w s, OAns (Some m) false st)
  | CognitoAsk prof gs a =>
      (* amazon_cognito.go:344-398 *)
      if is_nil gs then (w, OAns (Some []) false [])
      else match prof with
           | None => (w, OAns None false [])
           | Some u =>
               if is_nil u then (w, OAns None false [])
               else
                 let '(s, m, d, st) := scan u gs (w_fc w) in
                 if d then (with_fc_dir w s (DDirect u gs a),
                            OAns (match a with
                                  | DOk r => Some (m ++ filter (fun g => mem_str g r) gs)
                                  | DErr => None
                                  end) true st)
                 else (with_fc w s, OAns (Some m) false st)
           end
  | GCAsk u tu gs a =>
      (* group_cache.go:74-110; sort.Strings sorts the caller's slice in place, so the inner
         provider is asked about the sorted list *)
      let sgs := sort_strs gs in
      let k := gc_key u gs in
      match klookup k (w_lc w) with
      | Some r => (w, OAns (Some r) false [])
      | None =>
          match a with
          | DErr => ({| w_fc := w_fc w; w_lc := w_lc w; w_timers := w_timers w;
                        w_dir := DDirect tu sgs a :: w_dir w |}, OAns None true [])
          | DOk r => ({| w_fc := w_fc w; w_lc := kstore k r (w_lc w); w_timers := k :: w_timers w;
                         w_dir := DDirect tu sgs a :: w_dir w |}, OAns (Some r) true [])
          end
      end
  | LCGet k => (w, OGet (klookup k (w_lc w)))
  | LCPurge k => ({| w_fc := w_fc w; w_lc := kremove k (w_lc w); w_timers := w_timers w; w_dir := w_dir w |}, OUnit)
  | LCTimer k =>
      if kmem k (w_timers w) then
        ({| w_fc := w_fc w; w_lc := kremove k (w_lc w); w_timers := kremove_one k (w_timers w);
            w_dir := w_dir w |}, OUnit)
      else (w, ORefused)
  end.

(* run a schedule; the log pairs every event with its output and the world after it *)
Fixpoint run (w : world) (evs : list event) : world * list (event * output * world) :=
  match evs with
  | [] => (w, [])
  | e :: evs' =>
      let '(w1, o) := step w e in
      let '(w2, log) := run w1 evs' in
      (w2, (e, o, w1) :: log)
  end.

Definition exec (w : world) (evs : list event) : world := fold_left (fun w e => fst (step w e)) evs w.
