(* Html.v — model for C20: html/template escapers on bytes, a template AST (regenerated from
   the Go source into gen/Gen_Templates.v), the slice of text/template's evaluator these pages
   use, an HTML tokenizer (the subset of the WHATWG tokenizer / html/template's context state
   machine these pages need) and a context walker built on that tokenizer.

   Go code followed:
     GOROOT/src/html/template/html.go:48-139   htmlEscaper / attrEscaper / rcdataEscaper,
                                               htmlReplacementTable, htmlReplacer (go1.23.5)
     GOROOT/src/html/template/escape.go        escapeAction: which escaper each context gets
     GOROOT/src/text/template/exec.go, funcs.go  if / range / template / len / index / eq ne gt
     /repo/internal/proxy/templates.go:7-126, /repo/internal/pkg/templates/templates.go:23-133
   No proofs in this file. *)
From V Require Import Base.
From Coq Require Import Decimal.
Open Scope N_scope.

(* ------------------------------------------------------------------------------------------ *)
(** * 1. Escapers (html.go) *)

(* htmlReplacementTable (html.go:56-71): NUL -> U+FFFD (bytes EF BF BD), double quote -> &#34;,
   ampersand -> &amp;, apostrophe -> &#39;, plus -> &#43;, less-than -> &lt;, greater-than -> &gt;.
   htmlReplacer walks the string rune by rune (utf8.DecodeRuneInString) and replaces a rune r
   only when r < len(table) = 63; such a rune is always a single byte < 63, every byte of a
   multi-byte sequence is >= 128 and an invalid byte decodes to U+FFFD with width 1 and is
   copied through unchanged (badRunes = true: no further rewriting). On bytes the function is
   therefore exactly this byte-wise map. *)
Definition html_repl (c : N) : option str :=
  if c =? 0 then Some [239;191;189]
  else if c =? 34 then Some [38;35;51;52;59]       (* &#34; *)
  else if c =? 38 then Some [38;97;109;112;59]     (* &amp; *)
  else if c =? 39 then Some [38;35;51;57;59]       (* &#39; *)
  else if c =? 43 then Some [38;35;52;51;59]       (* &#43; *)
  else if c =? 60 then Some [38;108;116;59]        (* &lt; *)
  else if c =? 62 then Some [38;103;116;59]        (* &gt; *)
  else None.

Fixpoint html_replace (s : str) : str :=
  match s with
  | [] => []
  | c :: r => match html_repl c with
              | Some e => e ++ html_replace r
              | None => c :: html_replace r
              end
  end.

(* For plain (non template.HTML) values the three escapers use the same table (html.go:27-55). *)
Definition html_escape (s : str) : str := html_replace s.    (* htmlEscaper: text nodes *)
Definition attr_escape (s : str) : str := html_replace s.    (* attrEscaper: quoted attribute values *)
Definition rcdata_escape (s : str) : str := html_replace s.  (* rcdataEscaper: <title>, <textarea> *)

(* The decoder a browser applies to the character references the escaper emits (used only to
   state that escaping is lossless: the text the user sees is the text that was supplied). *)
Definition ent3 (a b c : N) : option N :=
  if (a =? 108) && (b =? 116) && (c =? 59) then Some 60          (* lt; *)
  else if (a =? 103) && (b =? 116) && (c =? 59) then Some 62     (* gt; *)
  else None.
Definition ent4 (a b c d : N) : option N :=
  if (a =? 35) && (b =? 51) && (c =? 52) && (d =? 59) then Some 34        (* #34; *)
  else if (a =? 97) && (b =? 109) && (c =? 112) && (d =? 59) then Some 38 (* amp; *)
  else if (a =? 35) && (b =? 51) && (c =? 57) && (d =? 59) then Some 39   (* #39; *)
  else if (a =? 35) && (b =? 52) && (c =? 51) && (d =? 59) then Some 43   (* #43; *)
  else None.

Fixpoint html_unescape (s : str) : str :=
  match s with
  | [] => []
  | c :: r =>
      if c =? 38 then
        match r with
        | a :: b :: c3 :: r3 =>
            match ent3 a b c3 with
            | Some x => x :: html_unescape r3
            | None =>
                match r3 with
                | d :: r4 => match ent4 a b c3 d with
                             | Some x => x :: html_unescape r4
                             | None => c :: html_unescape r
                             end
                | [] => c :: html_unescape r
                end
            end
        | _ => c :: html_unescape r
        end
      else c :: html_unescape r
  end.

(* NUL is the one byte the escaper does not preserve: it becomes U+FFFD. *)
Fixpoint nul_to_fffd (s : str) : str :=
  match s with
  | [] => []
  | c :: r => if c =? 0 then 239 :: 191 :: 189 :: nul_to_fffd r else c :: nul_to_fffd r
  end.

(* "every '&' of the output begins one of the emitted references" *)
Definition entity_tails : list str :=
  [[35;51;52;59]; [97;109;112;59]; [35;51;57;59]; [35;52;51;59]; [108;116;59]; [103;116;59]].
Fixpoint amp_ok (s : str) : bool :=
  match s with
  | [] => true
  | c :: r => (if c =? 38 then existsb (has_prefix r) entity_tails else true) && amp_ok r
  end.

Definition is_special (c : N) : bool :=
  (c =? 0) || (c =? 34) || (c =? 39) || (c =? 60) || (c =? 62).
Definition no_specials (s : str) : bool := forallb (fun c => negb (is_special c)) s.

(* ------------------------------------------------------------------------------------------ *)
(** * 2. Template AST (text/template/parse nodes that occur) *)

Inductive expr :=
| EDot                          (* .            *)
| EField (f : str)              (* .Field       *)
| EVar (v : str)                (* $v           *)
| ENum (n : N)                  (* 403          *)
| EStr (s : str)                (* "@*"         *)
| ELen (e : expr)               (* len e        *)
| EIndex (e i : expr)           (* index e i    *)
| EEq (a b : expr)              (* eq a b       *)
| ENe (a b : expr)              (* ne a b       *)
| EGt (a b : expr).             (* gt a b       *)

Inductive node :=
| NText (s : str)
| NOut (e : expr)                                   (* {{e}}: escaped according to context *)
| NIf (c : expr) (t e : list node)                  (* {{if c}}t{{else}}e{{end}} *)
| NRange (ivar evar : str) (e : expr) (body : list node)
| NCall (name : str) (arg : option expr).           (* {{template "name" arg}} *)

(* ------------------------------------------------------------------------------------------ *)
(** * 3. Evaluation (text/template exec.go) — yields static text and holes *)

Inductive value := VStr (s : str) | VInt (n : N) | VBool (b : bool) | VList (l : list str).
Inductive dotv := DNil | DVal (v : value) | DRec (fields : list (str * value)).
Record env := { e_dot : dotv; e_vars : list (str * value) }.

Fixpoint lookup {A} (k : str) (t : list (str * A)) : option A :=
  match t with [] => None | (a, b) :: t' => if str_eqb k a then Some b else lookup k t' end.

(* basicKind comparison of funcs.go eq: same kind required *)
Definition value_eq (a b : value) : option bool :=
  match a, b with
  | VStr x, VStr y => Some (str_eqb x y)
  | VInt x, VInt y => Some (x =? y)
  | VBool x, VBool y => Some (Bool.eqb x y)
  | _, _ => None
  end.

Fixpoint eval (en : env) (e : expr) : option value :=
  match e with
  | EDot => match e_dot en with DVal v => Some v | _ => None end
  | EField f => match e_dot en with DRec fs => lookup f fs | _ => None end
  | EVar v => lookup v (e_vars en)
  | ENum n => Some (VInt n)
  | EStr s => Some (VStr s)
  | ELen a => match eval en a with
              | Some (VStr s) => Some (VInt (N.of_nat (length s)))
              | Some (VList l) => Some (VInt (N.of_nat (length l)))
              | _ => None
              end
  | EIndex a i => match eval en a, eval en i with
                  | Some (VList l), Some (VInt n) =>
                      match nth_error l (N.to_nat n) with Some x => Some (VStr x) | None => None end
                  | _, _ => None
                  end
  | EEq a b => match eval en a, eval en b with
               | Some x, Some y => match value_eq x y with Some r => Some (VBool r) | None => None end
               | _, _ => None
               end
  | ENe a b => match eval en a, eval en b with
               | Some x, Some y => match value_eq x y with Some r => Some (VBool (negb r)) | None => None end
               | _, _ => None
               end
  | EGt a b => match eval en a, eval en b with
               | Some (VInt x), Some (VInt y) => Some (VBool (y <? x))
               | _, _ => None
               end
  end.

(* exec.go isTrue *)
Definition truth (v : value) : bool :=
  match v with
  | VStr s => match s with [] => false | _ => true end
  | VInt n => negb (n =? 0)
  | VBool b => b
  | VList l => match l with [] => false | _ => true end
  end.

(* fmt.Sprint of an int / bool; a list is never printed by these pages (None = not modelled) *)
Fixpoint uint_digits (u : Decimal.uint) : str :=
  match u with
  | Decimal.Nil => []
  | Decimal.D0 r => 48 :: uint_digits r | Decimal.D1 r => 49 :: uint_digits r
  | Decimal.D2 r => 50 :: uint_digits r | Decimal.D3 r => 51 :: uint_digits r
  | Decimal.D4 r => 52 :: uint_digits r | Decimal.D5 r => 53 :: uint_digits r
  | Decimal.D6 r => 54 :: uint_digits r | Decimal.D7 r => 55 :: uint_digits r
  | Decimal.D8 r => 56 :: uint_digits r | Decimal.D9 r => 57 :: uint_digits r
  end.
Definition decimal (n : N) : str := uint_digits (N.to_uint n).

Definition to_text (v : value) : option str :=
  match v with
  | VStr s => Some s
  | VInt n => Some (decimal n)
  | VBool true => Some [116;114;117;101]
  | VBool false => Some [102;97;108;115;101]
  | VList _ => None
  end.

(* A rendered page before escaping: static template text and holes carrying the raw value. *)
Inductive piece := PText (s : str) | PHole (v : str).

Definition bind_var (k : str) (v : value) (vars : list (str * value)) : list (str * value) :=
  match k with [] => vars | _ => (k, v) :: vars end.

Section Expand.
  (* how a {{template}} call is expanded (closed by fuel below) *)
  Variable call : str -> dotv -> option (list piece).

  Fixpoint expand_node (n : node) (en : env) {struct n} : option (list piece) :=
    let expand_list :=
      fix el (ns : list node) (en : env) {struct ns} : option (list piece) :=
        match ns with
        | [] => Some []
        | x :: r => match expand_node x en with
                    | Some a => match el r en with Some b => Some (a ++ b) | None => None end
                    | None => None
                    end
        end in
    match n with
    | NText s => Some [PText s]
    | NOut e => match eval en e with
                | Some v => match to_text v with Some t => Some [PHole t] | None => None end
                | None => None
                end
    | NIf c t e => match eval en c with
                   | Some v => if truth v then expand_list t en else expand_list e en
                   | None => None
                   end
    | NRange iv ev e body =>
        match eval en e with
        | Some (VList l) =>
            (fix loop (i : N) (l : list str) {struct l} : option (list piece) :=
               match l with
               | [] => Some []
               | x :: r =>
                   let en' := {| e_dot := DVal (VStr x);
                                 e_vars := bind_var ev (VStr x) (bind_var iv (VInt i) (e_vars en)) |} in
                   match expand_list body en' with
                   | Some a => match loop (i + 1) r with Some b => Some (a ++ b) | None => None end
                   | None => None
                   end
               end) 0 l
        | _ => None
        end
    | NCall name arg =>
        match arg with
        | None => call name DNil
        | Some EDot => call name (e_dot en)
        | Some a => match eval en a with Some v => call name (DVal v) | None => None end
        end
    end.

  Fixpoint expand_list (ns : list node) (en : env) {struct ns} : option (list piece) :=
    match ns with
    | [] => Some []
    | x :: r => match expand_node x en with
                | Some a => match expand_list r en with Some b => Some (a ++ b) | None => None end
                | None => None
                end
    end.
End Expand.

Definition templates := list (str * list node).

(* text/template refuses recursion deeper than 100000; the fuel only has to exceed the depth
   of the (acyclic) call graph of the templates at hand *)
Fixpoint expand_call (fuel : nat) (tpls : templates) (name : str) (d : dotv) : option (list piece) :=
  match fuel with
  | O => None
  | S f => match lookup name tpls with
           | Some body => expand_list (expand_call f tpls) body {| e_dot := d; e_vars := [] |}
           | None => None
           end
  end.

Definition call_fuel (tpls : templates) : nat := S (length tpls).

Definition expand_page (tpls : templates) (name : str) (data : list (str * value)) : option (list piece) :=
  expand_call (call_fuel tpls) tpls name (DRec data).

Fixpoint render_pieces (ps : list piece) : str :=
  match ps with
  | [] => []
  | PText s :: r => s ++ render_pieces r
  | PHole v :: r => html_replace v ++ render_pieces r
  end.

(* ExecuteTemplate(w, name, data) for templates whose placeholders all sit in modelled-safe
   contexts (section 5; theorem C20_contexts_safe) *)
Definition render_page (tpls : templates) (name : str) (data : list (str * value)) : option str :=
  match expand_page tpls name data with Some ps => Some (render_pieces ps) | None => None end.

(* ------------------------------------------------------------------------------------------ *)
(** * 4. HTML tokenizer (WHATWG tokenizer states that matter for structure) *)

Definition is_ws (c : N) : bool := (c =? 32) || (c =? 9) || (c =? 10) || (c =? 12) || (c =? 13).
Definition is_alpha (c : N) : bool := ((65 <=? c) && (c <=? 90)) || ((97 <=? c) && (c <=? 122)).

Inductive rkind := RcData | RawText.

Inductive tstate :=
| SData
| SLt                                            (* after '<' *)
| SEndOpen                                       (* after "</" *)
| STagName (close : bool) (name : str)
| SBeforeAttr (close : bool) (name : str)
| SAttrName (close : bool) (name : str) (an : str)
| SAfterAttrName (close : bool) (name : str) (an : str)
| SBeforeVal (close : bool) (name : str) (an : str)
| SValDq (close : bool) (name : str) (an : str)
| SValSq (close : bool) (name : str) (an : str)
| SValUnq (close : bool) (name : str) (an : str)
| SAfterVal (close : bool) (name : str)
| SSelfClose (close : bool) (name : str)
| SBang (dashes : N)                             (* after "<!" (0) or "<!-" (1) *)
| SDecl                                          (* doctype / bogus comment: up to '>' *)
| SComment (d : N)                               (* trailing: 0 none, 1 "-", 2 "--", 3 "--!" *)
| SRaw (k : rkind) (elem : str)                  (* RCDATA (title, textarea) / RAWTEXT (style) *)
| SRawLt (k : rkind) (elem : str)
| SRawEnd (k : rkind) (elem : str) (rest : str)  (* after "</", [rest] of the name to match *)
| SBad.                                          (* construct outside the modelled subset *)

(* structural events: everything except text, attribute-value and raw-text characters *)
Inductive ev :=
| EvOpen (close : bool)
| EvName (c : N)
| EvAttr
| EvAttrCh (c : N)
| EvValOpen (q : N)          (* 34, 39, 0 = unquoted *)
| EvValClose
| EvSelfClose
| EvTagEnd
| EvDecl | EvDeclEnd
| EvComment | EvCommentEnd.

Definition s_title : str := [116;105;116;108;101].
Definition s_textarea : str := [116;101;120;116;97;114;101;97].
Definition s_style : str := [115;116;121;108;101].
(* elements whose content model needs tokenizer states that are not modelled *)
Definition bad_elems : list str :=
  [[115;99;114;105;112;116];                 (* script *)
   [112;108;97;105;110;116;101;120;116];     (* plaintext *)
   [120;109;112];                            (* xmp *)
   [105;102;114;97;109;101];                 (* iframe *)
   [110;111;101;109;98;101;100];             (* noembed *)
   [110;111;102;114;97;109;101;115];         (* noframes *)
   [110;111;115;99;114;105;112;116];         (* noscript *)
   [115;118;103];                            (* svg *)
   [109;97;116;104];                         (* math *)
   [116;101;109;112;108;97;116;101]].        (* template *)

Definition after_tag (close : bool) (name : str) : tstate :=
  if close then SData
  else if str_eqb name s_title || str_eqb name s_textarea then SRaw RcData name
  else if str_eqb name s_style then SRaw RawText name
  else if mem_str name bad_elems then SBad
  else SData.

(* before-attribute-name state on a non-space character *)
Definition before_attr (close : bool) (name : str) (c : N) : tstate * list ev :=
  if c =? 47 then (SSelfClose close name, [])
  else if c =? 62 then (after_tag close name, [EvTagEnd])
  else (SAttrName close name [lower_byte c], [EvAttr; EvAttrCh (lower_byte c)]).

Definition end_tag_events (elem : str) : list ev := EvOpen true :: map EvName elem.

Definition step (st : tstate) (c : N) : tstate * list ev :=
  match st with
  | SData => if c =? 60 then (SLt, []) else (SData, [])
  | SLt =>
      if is_alpha c then (STagName false [lower_byte c], [EvOpen false; EvName (lower_byte c)])
      else if c =? 47 then (SEndOpen, [])
      else if c =? 33 then (SBang 0, [])
      else if c =? 63 then (SDecl, [EvDecl])
      else if c =? 60 then (SLt, [])
      else (SData, [])
  | SEndOpen =>
      if is_alpha c then (STagName true [lower_byte c], [EvOpen true; EvName (lower_byte c)])
      else if c =? 62 then (SData, [])
      else (SDecl, [EvDecl])
  | STagName cl n =>
      if is_ws c then (SBeforeAttr cl n, [])
      else if c =? 47 then (SSelfClose cl n, [])
      else if c =? 62 then (after_tag cl n, [EvTagEnd])
      else (STagName cl (n ++ [lower_byte c]), [EvName (lower_byte c)])
  | SBeforeAttr cl n => if is_ws c then (st, []) else before_attr cl n c
  | SAttrName cl n a =>
      if is_ws c then (SAfterAttrName cl n a, [])
      else if c =? 47 then (SSelfClose cl n, [])
      else if c =? 62 then (after_tag cl n, [EvTagEnd])
      else if c =? 61 then (SBeforeVal cl n a, [])
      else (SAttrName cl n (a ++ [lower_byte c]), [EvAttrCh (lower_byte c)])
  | SAfterAttrName cl n a =>
      if is_ws c then (st, [])
      else if c =? 61 then (SBeforeVal cl n a, [])
      else before_attr cl n c
  | SBeforeVal cl n a =>
      if is_ws c then (st, [])
      else if c =? 34 then (SValDq cl n a, [EvValOpen 34])
      else if c =? 39 then (SValSq cl n a, [EvValOpen 39])
      else if c =? 62 then (after_tag cl n, [EvTagEnd])
      else (SValUnq cl n a, [EvValOpen 0])
  | SValDq cl n a => if c =? 34 then (SAfterVal cl n, [EvValClose]) else (st, [])
  | SValSq cl n a => if c =? 39 then (SAfterVal cl n, [EvValClose]) else (st, [])
  | SValUnq cl n a =>
      if is_ws c then (SBeforeAttr cl n, [EvValClose])
      else if c =? 62 then (after_tag cl n, [EvValClose; EvTagEnd])
      else (st, [])
  | SAfterVal cl n => if is_ws c then (SBeforeAttr cl n, []) else before_attr cl n c
  | SSelfClose cl n =>
      if c =? 62 then (after_tag cl n, [EvSelfClose; EvTagEnd])
      else if is_ws c then (SBeforeAttr cl n, [])
      else before_attr cl n c
  | SBang k =>
      if c =? 45 then (if k =? 0 then (SBang 1, []) else (SComment 2, [EvComment]))
      else if c =? 62 then (SData, [EvDecl; EvDeclEnd])
      else (SDecl, [EvDecl])
  | SDecl => if c =? 62 then (SData, [EvDeclEnd]) else (SDecl, [])
  | SComment d =>
      if c =? 45 then (SComment (if d =? 0 then 1 else if d =? 3 then 1 else 2), [])
      else if (c =? 62) && ((d =? 2) || (d =? 3)) then (SData, [EvCommentEnd])
      else if (c =? 33) && (d =? 2) then (SComment 3, [])
      else (SComment 0, [])
  | SRaw k e => if c =? 60 then (SRawLt k e, []) else (st, [])
  | SRawLt k e =>
      if c =? 47 then (SRawEnd k e e, [])
      else if c =? 60 then (SRawLt k e, [])
      else (SRaw k e, [])
  | SRawEnd k e rest =>
      match rest with
      | x :: rest' =>
          if lower_byte c =? x then (SRawEnd k e rest', [])
          else if c =? 60 then (SRawLt k e, [])
          else (SRaw k e, [])
      | [] =>
          if is_ws c then (SBeforeAttr true e, end_tag_events e)
          else if c =? 47 then (SSelfClose true e, end_tag_events e)
          else if c =? 62 then (SData, end_tag_events e ++ [EvTagEnd])
          else if c =? 60 then (SRawLt k e, [])
          else (SRaw k e, [])
      end
  | SBad => (SBad, [])
  end.

Fixpoint run (st : tstate) (s : str) : tstate * list ev :=
  match s with
  | [] => (st, [])
  | c :: r => let '(st1, e1) := step st c in
              let '(st2, e2) := run st1 r in (st2, e1 ++ e2)
  end.

Definition skeleton (page : str) : list ev := snd (run SData page).
Definition final_state (page : str) : tstate := fst (run SData page).

(* decidable equalities *)
Definition rkind_eqb (a b : rkind) : bool :=
  match a, b with RcData, RcData => true | RawText, RawText => true | _, _ => false end.

Definition tstate_eqb (a b : tstate) : bool :=
  match a, b with
  | SData, SData | SLt, SLt | SEndOpen, SEndOpen | SDecl, SDecl | SBad, SBad => true
  | STagName c n, STagName c' n' | SBeforeAttr c n, SBeforeAttr c' n'
  | SAfterVal c n, SAfterVal c' n' | SSelfClose c n, SSelfClose c' n' =>
      Bool.eqb c c' && str_eqb n n'
  | SAttrName c n a, SAttrName c' n' a' | SAfterAttrName c n a, SAfterAttrName c' n' a'
  | SBeforeVal c n a, SBeforeVal c' n' a' | SValDq c n a, SValDq c' n' a'
  | SValSq c n a, SValSq c' n' a' | SValUnq c n a, SValUnq c' n' a' =>
      Bool.eqb c c' && str_eqb n n' && str_eqb a a'
  | SBang k, SBang k' | SComment k, SComment k' => k =? k'
  | SRaw k e, SRaw k' e' | SRawLt k e, SRawLt k' e' => rkind_eqb k k' && str_eqb e e'
  | SRawEnd k e r, SRawEnd k' e' r' => rkind_eqb k k' && str_eqb e e' && str_eqb r r'
  | _, _ => false
  end.

Definition ev_eqb (a b : ev) : bool :=
  match a, b with
  | EvOpen x, EvOpen y => Bool.eqb x y
  | EvName x, EvName y | EvAttrCh x, EvAttrCh y | EvValOpen x, EvValOpen y => x =? y
  | EvAttr, EvAttr | EvValClose, EvValClose | EvSelfClose, EvSelfClose | EvTagEnd, EvTagEnd
  | EvDecl, EvDecl | EvDeclEnd, EvDeclEnd | EvComment, EvComment | EvCommentEnd, EvCommentEnd => true
  | _, _ => false
  end.
Definition evs_eqb (a b : list ev) : bool := list_eqb ev_eqb a b.

(* ------------------------------------------------------------------------------------------ *)
(** * 5. Context walker: the tokenizer state at every placeholder *)

(* attribute names whose double-quoted value is plain text for html/template (attrType =
   contentTypePlain) AND has no URL / script / style meaning: a short allow-list *)
Definition plain_attrs : list str :=
  [[118;97;108;117;101];                            (* value *)
   [116;105;116;108;101];                           (* title *)
   [97;108;116];                                    (* alt *)
   [112;108;97;99;101;104;111;108;100;101;114]].    (* placeholder *)

(* contexts in which html/template applies html_replace (htmlescaper / attrescaper /
   rcdataescaper) and in which that is enough *)
Definition safe_state (st : tstate) : bool :=
  match st with
  | SData => true
  | SValDq false _ a => mem_str a plain_attrs
  | SRaw RcData _ => true
  | _ => false
  end.

Section Walk.
  (* end state of a {{template}} call started in a state; None = some placeholder unsafe *)
  Variable call : str -> tstate -> option tstate.

  Fixpoint walk_node (n : node) (st : tstate) {struct n} : option tstate :=
    let walk_list :=
      fix wl (ns : list node) (st : tstate) {struct ns} : option tstate :=
        match ns with
        | [] => Some st
        | x :: r => match walk_node x st with Some st' => wl r st' | None => None end
        end in
    match n with
    | NText s => Some (fst (run st s))
    | NOut _ => if safe_state st then Some st else None
    | NIf _ t e =>
        match walk_list t st, walk_list e st with
        | Some a, Some b => if tstate_eqb a b then Some a else None
        | _, _ => None
        end
    | NRange _ _ _ body =>
        match walk_list body st with
        | Some a => if tstate_eqb a st then Some st else None
        | None => None
        end
    | NCall name _ => call name st
    end.

  Fixpoint walk_list (ns : list node) (st : tstate) {struct ns} : option tstate :=
    match ns with
    | [] => Some st
    | x :: r => match walk_node x st with Some st' => walk_list r st' | None => None end
    end.
End Walk.

Fixpoint walk_call (fuel : nat) (tpls : templates) (name : str) (st : tstate) : option tstate :=
  match fuel with
  | O => None
  | S f => match lookup name tpls with
           | Some body => walk_list (walk_call f tpls) body st
           | None => None
           end
  end.

(* a page template is fine when, started in the data state, every placeholder reached (through
   every branch, loop body and called template) is in a safe state and the page ends in the
   data state *)
Definition page_safe (tpls : templates) (name : str) : bool :=
  match walk_call (call_fuel tpls) tpls name SData with
  | Some st => tstate_eqb st SData
  | None => false
  end.

(* the same walk on an expanded page *)
Fixpoint flat_walk (st : tstate) (ps : list piece) : option tstate :=
  match ps with
  | [] => Some st
  | PText s :: r => flat_walk (fst (run st s)) r
  | PHole _ :: r => if safe_state st then flat_walk st r else None
  end.

(* two expansions that took the same control path: same static text, any hole values *)
Fixpoint same_shape (a b : list piece) : bool :=
  match a, b with
  | [], [] => true
  | PText s :: a', PText t :: b' => str_eqb s t && same_shape a' b'
  | PHole _ :: a', PHole _ :: b' => same_shape a' b'
  | _, _ => false
  end.

Definition s_html_template : str := [104;116;109;108;47;116;101;109;112;108;97;116;101].

(* ------------------------------------------------------------------------------------------ *)
(** * 6. Output-only fields: which fields can influence nothing but the text of a hole *)

(* [expr_free F e]: the value of e does not depend on the fields F of the record *)
Fixpoint expr_free (F : list str) (e : expr) : bool :=
  match e with
  | EDot => false
  | EField f => negb (mem_str f F)
  | EVar _ | ENum _ | EStr _ => true
  | ELen a => expr_free F a
  | EIndex a i | EEq a i | ENe a i | EGt a i => expr_free F a && expr_free F i
  end.

Section Taint.
  Variable call : str -> bool.
  Variable F : list str.

  (* fields of F are used only as {{.Field}} outputs; conditions, ranges, indices and template
     arguments never look at them *)
  Fixpoint taint_node (n : node) {struct n} : bool :=
    let taint_list :=
      fix tl (ns : list node) {struct ns} : bool :=
        match ns with [] => true | x :: r => taint_node x && tl r end in
    match n with
    | NText _ => true
    | NOut (EField _) => true
    | NOut e => expr_free F e
    | NIf c t e => expr_free F c && taint_list t && taint_list e
    | NRange _ _ e body => expr_free F e && taint_list body
    | NCall name None => call name
    | NCall name (Some EDot) => call name
    | NCall _ (Some _) => false
    end.

  Fixpoint taint_list (ns : list node) {struct ns} : bool :=
    match ns with [] => true | x :: r => taint_node x && taint_list r end.
End Taint.

Fixpoint taint_call (fuel : nat) (tpls : templates) (F : list str) (name : str) : bool :=
  match fuel with
  | O => false
  | S f => match lookup name tpls with
           | Some body => taint_list (taint_call f tpls F) F body
           | None => false
           end
  end.

Definition output_only (tpls : templates) (name : str) (F : list str) : bool :=
  taint_call (call_fuel tpls) tpls F name.

(* two data records that differ only in the string held by fields of F *)
Definition val_agree (inF : bool) (a b : option value) : Prop :=
  if inF then match a, b with
              | Some (VStr _), Some (VStr _) => True
              | None, None => True
              | _, _ => False
              end
  else a = b.
Definition rec_agree (F : list str) (r1 r2 : list (str * value)) : Prop :=
  forall f, val_agree (mem_str f F) (lookup f r1) (lookup f r2).

(* ------------------------------------------------------------------------------------------ *)
(** * 7. The note net/http writes with a redirect (GOROOT/src/net/http/server.go:2299-2366)

    http.Redirect answers a GET with Content-Type text/html and the body
      <a href="HTMLESCAPE(url)">STATUS TEXT</a>. (and two line feeds)
    where htmlEscape rewrites & < > double quote and apostrophe. Every 30x of sso (OAuthStart, the
    end of the callback, sign-out, https upgrade, the authenticator's redirects back to the
    proxy and to the provider) carries such a note with request-controlled text in the URL. *)
Definition net_repl (c : N) : option str :=
  if c =? 38 then Some [38;97;109;112;59]
  else if c =? 60 then Some [38;108;116;59]
  else if c =? 62 then Some [38;103;116;59]
  else if c =? 34 then Some [38;35;51;52;59]
  else if c =? 39 then Some [38;35;51;57;59]
  else None.
Fixpoint net_escape (s : str) : str :=
  match s with
  | [] => []
  | c :: r => match net_repl c with Some e => e ++ net_escape r | None => c :: net_escape r end
  end.

Definition note_pre : str := [60;97;32;104;114;101;102;61;34].        (* <a href= and the opening quote *)
Definition note_mid : str := [34;62].                                  (* closing quote and > *)
Definition note_post : str := [60;47;97;62;46;10;10].                  (* </a>.\n\n *)
Definition redirect_note (url text : str) : str :=
  note_pre ++ net_escape url ++ note_mid ++ text ++ note_post.

(* the escaped URL of a body of that shape, if it has the shape *)
Fixpoint strip_suffix_rev (rs rsuf : str) {struct rsuf} : option str :=   (* both reversed *)
  match rsuf, rs with
  | [], _ => Some rs
  | c :: p, d :: s => if c =? d then strip_suffix_rev s p else None
  | _ :: _, [] => None
  end.
Fixpoint strip_pre (p s : str) {struct p} : option str :=
  match p, s with
  | [], _ => Some s
  | c :: p', d :: s' => if c =? d then strip_pre p' s' else None
  | _ :: _, [] => None
  end.
Definition note_url (body text : str) : option str :=
  match strip_pre note_pre body with
  | Some rest =>
      match strip_suffix_rev (List.rev rest) (List.rev (note_mid ++ text ++ note_post)) with
      | Some rm => Some (List.rev rm)
      | None => None
      end
  | None => None
  end.
