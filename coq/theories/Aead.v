(* Aead.v — symbolic AEAD and the real framing of internal/pkg/aead/aead.go.

   MiscreantCipher.Encrypt  (aead.go:54-69):  joined = Seal(nonce, plaintext) ++ nonce, 16-byte nonce
   MiscreantCipher.Decrypt  (aead.go:72-90):  len(joined) <= 16 -> error; pivot = len - 16;
                                              Open(nonce = joined[pivot:], ciphertext = joined[:pivot])
   MiscreantCipher.Marshal  (aead.go:94-117): base64.RawURLEncoding(Encrypt(gzip(json(v))))
   MiscreantCipher.Unmarshal(aead.go:120-148): DecodeString, Decrypt, gunzip, json.Unmarshal; every
                                              error is returned and the target is not filled.

   Cryptography is ideal (Dolev-Yao): [seal] is a free constructor over (key, nonce, plaintext) and
   [open] succeeds exactly on what [seal] built. This is a *structure the theorems quantify over*
   ([ideal_aead], no axiom) together with one concrete instance defined here ([free_aead], a term
   algebra written into byte lists) which shows the laws are satisfiable and is used for witnesses.
   The value codec gzip . json is a function parameter with a left inverse.

   Decoding mode: today's code uses the lax decoder (trailing bits ignored, CR/LF skipped). The
   planned repair is `base64.RawURLEncoding.Strict()` plus rejecting '\r' and '\n'. Both are
   modelled; [repo_mode] says which one /repo uses — switching it is the one-line change.
   No proofs in this file. *)
From V Require Import Base B64.

Record dec_mode := { m_strict : bool;    (* decoder built with Encoding.Strict()            *)
                     m_nocrlf : bool }.  (* value containing '\r' or '\n' rejected up front *)
Definition lax_mode := {| m_strict := false; m_nocrlf := false |}.
Definition strict_mode := {| m_strict := true; m_nocrlf := true |}.

(* ===== the ONE line that follows /repo: aead.go:122 uses base64.RawURLEncoding.DecodeString ===== *)
Definition repo_mode : dec_mode := strict_mode.

(* the first step of Unmarshal *)
Definition decode_value (m : dec_mode) (s : str) : option str :=
  if m_nocrlf m && has_crlf s then None else go_b64url_decode (m_strict m) s.

Definition nonce_size : N := 16.   (* miscreantNonceSize, aead.go:16 *)

(* ---- ideal AEAD ----------------------------------------------------------------------------- *)
Record ideal_aead (K : Type) := {
  seal : K -> str -> str -> str;             (* key, nonce, plaintext  -> ciphertext *)
  open : K -> str -> str -> option str;      (* key, nonce, ciphertext -> plaintext  *)
  (* Open authenticates: it returns p exactly on the ciphertext Seal built from (k, n, p) *)
  open_seal : forall k n c p, open k n c = Some p <-> c = seal k n p;
  (* Seal is a free constructor *)
  seal_free : forall k n p k' n' p', seal k n p = seal k' n' p' -> k = k' /\ n = n' /\ p = p';
  (* a ciphertext is never empty (SIV output = 16-byte tag ++ encrypted plaintext) *)
  seal_nonempty : forall k n p, seal k n p <> []
}.
Arguments seal {K}. Arguments open {K}. Arguments open_seal {K}. Arguments seal_free {K}.
Arguments seal_nonempty {K}.

Section Framing.
  Context {K V : Type}.
  Variable sealf : K -> str -> str -> str.
  Variable openf : K -> str -> str -> option str.
  Variable codec : V -> str.                 (* gzip (json v) *)
  Variable uncodec : str -> option V.        (* gunzip, json.Unmarshal *)

  (* Encrypt with the nonce drawn by miscreant.GenerateNonce made explicit *)
  Definition encrypt (k : K) (n p : str) : str := sealf k n p ++ n.

  (* Decrypt *)
  Definition decrypt (k : K) (j : str) : option str :=
    if N.of_nat (length j) <=? nonce_size then None
    else let pivot := (length j - N.to_nat nonce_size)%nat in
         openf k (skipn pivot j) (firstn pivot j).

  (* Marshal *)
  Definition marshal (k : K) (n : str) (v : V) : str := b64url_encode (encrypt k n (codec v)).

  (* Unmarshal: None = an error is returned (and nothing is decoded) *)
  Definition unmarshal (m : dec_mode) (k : K) (s : str) : option V :=
    match decode_value m s with
    | None => None
    | Some j => match decrypt k j with
                | None => None
                | Some p => uncodec p
                end
    end.
End Framing.

(* ---- a concrete ideal AEAD: the term Seal(k, n, p) written down as bytes ---------------------- *)
Definition free_seal (k : N) (n p : str) : str := k :: N.of_nat (length n) :: n ++ p.
Definition free_open (k : N) (n c : str) : option str :=
  let pre := k :: N.of_nat (length n) :: n in
  if has_prefix c pre then Some (skipn (length pre) c) else None.

(* single-position corruption used in statements: replace the byte at position i *)
Fixpoint set_nth (i : nat) (x : N) (l : str) : str :=
  match l, i with
  | [], _ => []
  | _ :: l', O => x :: l'
  | y :: l', S i' => y :: set_nth i' x l'
  end.

(* ---- the cookie path: CookieStore.LoadSession (cookie_store.go:141-154) --------------------------
   LoadSession takes req.Cookie(s.Name) and hands its Value, untouched, to UnmarshalSession. What
   net/http (go1.23.5) makes of the `Cookie:` header lines is modelled concretely after
   net/http/cookie.go:333-366 (readCookies), 516-528 (parseCookieValue), 471-473, request.go:457-465
   (Request.Cookie = first cookie of that name), net/textproto TrimString (space, tab, CR, LF):
     every line is trimmed and cut at ';', every part is trimmed, cut at the first '=', the name is
     trimmed and compared with the (valid, non-empty) name asked for; the value loses ONE pair of
     surrounding double quotes and is dropped unless all its bytes are in 0x20..0x7e minus DQUOTE, ';' and
     backslash;
     a dropped cookie does not shadow a later one of the same name.
   No percent-decoding, no case folding, no joining of cookies happens anywhere on this path. *)
Definition is_ows (c : N) : bool := (c =? 32) || (c =? 9) || (c =? 10) || (c =? 13).

Fixpoint trim_left (s : str) : str :=
  match s with
  | c :: s' => if is_ows c then trim_left s' else s
  | [] => []
  end.
Fixpoint trim_right (s : str) : str :=
  match s with
  | [] => []
  | c :: s' => match trim_right s' with
               | [] => if is_ows c then [] else [c]
               | r => c :: r
               end
  end.
Definition trim (s : str) : str := trim_right (trim_left s).   (* textproto.TrimString *)

(* strings.Cut at the first '=' : before, after (after = [] when there is no '=') *)
Fixpoint cut_at (sep : N) (s : str) : str * str :=
  match s with
  | [] => ([], [])
  | c :: s' => if c =? sep then ([], s') else let '(a, b) := cut_at sep s' in (c :: a, b)
  end.

Definition valid_cookie_value_byte (b : N) : bool :=
  (32 <=? b) && (b <? 127) && negb (b =? 34) && negb (b =? 59) && negb (b =? 92).

Definition strip_quotes (raw : str) : str :=
  match raw with
  | c :: r => match rev r with
              | d :: m => if (c =? 34) && (d =? 34) then rev m else raw   (* len > 1, first and last DQUOTE *)
              | [] => raw
              end
  | [] => raw
  end.

(* parseCookieValue(raw, true) *)
Definition parse_cookie_value (raw : str) : option str :=
  let v := strip_quotes raw in
  if forallb valid_cookie_value_byte v then Some v else None.

Definition cookie_of_part (name part : str) : option str :=
  match trim part with
  | [] => None
  | p => let '(nm, val) := cut_at 61 p in
         if str_eqb (trim nm) name then parse_cookie_value val else None
  end.

Fixpoint first_some {A B} (f : A -> option B) (l : list A) : option B :=
  match l with
  | [] => None
  | x :: l' => match f x with Some y => Some y | None => first_some f l' end
  end.

(* req.Cookie(name).Value for a request whose Header["Cookie"] is [lines]; None = http.ErrNoCookie *)
Definition cookie_lookup (name : str) (lines : list str) : option str :=
  first_some (cookie_of_part name) (flat_map (fun l => split_on 59 (trim l)) lines).

Inductive load_result (V : Type) := LNoCookie | LInvalid | LSession (v : V).
Arguments LNoCookie {V}. Arguments LInvalid {V}. Arguments LSession {V}.

Section Load.
  Context {K V : Type}.
  Variable openf : K -> str -> str -> option str.
  Variable uncodec : str -> option V.
  (* LoadSession: (nil, http.ErrNoCookie) / (nil, ErrInvalidSession) / (session, nil) *)
  Definition load_session (m : dec_mode) (k : K) (name : str) (lines : list str) : load_result V :=
    match cookie_lookup name lines with
    | None => LNoCookie
    | Some cv => match unmarshal openf uncodec m k cv with
                 | None => LInvalid
                 | Some v => LSession v
                 end
    end.
End Load.
