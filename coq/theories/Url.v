(* Url.v — the slice of Go's net/url (go1.23.5, $GOROOT/src/net/url/url.go) that decides
   whether url.Parse fails and what URL.Scheme / URL.User / URL.Host / URL.Hostname() are,
   plus the pieces of URL.String() that re-serialise scheme, userinfo and host, plus an
   independent RFC 3986 reading of a URI reference (relation [rfc_split], function [rfc_read]).

   Modelled after the installed toolchain (line numbers of go1.23.5 url.go):
     shouldEscape 102-179, unescape 201-273, escape 286-343, Userinfo.String 430-440,
     getScheme 444-468, Parse 474-489, parse 507-585, parseAuthority 587-620,
     parseHost 624-668, setPath 691-705 (error only), setFragment 758-771 (error only),
     validOptionalPort 793-808, String 829-896 (authority part), Hostname/splitHostPort
     1187-1217, validUserinfo 1267-1287, stringContainsCTLByte 1290-1298.
   Every branch of Parse is modelled (there is no "unmodelled" outcome): the only things left
   out are the *values* of Path/RawPath/RawQuery/Fragment, which no C07 decision reads; their
   escape *validation* (which can make Parse fail) is modelled.
   Strings are byte lists; bytes are N (the harness only produces 0..255).
   No proofs in this file. *)
From V Require Import Base.

(* ---- byte classes ---- *)
Definition is_upper (c : N) : bool := (65 <=? c) && (c <=? 90).
Definition is_lower (c : N) : bool := (97 <=? c) && (c <=? 122).
Definition is_alpha (c : N) : bool := is_upper c || is_lower c.
Definition is_digit (c : N) : bool := (48 <=? c) && (c <=? 57).
Definition is_alnum (c : N) : bool := is_alpha c || is_digit c.
Definition is_hex (c : N) : bool :=
  is_digit c || ((97 <=? c) && (c <=? 102)) || ((65 <=? c) && (c <=? 70)).
(* unhex, url.go:61-71 *)
Definition unhex (c : N) : N :=
  if is_digit c then c - 48
  else if (97 <=? c) && (c <=? 102) then c - 87
  else if (65 <=? c) && (c <=? 70) then c - 55
  else 0.
Definition mem_byte (c : N) (l : list N) : bool := existsb (N.eqb c) l.

Definition c_hash : N := 35.    
Definition c_pct : N := 37.     
Definition c_slash : N := 47.   
Definition c_colon : N := 58.   
Definition c_qmark : N := 63.   
Definition c_at : N := 64.      
Definition c_lbr : N := 91.     
Definition c_rbr : N := 93.     

(* ---- string helpers ---- *)
(* strings.Cut on a one-byte separator: (before, Some after) or (s, None) *)
Fixpoint cut (sep : N) (s : str) : str * option str :=
  match s with
  | [] => ([], None)
  | c :: s' =>
      if N.eqb c sep then ([], Some s')
      else let '(a, b) := cut sep s' in (c :: a, b)
  end.

(* strings.LastIndex on a one-byte separator: Some (s[:i], s[i+1:]) *)
Fixpoint cut_last (sep : N) (s : str) : option (str * str) :=
  match s with
  | [] => None
  | c :: s' =>
      match cut_last sep s' with
      | Some (a, b) => Some (c :: a, b)
      | None => if N.eqb c sep then Some ([], s') else None
      end
  end.

(* strings.Index(s, "%25"): Some (s[:i], s[i:]) *)
Definition pct25 : str := [37; 50; 53].
Fixpoint index_pct25 (s : str) : option (str * str) :=
  match s with
  | [] => None
  | c :: s' =>
      if has_prefix s pct25 then Some ([], s)
      else match index_pct25 s' with
           | Some (a, b) => Some (c :: a, b)
           | None => None
           end
  end.

(* ---- shouldEscape, url.go:102-179 ---- *)
Inductive mode := MPath | MHost | MZone | MUser | MFragment.

Definition is_hostish (m : mode) : bool := match m with MHost | MZone => true | _ => false end.
(* bang dollar amp quote lpar rpar star plus comma semi eq colon lbr rbr lt gt dquote *)
Definition host_extra : list N := [33; 36; 38; 39; 40; 41; 42; 43; 44; 59; 61; 58; 91; 93; 60; 62; 34].
(* dollar amp plus comma slash colon semi eq qmark at *)
Definition reserved : list N := [36; 38; 43; 44; 47; 58; 59; 61; 63; 64].

Definition should_escape (c : N) (m : mode) : bool :=
  if is_alnum c then false
  else if is_hostish m && mem_byte c host_extra then false
  else if mem_byte c [45; 95; 46; 126] then false          (* minus underscore dot tilde *)
  else if mem_byte c reserved then
    match m with
    | MPath => N.eqb c 63                                   (* only qmark *)
    | MUser => mem_byte c [64; 47; 63; 58]                  (* at slash qmark colon *)
    | MFragment => false
    | MHost | MZone => true                                 (* no case in the inner switch *)
    end
  else if (match m with MFragment => true | _ => false end) && mem_byte c [33; 40; 41; 42] then false
  else true.

(* ---- unescape, url.go:201-273. None = EscapeError / InvalidHostError ---- *)
Fixpoint unescape (m : mode) (s : str) : option str :=
  match s with
  | [] => Some []
  | c :: s' =>
      if N.eqb c c_pct then
        match s' with
        | h1 :: h2 :: s'' =>
            if is_hex h1 && is_hex h2 then
              let v := unhex h1 * 16 + unhex h2 in
              let is25 := N.eqb h1 50 && N.eqb h2 53 in
              if (match m with MHost => true | _ => false end) && (unhex h1 <? 8) && negb is25 then None
              else if (match m with MZone => true | _ => false end) && negb is25 && negb (N.eqb v 32)
                      && should_escape v MHost then None
              else option_map (cons v) (unescape m s'')
            else None
        | _ => None
        end
      else if is_hostish m && (c <? 128) && should_escape c m then None
      else option_map (cons c) (unescape m s')
  end.

(* ---- escape, url.go:286-343 (never the query-component mode here) ---- *)
Definition hex_digit (n : N) : N := if n <? 10 then 48 + n else 55 + n.    (* upperhex *)
Definition escape_byte (m : mode) (c : N) : str :=
  if should_escape c m then [c_pct; hex_digit (c / 16); hex_digit (c mod 16)] else [c].
Definition escape (m : mode) (s : str) : str := flat_map (escape_byte m) s.

(* ---- validOptionalPort, url.go:793-808 ---- *)
Definition valid_optional_port (p : str) : bool :=
  match p with
  | [] => true
  | c :: r => N.eqb c c_colon && forallb is_digit r
  end.

(* ---- validUserinfo, url.go:1267-1287 (ranges over runes: any byte >= 0x80 fails) ---- *)
Definition userinfo_extra : list N :=
  [45; 46; 95; 58; 126; 33; 36; 38; 39; 40; 41; 42; 43; 44; 59; 61; 37; 64].
Definition valid_userinfo (s : str) : bool :=
  forallb (fun r => is_alnum r || mem_byte r userinfo_extra) s.

(* ---- stringContainsCTLByte, url.go:1290-1298 ---- *)
Definition has_ctl (s : str) : bool := existsb (fun b => (b <? 32) || N.eqb b 127) s.

(* ---- getScheme, url.go:444-468 ---- *)
Inductive scheme_res := SErr | SNone | SSome (sch rest : str).
Fixpoint get_scheme_from (first : bool) (s : str) : scheme_res :=
  match s with
  | [] => SNone
  | c :: s' =>
      if is_alpha c then
        match get_scheme_from false s' with SSome sch r => SSome (c :: sch) r | x => x end
      else if is_digit c || N.eqb c 43 || N.eqb c 45 || N.eqb c 46 then
        if first then SNone
        else match get_scheme_from false s' with SSome sch r => SSome (c :: sch) r | x => x end
      else if N.eqb c c_colon then
        if first then SErr else SSome [] s'
      else SNone
  end.
Definition get_scheme (s : str) : scheme_res := get_scheme_from true s.

(* ---- parseHost, url.go:624-668 ---- *)
Definition parse_host (h : str) : option str :=
  if has_prefix h [c_lbr] then
    match cut_last c_rbr h with
    | None => None                                           (* missing rbr in host *)
    | Some (before, colon_port) =>                           (* host[:i], host[i+1:] *)
        if negb (valid_optional_port colon_port) then None
        else match index_pct25 before with
             | Some (h1, h2) =>
                 match unescape MHost h1, unescape MZone h2, unescape MHost (c_rbr :: colon_port) with
                 | Some a, Some b, Some c => Some (a ++ b ++ c)
                 | _, _, _ => None
                 end
             | None => unescape MHost h
             end
    end
  else
    match cut_last c_colon h with
    | Some (_, port) => if forallb is_digit port then unescape MHost h else None
    | None => unescape MHost h
    end.

(* ---- Userinfo and parseAuthority, url.go:587-620 ---- *)
Record userinfo := { ui_name : str; ui_pass : option str }.

Definition parse_authority (a : str) : option (option userinfo * str) :=
  let '(uio, hp) := match cut_last c_at a with
                    | Some (x, y) => (Some x, y)
                    | None => (None, a)
                    end in
  match parse_host hp with
  | None => None
  | Some host =>
      match uio with
      | None => Some (None, host)
      | Some ui =>
          if negb (valid_userinfo ui) then None
          else match cut c_colon ui with
               | (_, None) =>
                   match unescape MUser ui with
                   | Some n => Some (Some {| ui_name := n; ui_pass := None |}, host)
                   | None => None
                   end
               | (n, Some p) =>
                   match unescape MUser n, unescape MUser p with
                   | Some n', Some p' => Some (Some {| ui_name := n'; ui_pass := Some p' |}, host)
                   | _, _ => None
                   end
               end
      end
  end.

(* ---- parse (viaRequest = false), url.go:507-585, and Parse, 474-489 ---- *)
Record url := {
  u_scheme : str;                 (* lower-cased *)
  u_opaque : bool;                (* scheme:rootless, Opaque set, no authority *)
  u_user : option userinfo;
  u_host : str                    (* URL.Host: host[:port], percent-decoded *)
}.

Definition no_host (sch : str) (opaque : bool) : url :=
  {| u_scheme := sch; u_opaque := opaque; u_user := None; u_host := [] |}.

Definition is_nil {A} (l : list A) : bool := match l with [] => true | _ => false end.

(* the authority branch: rest = "//" authority [ "/" path ] *)
Definition parse_with_authority (sch rest : str) : option url :=
  let a0 := skipn 2 rest in
  let '(authority, after) := cut c_slash a0 in
  let path := match after with Some p => c_slash :: p | None => [] end in
  match parse_authority authority with
  | None => None
  | Some (user, host) =>
      match unescape MPath path with
      | None => None
      | Some _ => Some {| u_scheme := sch; u_opaque := false; u_user := user; u_host := host |}
      end
  end.

(* [sch0] is the scheme as written (lower-cased here), [rest0] what follows its colon *)
Definition parse_after_scheme (sch0 rest0 : str) : option url :=
  let sch := lower_ascii sch0 in
  (* both arms of the ForceQuery test leave the part before the first question mark *)
  let rest := fst (cut c_qmark rest0) in
  if negb (has_prefix rest [c_slash]) && negb (is_nil sch) then Some (no_host sch true)
  else if negb (has_prefix rest [c_slash]) && mem_byte c_colon (fst (cut c_slash rest)) then None
  else if (negb (is_nil sch) || negb (has_prefix rest [c_slash; c_slash; c_slash]))
          && has_prefix rest [c_slash; c_slash] then parse_with_authority sch rest
  else
    match unescape MPath rest with
    | None => None
    | Some _ => Some (no_host sch false)
    end.

Definition parse_nofrag (raw : str) : option url :=
  if has_ctl raw then None
  else if str_eqb raw [42] then Some (no_host [] false)       (* the lone star *)
  else
    match get_scheme raw with
    | SErr => None                                            (* missing protocol scheme *)
    | SNone => parse_after_scheme [] raw
    | SSome s x => parse_after_scheme s x
    end.

Definition go_parse (raw : str) : option url :=
  let '(u0, frag) := cut c_hash raw in
  match parse_nofrag u0 with
  | None => None
  | Some u =>
      match frag with
      | None | Some [] => Some u
      | Some f => match unescape MFragment f with Some _ => Some u | None => None end
      end
  end.

(* ---- splitHostPort / Hostname, url.go:1187-1217 ---- *)
Definition strip_brackets (h : str) : str :=
  if has_prefix h [c_lbr] && has_suffix h [c_rbr] then removelast (tl h) else h.

Definition split_host_port (hp : str) : str * str :=
  let '(h, port) := match cut_last c_colon hp with
                    | Some (a, b) => if forallb is_digit b then (a, b) else (hp, [])
                    | None => (hp, [])
                    end in
  (strip_brackets h, port).

Definition hostname (u : url) : str := fst (split_host_port (u_host u)).

(* The interface named in DESIGN §6 C07: scheme and host of a successfully parsed URI. *)
Definition go_parse_authority (raw : str) : option (str * str) :=
  match go_parse raw with Some u => Some (u_scheme u, u_host u) | None => None end.

(* ---- URL.String(), url.go:829-896: the part up to and including the authority ---- *)
Definition userinfo_string (ui : userinfo) : str :=
  escape MUser (ui_name ui) ++
  match ui_pass ui with Some p => c_colon :: escape MUser p | None => [] end.

(* [sch] is the scheme written (ProxyOAuthRedirect overwrites it). Only meaningful for a URL
   with a non-empty host: scheme COLON SLASH SLASH [userinfo AT] escape(host). *)
Definition authority_string (sch : str) (u : url) : str :=
  (if is_nil sch then [] else sch ++ [c_colon]) ++ [c_slash; c_slash] ++
  (match u_user u with Some ui => userinfo_string ui ++ [c_at] | None => [] end) ++
  escape MHost (u_host u).

(* net/http hexEscapeNonASCII (http.go:76-104): bytes >= 0x80 become %xx, lower-case hex *)
Definition hex_digit_lower (n : N) : N := if n <? 10 then 48 + n else 87 + n.
Definition hex_escape_non_ascii (s : str) : str :=
  flat_map (fun c => if c <? 128 then [c] else [c_pct; hex_digit_lower (c / 16); hex_digit_lower (c mod 16)]) s.

(* ================= independent RFC 3986 reading ================= *)
(* RFC 3986 §3: URI-reference with an authority:
     [ scheme COLON ] SLASH SLASH [ userinfo AT ] host [ COLON port ] ( SLASH | QMARK | HASH | end ) ...
   scheme = ALPHA ( ALPHA | DIGIT | PLUS | MINUS | DOT )... ;  port = DIGIT... ;
   host = LBR ... RBR (IP-literal) or reg-name.  The reading is deliberately lenient where that
   cannot create ambiguity (any byte that is not a delimiter may occur in userinfo, reg-name and
   inside brackets), so that it covers every string a conforming reader could accept. *)
Definition is_auth_end (c : N) : bool := N.eqb c c_slash || N.eqb c c_qmark || N.eqb c c_hash.
Definition is_scheme_char (c : N) : bool := is_alpha c || is_digit c || N.eqb c 43 || N.eqb c 45 || N.eqb c 46.

Definition scheme_ok (s : str) : Prop :=
  match s with [] => False | c :: r => is_alpha c = true /\ forallb is_scheme_char r = true end.
Definition userinfo_ok (s : str) : Prop := forallb (fun c => negb (is_auth_end c)) s = true.
Definition regname_char (c : N) : bool :=
  negb (is_auth_end c || N.eqb c c_at || N.eqb c c_colon || N.eqb c c_lbr || N.eqb c c_rbr).
Definition literal_char (c : N) : bool :=
  negb (is_auth_end c || N.eqb c c_at || N.eqb c c_rbr).
Definition host_ok (h : str) : Prop :=
  forallb regname_char h = true \/
  exists b, h = c_lbr :: b ++ [c_rbr] /\ forallb literal_char b = true.
Definition port_ok (p : str) : Prop := forallb is_digit p = true.
Definition rest_ok (r : str) : Prop :=
  match r with [] => True | c :: _ => is_auth_end c = true end.

Definition opt_scheme (o : option str) : str := match o with Some s => s ++ [c_colon] | None => [] end.
Definition opt_userinfo (o : option str) : str := match o with Some s => s ++ [c_at] | None => [] end.
Definition opt_port (o : option str) : str := match o with Some p => c_colon :: p | None => [] end.

Inductive rfc_split : str -> option str -> option str -> str -> option str -> str -> Prop :=
| rfc_split_intro sch ui h port rest :
    (forall s, sch = Some s -> scheme_ok s) ->
    (forall s, ui = Some s -> userinfo_ok s) ->
    host_ok h ->
    (forall p, port = Some p -> port_ok p) ->
    rest_ok rest ->
    rfc_split (opt_scheme sch ++ [c_slash; c_slash] ++ opt_userinfo ui ++ h ++ opt_port port ++ rest)
              sch ui h port rest.

(* the same reading as a function (used by the correspondence monitor on observed Locations) *)
Record rfc_parts := {
  r_scheme : option str; r_userinfo : option str; r_host : str; r_port : option str; r_rest : str }.

Fixpoint span_scheme (s : str) : str * str :=       (* longest prefix of scheme characters *)
  match s with
  | [] => ([], [])
  | c :: s' => if is_scheme_char c then let '(a, b) := span_scheme s' in (c :: a, b) else ([], s)
  end.

Definition split_scheme (u : str) : option str * str :=
  match u with
  | c :: _ =>
      if is_alpha c then
        match span_scheme u with
        | (s, d :: r) => if N.eqb d c_colon then (Some s, r) else (None, u)
        | _ => (None, u)
        end
      else (None, u)
  | [] => (None, u)
  end.

Fixpoint span_authority (s : str) : str * str :=    (* up to the first slash, qmark or hash *)
  match s with
  | [] => ([], [])
  | c :: s' => if is_auth_end c then ([], s) else let '(a, b) := span_authority s' in (c :: a, b)
  end.

Definition read_bracketed (b : str) : option (str * option str) :=   (* after the opening bracket *)
  match cut c_rbr b with
  | (content, Some after) =>
      if negb (forallb literal_char content) then None
      else match after with
           | [] => Some (c_lbr :: content ++ [c_rbr], None)
           | d :: p => if N.eqb d c_colon && forallb is_digit p
                       then Some (c_lbr :: content ++ [c_rbr], Some p) else None
           end
  | (_, None) => None
  end.

Definition read_regname (hp : str) : option (str * option str) :=
  let '(h, po) := cut c_colon hp in
  if negb (forallb regname_char h) then None
  else match po with
       | None => Some (h, None)
       | Some p => if forallb is_digit p then Some (h, Some p) else None
       end.

Definition read_hostport (hp : str) : option (str * option str) :=
  match hp with
  | c :: b => if N.eqb c c_lbr then read_bracketed b else read_regname hp
  | [] => read_regname hp
  end.

Definition rfc_read (u : str) : option rfc_parts :=
  let '(sch, r) := split_scheme u in
  if has_prefix r [c_slash; c_slash] then
      let '(auth, rest) := span_authority (skipn 2 r) in
      let '(ui, hp) := match cut_last c_at auth with
                       | Some (a, b) => (Some a, b)
                       | None => (None, auth)
                       end in
      match read_hostport hp with
      | Some (h, port) =>
          Some {| r_scheme := sch; r_userinfo := ui; r_host := h; r_port := port; r_rest := rest |}
      | None => None
      end
  else None.

(* RFC 3986 §2.1/§6.2.2: percent-decoding, total (a malformed percent sign stays literal) *)
Fixpoint pct_decode (s : str) : str :=
  match s with
  | [] => []
  | c :: s' =>
      if N.eqb c c_pct then
        match s' with
        | h1 :: h2 :: s'' =>
            if is_hex h1 && is_hex h2 then (unhex h1 * 16 + unhex h2) :: pct_decode s''
            else c :: pct_decode s'
        | _ => c :: pct_decode s'
        end
      else c :: pct_decode s'
  end.

(* the host name an RFC reader hands to name resolution: brackets off, percent-decoded *)
Definition rfc_hostname (h : str) : str := pct_decode (strip_brackets h).

(* vocabulary used in theorem statements *)
Definition c_bslash : N := 92.                      (* backslash *)
Definition byte_ok (c : N) : bool := c <? 256.      (* the element really is a byte *)
Definition ascii (c : N) : bool := c <? 128.
