(* Singleflight.v — request coalescing (C16).

   Generic layer: /repo/internal/pkg/singleflight/singleflight.go, func (g *Group) Do, lines 49-75,
   as a labelled transition system. Every critical section of g.mu is one atomic step; fn runs
   outside the lock:

     49  g.mu.Lock()
     54  if c, ok := g.m[key]; ok { c.dups++; g.mu.Unlock();        <- Enter t k   (join)
     57      c.wg.Wait(); return c.val, 0, c.err }                  <- Wake t      (enabled once wg is Done)
     60  c := new(call); c.wg.Add(1); g.m[key] = c; g.mu.Unlock()   <- Enter t k   (create and lead)
     66  c.val, c.err = fn(); c.wg.Done()                           <- FnReturn t r (result stored, Done)
     69  g.mu.Lock(); delete(g.m, key); g.mu.Unlock()               <- Cleanup t
     73  return c.val, c.dups, c.err                                   (same step: nobody can reach c any more)

   Order of operations in the real file: Done comes BEFORE the delete, so between FnReturn and
   Cleanup the finished call is still in the map and a newcomer joins it (and wakes at once);
   the model has exactly this window. A "thread" is one invocation of Do (callers are unbounded
   and each enters once); a call object is named by the thread that created it.

   Wrapper layer: /repo/internal/proxy/providers/singleflight_middleware.go:54-132 and
   /repo/internal/auth/providers/singleflight_middleware.go:53-175 — composite keys and closures
   that run the inner provider on the LEADER's *SessionState.

   No proofs in this file. *)
From V Require Import Base GoQuote.
From Coq Require Import ZArith.

(* ---------- association lists (first match wins; update = cons, delete = filter) ---------- *)
Fixpoint alookup {A B} (eqb : A -> A -> bool) (k : A) (l : list (A * B)) : option B :=
  match l with
  | [] => None
  | (a, b) :: l' => if eqb k a then Some b else alookup eqb k l'
  end.

Fixpoint aremove {A B} (eqb : A -> A -> bool) (k : A) (l : list (A * B)) : list (A * B) :=
  match l with
  | [] => []
  | (a, b) :: l' => if eqb k a then aremove eqb k l' else (a, b) :: aremove eqb k l'
  end.

Definition tid := nat.

(* ---------- generic layer ---------- *)
Inductive event {R : Type} :=
| Enter (t : tid) (k : str)
| FnReturn (t : tid) (r : R)
| Cleanup (t : tid)
| Wake (t : tid).
Arguments event : clear implicits.

(* singleflight.go:14-26; [c_joined] is a ghost list (who did the dups++), never read by a step *)
Record call {R : Type} := mkCall {
  c_key : str;
  c_result : option R;      (* val, err: written once before Done *)
  c_dups : nat;
  c_joined : list tid
}.
Arguments call : clear implicits.
Arguments mkCall {R}.

(* where an invocation of Do stands; a call is named by its creator, so "I lead" = Leading/LedDone
   and [Returned c r n] with c = own tid *)
Inductive tstate {R : Type} :=
| Leading                       (* created the call, fn running (lines 60-66) *)
| LedDone                       (* fn returned, Done signalled, not yet re-locked (66-69) *)
| Following (c : tid)           (* joined call c, blocked in wg.Wait (54-57) *)
| Returned (c : tid) (r : R) (cnt : nat).
Arguments tstate : clear implicits.

Record state {R : Type} := mkState {
  calls : list (tid * call R);        (* heap of call objects *)
  gmap : list (str * tid);            (* g.m : key -> call *)
  threads : list (tid * tstate R)
}.
Arguments state : clear implicits.
Arguments mkState {R}.

Definition init {R} : state R := mkState [] [] [].

Definition thread {R} (s : state R) (t : tid) := alookup Nat.eqb t (threads s).
Definition callof {R} (s : state R) (c : tid) := alookup Nat.eqb c (calls s).
Definition inflight {R} (s : state R) (k : str) := alookup str_eqb k (gmap s).

Definition new_call {R} (k : str) : call R := mkCall k None 0%nat [].

Definition step {R} (s : state R) (e : event R) : option (state R) :=
  match e with
  | Enter t k =>
      match thread s t with
      | Some _ => None                                  (* an invocation enters once *)
      | None =>
          match inflight s k with
          | Some c =>                                   (* lines 54-56: join *)
              match callof s c with
              | Some cl =>
                  Some (mkState ((c, mkCall (c_key cl) (c_result cl) (S (c_dups cl)) (t :: c_joined cl)) :: calls s)
                                (gmap s)
                                ((t, Following c) :: threads s))
              | None => None
              end
          | None =>                                     (* lines 60-64: create and lead *)
              Some (mkState ((t, new_call k) :: calls s) ((k, t) :: gmap s) ((t, Leading) :: threads s))
          end
      end
  | FnReturn t r =>                                     (* lines 66-67 *)
      match thread s t, callof s t with
      | Some Leading, Some cl =>
          Some (mkState ((t, mkCall (c_key cl) (Some r) (c_dups cl) (c_joined cl)) :: calls s)
                        (gmap s)
                        ((t, LedDone) :: threads s))
      | _, _ => None
      end
  | Cleanup t =>                                        (* lines 69-73 *)
      match thread s t, callof s t with
      | Some LedDone, Some cl =>
          match c_result cl with
          | Some r =>
              Some (mkState (calls s) (aremove str_eqb (c_key cl) (gmap s))
                            ((t, Returned t r (c_dups cl)) :: threads s))
          | None => None
          end
      | _, _ => None
      end
  | Wake t =>                                           (* lines 57-58 *)
      match thread s t with
      | Some (Following c) =>
          match callof s c with
          | Some cl =>
              match c_result cl with
              | Some r => Some (mkState (calls s) (gmap s) ((t, Returned c r 0%nat) :: threads s))
              | None => None                            (* wg not Done yet: still blocked *)
              end
          | None => None
          end
      | _ => None
      end
  end.

Fixpoint run {R} (s : state R) (tr : list (event R)) : option (state R) :=
  match tr with
  | [] => Some s
  | e :: tr' => match step s e with Some s' => run s' tr' | None => None end
  end.

(* every event list the LTS accepts from the empty group = every interleaving *)
Definition reach {R} (tr : list (event R)) (s : state R) : Prop := run init tr = Some s.

(* t shares call c: created it or joined it *)
Definition in_call {R} (s : state R) (t c : tid) : Prop :=
  match thread s t with
  | Some Leading | Some LedDone => c = t
  | Some (Following c') => c = c'
  | Some (Returned c' _ _) => c = c'
  | None => False
  end.

(* ---------- wrapper layer ---------- *)
Definition slash : N := 47.
Definition colon : N := 58.
Definition comma : N := 44.

(* Go string comparison: bytewise lexicographic; sort.Strings as insertion sort (any correct
   sort yields the same list: the order is total on strings) *)
Fixpoint str_leb (a b : str) : bool :=
  match a, b with
  | [], _ => true
  | _ :: _, [] => false
  | x :: a', y :: b' => if N.ltb x y then true else if N.eqb x y then str_leb a' b' else false
  end.
Fixpoint insert_str (x : str) (l : list str) : list str :=
  match l with
  | [] => [x]
  | y :: l' => if str_leb x y then x :: y :: l' else y :: insert_str x l'
  end.
Definition sort_strs (l : list str) : list str := fold_right insert_str [] l.

(* the session fields the inner providers touch (internal/pkg/sessions/session_state.go:17-33) *)
Record session := mkSession {
  s_access : str;
  s_refresh_token : str;
  s_refresh_deadline : Z;
  s_valid_deadline : Z;
  s_lifetime_deadline : Z;
  s_grace_start : Z;            (* 0 = zero time *)
  s_groups : list str;
  s_email : str
}.

(* what an inner provider did to the *SessionState it was handed: exactly the five fields
   RefreshSession / ValidateSessionState assign (proxy sso.go:241-281, 336-394) *)
Record update := mkUpdate {
  u_access : option str;
  u_refresh_deadline : option Z;
  u_valid_deadline : option Z;
  u_groups : option (list str);
  u_grace_start : option Z
}.
Definition no_update := mkUpdate None None None None None.
Definition ov {A} (o : option A) (d : A) : A := match o with Some x => x | None => d end.
Definition apply_update (u : update) (s : session) : session :=
  mkSession (ov (u_access u) (s_access s)) (s_refresh_token s)
            (ov (u_refresh_deadline u) (s_refresh_deadline s))
            (ov (u_valid_deadline u) (s_valid_deadline s))
            (s_lifetime_deadline s)
            (ov (u_grace_start u) (s_grace_start s))
            (ov (u_groups u) (s_groups s)) (s_email s).

(* The coalesced methods. Endpoint names are the literal first arguments of p.do(...).
   proxy: singleflight_middleware.go:79-132; auth: :79-175 *)
Inductive endpoint :=
| PUserGroups | PValidate | PRefresh
| AValidate | ARefresh | AGroupMembership | ARevoke | ARefreshAccessToken.

Definition endpoint_name (e : endpoint) : str :=
  match e with
  | PUserGroups => [85;115;101;114;71;114;111;117;112;115]                                   (* "UserGroups" *)
  | PValidate | AValidate =>
      [86;97;108;105;100;97;116;101;83;101;115;115;105;111;110;83;116;97;116;101]            (* "ValidateSessionState" *)
  | PRefresh => [82;101;102;114;101;115;104;83;101;115;115;105;111;110]                     (* "RefreshSession" *)
  | ARefresh => [82;101;102;114;101;115;104;83;101;115;115;105;111;110;73;102;78;101;101;100;101;100]
                                                                                              (* "RefreshSessionIfNeeded" *)
  | AGroupMembership => [86;97;108;105;100;97;116;101;71;114;111;117;112;77;101;109;98;101;114;115;104;105;112]
                                                                                              (* "ValidateGroupMembership" *)
  | ARevoke => [82;101;118;111;107;101]                                                      (* "Revoke" *)
  | ARefreshAccessToken => [82;101;102;114;101;115;104;65;99;99;101;115;115;84;111;107;101;110]
                                                                                              (* "RefreshAccessToken" *)
  end.

Inductive service := Proxy | Auth.
Definition service_of (e : endpoint) : service :=
  match e with PUserGroups | PValidate | PRefresh => Proxy | _ => Auth end.

(* what a caller asks *)
Inductive question :=
| QSession (e : endpoint) (s : session) (allowed : list str)
    (* validate / refresh / revoke: by the caller's own session. [allowed] is the allowedGroups
       argument of the proxy's ValidateSessionState / RefreshSession (proxy :107, :127); the auth
       methods have no such argument ([]). The inner provider's answer depends on it
       (sso.go:264-281, 371-394) and, since the repair of C16-K3, so does the key. *)
| QGroups (e : endpoint) (email : str) (groups : list str)  (* UserGroups / ValidateGroupMembership *)
| QToken (e : endpoint) (refresh_token : str).              (* RefreshAccessToken *)

Definition q_endpoint (q : question) : endpoint :=
  match q with QSession e _ _ => e | QGroups e _ _ => e | QToken e _ => e end.

(* which token names a session-keyed call: the refresh token for the refresh methods, the access
   token otherwise *)
Definition session_token (e : endpoint) (s : session) : str :=
  match e with PRefresh | ARefresh => s_refresh_token s | _ => s_access s end.

(* strconv.IsPrint for runes >= 0x80 is a library table: the model lists the non-printable ones
   among the code points the driver uses (U+00A0, U+00AD, U+200B, U+E0001) and takes every other
   rune >= 0x80 as printable. Every lemma about the quoting holds for EVERY table
   (GoQuote_proofs); the observed keys are compared with the model's on every run. *)
Definition go_isprint (cp : N) : bool := negb (existsb (N.eqb cp) [160; 173; 8203; 917505]).
Definition qq (s : str) : str := go_quote go_isprint s.
Definition ql (l : list str) : str := go_qlist go_isprint l.

(* fmt.Sprintf with format %q:%q of (string, string) and of (string, sorted []string) *)
Definition pair_key (a b : str) : str := qq a ++ [colon] ++ qq b.
Definition list_key (a : str) (l : list str) : str := qq a ++ [colon] ++ ql (sort_strs l).

(* second argument of p.do (repaired keys, /repo commits 4af0640, 8276927, 7e98525):
     proxy UserGroups :91 / auth ValidateGroupMembership :123   %q:%q of (email, groups) after sort.Strings(groups)
     proxy ValidateSessionState :109 / RefreshSession :129      sessionKey(token, allowedGroups) :54-58
                                                                 = %q:%q of (token, sorted copy of allowedGroups)
     auth Revoke :143                                            %q:%q of (access token, refresh token)
     auth ValidateSessionState :79, RefreshSessionIfNeeded :103, RefreshAccessToken :156: the bare token *)
Definition sub_key (q : question) : str :=
  match q with
  | QSession e s al =>
      match e with
      | PValidate | PRefresh => list_key (session_token e s) al
      | ARevoke => pair_key (s_access s) (s_refresh_token s)
      | _ => session_token e s
      end
  | QGroups _ email groups => list_key email groups
  | QToken _ tok => tok
  end.

(* do(): compositeKey := fmt.Sprintf("%s/%s", endpoint, key)   (proxy :61, auth :52) *)
Definition wrapper_key (q : question) : str := endpoint_name (q_endpoint q) ++ [slash] ++ sub_key q.

(* the subject a key identifies *)
Inductive subject :=
| SubjToken (ep : str) (tok : str)
| SubjPair (ep : str) (access refresh : str)
| SubjGroups (ep : str) (email : str) (sorted_groups : list str).
Definition subject_of (q : question) : subject :=
  match q with
  | QSession ARevoke s _ => SubjPair (endpoint_name ARevoke) (s_access s) (s_refresh_token s)
  | QSession e s _ => SubjToken (endpoint_name e) (session_token e s)
  | QGroups e email groups => SubjGroups (endpoint_name e) email (sort_strs groups)
  | QToken e tok => SubjToken (endpoint_name e) tok
  end.

(* the group set a session-keyed proxy question asks about (as a set: sorted) *)
Definition allowed_of (q : question) : list str :=
  match q with
  | QSession PValidate _ al | QSession PRefresh _ al => sort_strs al
  | _ => []
  end.

Definition no_byte (c : N) (s : str) : bool := negb (existsb (N.eqb c) s).

(* values that travel through Do as interface{} / error *)
Inductive value :=
| VNil
| VBool (b : bool)
| VGroups (l : list str)
| VToken (tok : str) (expires_in : Z).
Definition result := (value * N)%type.     (* (val, err): err 0 = nil, otherwise an error identity *)

Inductive wevent :=
| WEnter (t : tid) (q : question)
| WFnReturn (t : tid) (r : result) (u : update)   (* the inner provider returns r, having applied u to the session it was handed *)
| WCleanup (t : tid)
| WWake (t : tid).

Record wstate := mkW {
  w_g : state result;
  w_q : list (tid * question);          (* what each caller asked *)
  w_sess : list (tid * session)         (* each caller's own *SessionState object *)
}.
Definition winit : wstate := mkW init [] [].

Definition q_session (q : question) : option session :=
  match q with QSession _ s _ => Some s | _ => None end.

Definition wstep (w : wstate) (e : wevent) : option wstate :=
  match e with
  | WEnter t q =>
      match step (w_g w) (Enter t (wrapper_key q)) with
      | Some g' => Some (mkW g' ((t, q) :: w_q w)
                             (match q_session q with Some s => (t, s) :: w_sess w | None => w_sess w end))
      | None => None
      end
  | WFnReturn t r u =>
      (* the closure captured the LEADER's session pointer: only w_sess t is written *)
      match step (w_g w) (FnReturn t r) with
      | Some g' => Some (mkW g' (w_q w)
                             (match alookup Nat.eqb t (w_sess w) with
                              | Some s => (t, apply_update u s) :: w_sess w
                              | None => w_sess w
                              end))
      | None => None
      end
  | WCleanup t =>
      match step (w_g w) (Cleanup t) with Some g' => Some (mkW g' (w_q w) (w_sess w)) | None => None end
  | WWake t =>
      match step (w_g w) (Wake t) with Some g' => Some (mkW g' (w_q w) (w_sess w)) | None => None end
  end.

Fixpoint wrun (w : wstate) (tr : list wevent) : option wstate :=
  match tr with
  | [] => Some w
  | e :: tr' => match wstep w e with Some w' => wrun w' tr' | None => None end
  end.
Definition wreach (tr : list wevent) (w : wstate) : Prop := wrun winit tr = Some w.

Definition erase (e : wevent) : event result :=
  match e with
  | WEnter t q => Enter t (wrapper_key q)
  | WFnReturn t r _ => FnReturn t r
  | WCleanup t => Cleanup t
  | WWake t => Wake t
  end.

Definition wsession (w : wstate) (t : tid) : option session := alookup Nat.eqb t (w_sess w).
Definition wquestion (w : wstate) (t : tid) : option question := alookup Nat.eqb t (w_q w).

(* ---------- several wrapper objects ----------
   proxy.New builds one SingleFlightProvider per upstream (proxy.go:30-38 -> options.go:162-193),
   auth's options build one per configured provider (auth/options.go:43-72); each constructor
   allocates its own &singleflight.Group{} (proxy middleware :45-51, auth :45-50). So a deployment
   is a family of independent wrapper LTSs: an event happens at one wrapper object and touches
   only that object's group. *)
Definition mevent := (nat * wevent)%type.
Definition mstate := list (nat * wstate).
Definition component (m : mstate) (a : nat) : wstate :=
  match alookup Nat.eqb a m with Some w => w | None => winit end.
Definition mstep (m : mstate) (e : mevent) : option mstate :=
  match wstep (component m (fst e)) (snd e) with
  | Some w' => Some ((fst e, w') :: m)
  | None => None
  end.
Fixpoint mrun (m : mstate) (tr : list mevent) : option mstate :=
  match tr with
  | [] => Some m
  | e :: tr' => match mstep m e with Some m' => mrun m' tr' | None => None end
  end.
Definition mreach (tr : list mevent) (m : mstate) : Prop := mrun [] tr = Some m.

(* the events that happened at wrapper object a *)
Fixpoint project (a : nat) (tr : list mevent) : list wevent :=
  match tr with
  | [] => []
  | (b, e) :: tr' => if Nat.eqb b a then e :: project a tr' else project a tr'
  end.

(* ---------- the execution log ----------
   What an inner provider (or fn) sees: an execution begins when a caller that created a call runs
   fn, and ends when fn returns. *)
Inductive logev := LBegin (t : tid) | LEnd (t : tid).

Definition log_of {R} (s' : state R) (e : event R) : list logev :=
  match e with
  | Enter t _ => match thread s' t with Some Leading => [LBegin t] | _ => [] end
  | FnReturn t _ => [LEnd t]
  | _ => []
  end.

Fixpoint run_log {R} (s : state R) (acc : list logev) (tr : list (event R)) : option (state R * list logev) :=
  match tr with
  | [] => Some (s, acc)
  | e :: tr' => match step s e with Some s' => run_log s' (acc ++ log_of s' e) tr' | None => None end
  end.
