(* IdToken.v — C10: the provider [Redeem] paths of sso-auth and the callback's error mapping.

   Modelled after the Go code that exists (pinned tree):
     internal/auth/providers/google.go         157-236 googleRequest, 238-263 emailFromIDToken,
                                               265-271 jwtDecodeSegment, 299-337 Redeem
     internal/auth/providers/okta.go           150-230 oktaRequest, 258-293 Redeem,
                                               298-315 verifyEmailWithAccessToken, 351-368 GetUserProfile
     internal/auth/providers/amazon_cognito.go 158-242 amazonCognitoRequest, 270-306 Redeem,
                                               311-326 verifyEmailWithAccessToken, 403-420 GetUserProfile
     internal/auth/authenticator.go            497-512 redeemCode, 514-548 getOAuthCallback (up to the
                                               redeem step; the later gates enter as one explicit
                                               argument), 616-631 OAuthCallback (error mapping)
     encoding/base64 (go1.23.5) Encoding.Decode / decodeQuantum for URLEncoding (padded, non-strict)

   Oracles (explicit arguments, never axioms):
   * encoding/json DECODING.  An answer body enters as a class: [NotJSON] (json.Unmarshal into the
     target struct fails at the top level: syntax error, trailing data, a top-level array / string /
     number) or [Json fields], one [jv] per field name the target struct declares.  [JMissing]
     covers an absent key, an explicit null and the top-level literal null (all three leave Go's
     zero value).  What the TYPED struct decoding then does with a field class is modelled here
     ([as_string], [as_bool], [as_int64], [as_strings]): a class of the wrong type makes
     json.Unmarshal return an error (checked on the real code by the driver).
   * the id-token payload: the model computes the payload BYTES itself (split, pad, base64) and
     asks the oracle [str -> body user_fields] for the JSON class of exactly those bytes.
   * the HTTP transport: an answer is [TransportErr] (httpClient.Do or the body read fails) or
     [Resp status body].

   [len_check] = false is today's emailFromIDToken (indexes jwt[1] unconditionally: Go panics
   when the id_token holds no '.'); [len_check] = true is the repaired function that rejects
   [len(jwt) < 2] with an error.  No proofs in this file. *)
From V Require Import Base.

(* ------------------------------------------------------------------------------------------ *)
(* JSON classes (oracle for encoding/json decoding)                                            *)

Inductive jv :=
| JMissing                    (* key absent, or null *)
| JStr (s : str)
| JBool (b : bool)
| JNum (n : Z)                (* a number literal that strconv.ParseInt(_,10,64) accepts *)
| JStrs (l : list str)        (* an array whose elements are strings (null element = "") *)
| JOther.                     (* object, other arrays, non-integer / out-of-range numbers *)

(* what decoding into a Go field of the given type does: None = json.Unmarshal returns an error *)
Definition as_string (v : jv) : option str :=
  match v with JMissing => Some [] | JStr s => Some s | _ => None end.
Definition as_bool (v : jv) : option bool :=
  match v with JMissing => Some false | JBool b => Some b | _ => None end.
Definition as_int64 (v : jv) : option Z :=
  match v with JMissing => Some 0%Z | JNum n => Some n | _ => None end.
Definition as_strings (v : jv) : option (list str) :=
  match v with JMissing => Some [] | JStrs l => Some l | _ => None end.

(* token endpoint answer: the anonymous struct of Redeem (google.go:311-316, okta.go:270-275,
   amazon_cognito.go:281-286) *)
Record tok_fields := { f_access : jv; f_refresh : jv; f_expires : jv; f_idtoken : jv }.
(* userinfo answer (okta.go:28-32 GetUserProfileResponse, amazon_cognito.go:31-34) and the
   id-token payload (google.go:248-251); a provider reads only the fields its struct declares *)
Record user_fields := { f_email : jv; f_verified : jv; f_groups : jv; f_username : jv }.

Inductive body (F : Type) := NotJSON | Json (f : F).
Arguments NotJSON {F}.
Arguments Json {F} f.

Inductive answer (F : Type) := TransportErr | Resp (status : N) (b : body F).
Arguments TransportErr {F}.
Arguments Resp {F} status b.

(* ------------------------------------------------------------------------------------------ *)
(* outcomes                                                                                    *)

Inductive err_kind :=
| EBadRequest      (* providers.ErrBadRequest or ErrTokenRevoked (both from a 400) *)
| ERateLimit       (* providers.ErrRateLimitExceeded *)
| EUnavailable     (* providers.ErrServiceUnavailable *)
| EOther.          (* any other error value *)

Record session := { s_email : str; s_access : str; s_refresh : str; s_expires_in : Z }.

Inductive outcome := Session (s : session) | Error (e : err_kind) | Panic.

Inductive provider := Google | Okta | Cognito.

(* ------------------------------------------------------------------------------------------ *)
(* base64.URLEncoding.DecodeString (padded alphabet "-_", non-strict, CR/LF skipped)           *)

Definition dot : N := 46.
Definition eq_sign : N := 61.
Definition is_nl (c : N) : bool := N.eqb c 10 || N.eqb c 13.

Definition sextet (c : N) : option N :=
  if (65 <=? c) && (c <=? 90) then Some (c - 65)
  else if (97 <=? c) && (c <=? 122) then Some (c - 71)
  else if (48 <=? c) && (c <=? 57) then Some (c + 4)
  else if c =? 45 then Some 62
  else if c =? 95 then Some 63
  else None.

Fixpoint skip_nl (s : str) : str :=
  match s with
  | c :: s' => if is_nl c then skip_nl s' else s
  | [] => []
  end.

(* the bytes of a quantum of 2, 3 or 4 sextets (decodeQuantum's final switch; enc.strict is false,
   so the unused low bits of the last sextet are dropped without complaint) *)
Definition emit (q : list N) : str :=
  match q with
  | [a; b] => [a * 4 + b / 16]
  | [a; b; c] => [a * 4 + b / 16; (b mod 16) * 16 + c / 4]
  | [a; b; c; d] => [a * 4 + b / 16; (b mod 16) * 16 + c / 4; (c mod 4) * 64 + d]
  | _ => []
  end.

(* Encoding.Decode = decodeQuantum until the input is used up (the 8- and 4-byte fast paths are
   decodeQuantum on all-valid characters).  [q] = the sextets of the current quantum so far. *)
Fixpoint b64_go (s : str) (q : list N) : option str :=
  match s with
  | [] => match q with [] => Some [] | _ => None end        (* j = 0: done; else CorruptInputError *)
  | c :: s' =>
      match sextet c with
      | Some v =>
          match q with
          | [a; b; c3] => option_map (app (emit [a; b; c3; v])) (b64_go s' [])
          | _ => b64_go s' (q ++ [v])
          end
      | None =>
          if is_nl c then b64_go s' q
          else if c =? eq_sign then
            match q with
            | [a; b] =>                                       (* "==" expected *)
                match skip_nl s' with
                | c2 :: r =>
                    if c2 =? eq_sign
                    then match skip_nl r with [] => Some (emit q) | _ => None end
                    else None
                | [] => None
                end
            | [a; b; c3] => match skip_nl s' with [] => Some (emit q) | _ => None end
            | _ => None                                       (* '=' at j = 0 or 1 *)
            end
          else None
      end
  end.

Definition b64url_decode (s : str) : option str := b64_go s [].

(* jwtDecodeSegment, google.go:265-271 *)
Definition pad4 (seg : str) : str :=
  let l := Nat.modulo (length seg) 4 in
  match l with
  | O => seg
  | _ => seg ++ repeat eq_sign (4 - l)
  end.
Definition jwt_decode_segment (seg : str) : option str := b64url_decode (pad4 seg).

(* ------------------------------------------------------------------------------------------ *)
(* googleRequest / oktaRequest / amazonCognitoRequest: status and body handling                *)

Definition provider_request {F R : Type} (decode : F -> option R) (a : answer F) : R + err_kind :=
  match a with
  | TransportErr => inr EOther                            (* httpClient.Do / ioutil.ReadAll error *)
  | Resp st b =>
      if st =? 200 then
        match b with
        | NotJSON => inr EOther                           (* json.Unmarshal error *)
        | Json f => match decode f with Some r => inl r | None => inr EOther end
        end
      else if st =? 400 then inr EBadRequest              (* ErrBadRequest / ErrTokenRevoked *)
      else if st =? 429 then inr ERateLimit
      else inr EUnavailable
  end.

(* decoding into the anonymous response struct of Redeem *)
Definition decode_tok (f : tok_fields) : option (str * str * Z * str) :=
  match as_string (f_access f), as_string (f_refresh f), as_int64 (f_expires f), as_string (f_idtoken f) with
  | Some a, Some r, Some e, Some i => Some (a, r, e, i)
  | _, _, _, _ => None
  end.

(* google.go:248-255: struct { Email string; EmailVerified bool } *)
Definition decode_payload (f : user_fields) : option (str * bool) :=
  match as_string (f_email f), as_bool (f_verified f) with
  | Some e, Some v => Some (e, v)
  | _, _ => None
  end.

(* okta.go:28-32 *)
Definition decode_okta_user (f : user_fields) : option (str * bool) :=
  match as_string (f_email f), as_bool (f_verified f), as_strings (f_groups f) with
  | Some e, Some v, Some _ => Some (e, v)
  | _, _, _ => None
  end.

(* amazon_cognito.go:31-34 *)
Definition decode_cognito_user (f : user_fields) : option str :=
  match as_string (f_email f), as_string (f_username f) with
  | Some e, Some _ => Some e
  | _, _ => None
  end.

(* ------------------------------------------------------------------------------------------ *)
(* Google: emailFromIDToken, google.go:238-263                                                 *)

Inductive eres := EOk (email : str) | EErr | EPanic.

Definition is_nil {A} (l : list A) : bool := match l with [] => true | _ => false end.

Definition email_from_id_token (len_check : bool) (oracle : str -> body user_fields) (id_token : str) : eres :=
  let jwt := split_on dot id_token in                    (* strings.Split(idToken, ".") *)
  if len_check && Nat.ltb (length jwt) 2 then EErr       (* repaired code only *)
  else
  match nth_error jwt 1 with                              (* jwt[1] *)
  | None => EPanic                                        (* index out of range [1] with length 1 *)
  | Some seg =>
      match jwt_decode_segment seg with
      | None => EErr
      | Some b =>
          match oracle b with                             (* json.Unmarshal(b, &email) *)
          | NotJSON => EErr
          | Json f =>
              match decode_payload f with
              | None => EErr
              | Some (email, verified) =>
                  if is_nil email then EErr               (* "missing email" *)
                  else if negb verified then EErr         (* "not listed as verified" *)
                  else EOk email
              end
          end
      end
  end.

(* ------------------------------------------------------------------------------------------ *)
(* Okta / Cognito: verifyEmailWithAccessToken + GetUserProfile                                 *)

(* httpguts.ValidHeaderFieldValue on "Bearer <token>": a control byte other than TAB makes
   http.Transport.RoundTrip refuse the request before anything is sent *)
Definition header_byte_ok (c : N) : bool := (32 <=? c) && negb (c =? 127) || (c =? 9).
Definition header_value_ok (s : str) : bool := forallb header_byte_ok s.

(* result and "was the userinfo endpoint called" *)
Definition verify_email_okta (access : str) (ui : answer user_fields) : (str + err_kind) * bool :=
  if is_nil access then (inr EBadRequest, false)                 (* okta.go:299-301 *)
  else if negb (header_value_ok access) then (inr EOther, false)  (* httpClient.Do error *)
  else match provider_request decode_okta_user ui with
       | inr e => (inr e, true)
       | inl (email, verified) =>
           if is_nil email then (inr EOther, true)                (* "missing email" *)
           else if negb verified then (inr EOther, true)          (* "email not verified" *)
           else (inl email, true)
       end.

Definition verify_email_cognito (access : str) (ui : answer user_fields) : (str + err_kind) * bool :=
  if is_nil access then (inr EBadRequest, false)
  else if negb (header_value_ok access) then (inr EOther, false)
  else match provider_request decode_cognito_user ui with
       | inr e => (inr e, true)
       | inl email =>
           if is_nil email then (inr EOther, true)
           else (inl email, true)
       end.

(* ------------------------------------------------------------------------------------------ *)
(* Redeem: outcome, token endpoint called?, userinfo endpoint called?                          *)

Definition redeem_tr (len_check : bool) (prov : provider) (oracle : str -> body user_fields)
    (code : str) (tok : answer tok_fields) (ui : answer user_fields) : outcome * bool * bool :=
  if is_nil code then (Error EBadRequest, false, false)            (* code == "" *)
  else
  match provider_request decode_tok tok with
  | inr e => (Error e, true, false)
  | inl (access, refresh, expires, id_token) =>
      match prov with
      | Google =>
          match email_from_id_token len_check oracle id_token with
          | EPanic => (Panic, true, false)
          | EErr => (Error EOther, true, false)
          | EOk email =>
              (Session {| s_email := email; s_access := access; s_refresh := refresh; s_expires_in := expires |},
               true, false)
          end
      | Okta =>
          match verify_email_okta access ui with
          | (inr e, called) => (Error e, true, called)
          | (inl email, called) =>
              (Session {| s_email := email; s_access := access; s_refresh := refresh; s_expires_in := expires |},
               true, called)
          end
      | Cognito =>
          match verify_email_cognito access ui with
          | (inr e, called) => (Error e, true, called)
          | (inl email, called) =>
              (Session {| s_email := email; s_access := access; s_refresh := refresh; s_expires_in := expires |},
               true, called)
          end
      end
  end.

Definition redeem (len_check : bool) (prov : provider) (oracle : str -> body user_fields)
    (code : str) (tok : answer tok_fields) (ui : answer user_fields) : outcome :=
  fst (fst (redeem_tr len_check prov oracle code tok ui)).

(* ------------------------------------------------------------------------------------------ *)
(* authenticator.go: redeemCode (497-512), getOAuthCallback (514-548 + later gates),           *)
(* OAuthCallback (616-631)                                                                     *)

Definition redeem_code (o : outcome) : outcome :=
  match o with
  | Session s => if is_nil (s_email s) then Error EOther else Session s   (* "no email included in session" *)
  | _ => o
  end.

Inductive cb_result :=
| CbDropped                    (* the handler panicked: net/http drops the connection, no response *)
| CbErrorPage (status : N)     (* ErrorResponse: error page, no session cookie *)
| CbRedirect (s : session).    (* session cookie set, 302 to the proxy *)

(* [err_param]: the request carries a non-empty "error" form value; [later]: the gates after the
   redeem step (state decoding, CSRF, redirect URI, validators, SaveSession) — [Some st] = one
   of them fails with HTTP status [st], [None] = all pass.  They are C07/C09 territory; here they
   only matter because a failure there must not set a session cookie either. *)
Definition oauth_callback (len_check : bool) (prov : provider) (oracle : str -> body user_fields)
    (err_param : bool) (code : str) (tok : answer tok_fields) (ui : answer user_fields)
    (later : option N) : cb_result :=
  if err_param then CbErrorPage 403
  else if is_nil code then CbErrorPage 400                                  (* "Missing Code" *)
  else
  match redeem_code (redeem len_check prov oracle code tok ui) with
  | Panic => CbDropped
  | Error _ => CbErrorPage 500                  (* not an HTTPError: default branch, "Internal Error" *)
  | Session s =>
      match later with
      | Some st => CbErrorPage st
      | None => CbRedirect s
      end
  end.

(* the e-mail inside the session cookie the response sets, if it sets one *)
Definition session_cookie (r : cb_result) : option str :=
  match r with CbRedirect s => Some (s_email s) | _ => None end.
