(* Json.v — model for C20 (JSON error bodies): encoding/json's string encoder with HTML escaping
   on bytes, the two error-body shapes of sso, and an independent recogniser for JSON strings
   (RFC 8259 string grammar + well-formed UTF-8, Unicode table 3-7).

   Go code followed (go1.23.5):
     GOROOT/src/encoding/json/encode.go:967-1037  appendString (escapeHTML = true: json.Marshal
                                                  and json.NewEncoder both default to it)
     GOROOT/src/encoding/json/tables.go           htmlSafeSet
     GOROOT/src/unicode/utf8/utf8.go              DecodeRuneInString (first / acceptRanges tables)
     /repo/internal/auth/error.go:45-54, http.go:10-18   {"error": message} + Encoder newline
     /repo/internal/proxy/oauthproxy.go:224-244   XHRError marshals an [error] VALUE: an
                                                  *errors.errorString has no exported field,
                                                  so the body is the constant {"error":{}}
   No proofs in this file. *)
From V Require Import Base.
Open Scope N_scope.

(** * UTF-8 *)

Definition cont (b : N) : bool := (128 <=? b) && (b <=? 191).
Definition lo3 (b0 : N) : N := if b0 =? 224 then 160 else 128.
Definition hi3 (b0 : N) : N := if b0 =? 237 then 159 else 191.
Definition lo4 (b0 : N) : N := if b0 =? 240 then 144 else 128.
Definition hi4 (b0 : N) : N := if b0 =? 244 then 143 else 191.

(* utf8.DecodeRuneInString: the width of the well-formed sequence at the head of [s];
   0 stands for (RuneError, 1) — ill-formed, truncated, overlong, surrogate, > U+10FFFF *)
Definition utf8_len (s : str) : nat :=
  match s with
  | [] => 0%nat
  | b0 :: r =>
      if b0 <? 128 then 1%nat
      else if (194 <=? b0) && (b0 <=? 223) then
        match r with b1 :: _ => if cont b1 then 2%nat else 0%nat | _ => 0%nat end
      else if (224 <=? b0) && (b0 <=? 239) then
        match r with
        | b1 :: b2 :: _ => if (lo3 b0 <=? b1) && (b1 <=? hi3 b0) && cont b2 then 3%nat else 0%nat
        | _ => 0%nat
        end
      else if (240 <=? b0) && (b0 <=? 244) then
        match r with
        | b1 :: b2 :: b3 :: _ =>
            if (lo4 b0 <=? b1) && (b1 <=? hi4 b0) && cont b2 && cont b3 then 4%nat else 0%nat
        | _ => 0%nat
        end
      else 0%nat
  end.

(** * appendString *)

Definition hexd (n : N) : N := if n <? 10 then 48 + n else 87 + n.   (* "0123456789abcdef" *)

(* one byte < 0x80 (encode.go:971-1000) *)
Definition json_ascii (b : N) : str :=
  if (b =? 34) || (b =? 92) then [92; b]
  else if b =? 8 then [92;98]
  else if b =? 12 then [92;102]
  else if b =? 10 then [92;110]
  else if b =? 13 then [92;114]
  else if b =? 9 then [92;116]
  else if (b <? 32) || (b =? 60) || (b =? 62) || (b =? 38) then
    [92;117;48;48; hexd (b / 16); hexd (b mod 16)]
  else [b].

(* U+2028 / U+2029 = E2 80 A8 / E2 80 A9 *)
Definition ls_ps (s : str) : option N :=
  match s with
  | b0 :: b1 :: b2 :: _ =>
      if (b0 =? 226) && (b1 =? 128) && ((b2 =? 168) || (b2 =? 169)) then Some (hexd (b2 - 160)) else None
  | _ => None
  end.

(* the loop of appendString; one unit of fuel per rune (fuel = length is always enough) *)
Fixpoint json_body (fuel : nat) (s : str) : str :=
  match fuel with
  | O => []
  | S f =>
      match s with
      | [] => []
      | b0 :: r =>
          match utf8_len s with
          | O => [92;117;102;102;102;100] ++ json_body f r                (* backslash-u fffd *)
          | S O => json_ascii b0 ++ json_body f r
          | n => match ls_ps s with
                 | Some h => [92;117;50;48;50;h] ++ json_body f (skipn 3 s)   (* backslash-u 2028 / 2029 *)
                 | None => firstn n s ++ json_body f (skipn n s)
                 end
          end
      end
  end.

Definition json_string (s : str) : str := 34 :: json_body (length s) s ++ [34].

(* auth ErrorResponse with Accept: application/json — struct{Error string `json:"error"`}
   through json.NewEncoder(rw).Encode, which appends a newline *)
Definition error_key : str := [123;34;101;114;114;111;114;34;58].     (* {"error": *)
Definition auth_error_json (msg : str) : str := error_key ++ json_string msg ++ [125;10].

(* proxy XHRError — struct{Error error `json:"error"`}{errors.New(message)} through json.Marshal *)
Definition proxy_xhr_json (msg : str) : str := error_key ++ [123;125;125].

(** * Recogniser (independent of the encoder): a byte-wise automaton *)

Inductive jst :=
| JStart | JBody | JEsc | JHex (k : nat) | JCont (lo hi : N) (k : nat) | JEnd | JRej.

Definition is_hex (b : N) : bool :=
  ((48 <=? b) && (b <=? 57)) || ((65 <=? b) && (b <=? 70)) || ((97 <=? b) && (b <=? 102)).

Definition jstep (st : jst) (b : N) : jst :=
  match st with
  | JStart => if b =? 34 then JBody else JRej
  | JBody =>
      if b =? 34 then JEnd
      else if b =? 92 then JEsc
      else if b <? 32 then JRej
      else if b <? 128 then JBody
      else if (194 <=? b) && (b <=? 223) then JCont 128 191 0
      else if b =? 224 then JCont 160 191 1
      else if b =? 237 then JCont 128 159 1
      else if (225 <=? b) && (b <=? 239) then JCont 128 191 1
      else if b =? 240 then JCont 144 191 2
      else if (241 <=? b) && (b <=? 243) then JCont 128 191 2
      else if b =? 244 then JCont 128 143 2
      else JRej
  | JEsc =>
      if (b =? 34) || (b =? 92) || (b =? 47) || (b =? 98) || (b =? 102) || (b =? 110) ||
         (b =? 114) || (b =? 116) then JBody
      else if b =? 117 then JHex 4
      else JRej
  | JHex k =>
      if is_hex b then match k with O => JRej | S O => JBody | S k' => JHex k' end else JRej
  | JCont lo hi k =>
      if (lo <=? b) && (b <=? hi) then match k with O => JBody | S k' => JCont 128 191 k' end
      else JRej
  | JEnd => JRej
  | JRej => JRej
  end.

(* scan one JSON string; the remainder after its closing quote *)
Fixpoint scan (st : jst) (s : str) : option str :=
  match s with
  | [] => None
  | b :: r => match jstep st b with
              | JEnd => Some r
              | JRej => None
              | st' => scan st' r
              end
  end.

Definition json_string_ok (s : str) : bool :=
  match scan JStart s with Some [] => true | _ => false end.

Fixpoint strip_prefix (p s : str) : option str :=
  match p, s with
  | [], _ => Some s
  | c :: p', d :: s' => if c =? d then strip_prefix p' s' else None
  | _ :: _, [] => None
  end.

(* one object {"error": V} (optionally followed by the encoder's newline) where V is a JSON
   string or the empty object *)
Definition json_error_doc_ok (body : str) : bool :=
  let tail_ok t := str_eqb t [125] || str_eqb t [125;10] in
  match strip_prefix error_key body with
  | Some rest =>
      match strip_prefix [123;125] rest with
      | Some t => tail_ok t
      | None => match scan JStart rest with Some t => tail_ok t | None => false end
      end
  | None => false
  end.

(** * General recogniser: one JSON value (RFC 8259), as a byte-wise pushdown automaton.
    Strings go through the string automaton above (so escapes and UTF-8 are checked). *)

Inductive nst := NMinus | NZero | NInt | NDot | NFrac | NExp | NExpSign | NExpDigits.
Definition num_complete (n : nst) : bool :=
  match n with NZero | NInt | NFrac | NExpDigits => true | _ => false end.
Definition is_digit (b : N) : bool := (48 <=? b) && (b <=? 57).
Definition num_step (n : nst) (b : N) : option nst :=
  match n with
  | NMinus => if b =? 48 then Some NZero else if is_digit b then Some NInt else None
  | NZero => if b =? 46 then Some NDot else if (b =? 101) || (b =? 69) then Some NExp else None
  | NInt => if is_digit b then Some NInt else if b =? 46 then Some NDot
            else if (b =? 101) || (b =? 69) then Some NExp else None
  | NDot => if is_digit b then Some NFrac else None
  | NFrac => if is_digit b then Some NFrac else if (b =? 101) || (b =? 69) then Some NExp else None
  | NExp => if is_digit b then Some NExpDigits else if (b =? 43) || (b =? 45) then Some NExpSign else None
  | NExpSign => if is_digit b then Some NExpDigits else None
  | NExpDigits => if is_digit b then Some NExpDigits else None
  end.

Inductive pst :=
| PValue                          (* a value is due *)
| PStr (j : jst) (key : bool)     (* inside a string (object key or value) *)
| PNum (n : nst)
| PLit (rest : str)               (* the rest of true / false / null *)
| PAfter                          (* after a value *)
| PObjFirst | PObjKey | PColon | PArrFirst.

Definition json_ws (b : N) : bool := (b =? 32) || (b =? 9) || (b =? 10) || (b =? 13).

(* stack: true = inside an object, false = inside an array *)
Definition after_step (stk : list bool) (b : N) : option (pst * list bool) :=
  if json_ws b then Some (PAfter, stk)
  else match stk with
       | [] => None
       | true :: r => if b =? 44 then Some (PObjKey, stk) else if b =? 125 then Some (PAfter, r) else None
       | false :: r => if b =? 44 then Some (PValue, stk) else if b =? 93 then Some (PAfter, r) else None
       end.

Definition value_step (stk : list bool) (b : N) : option (pst * list bool) :=
  if b =? 34 then Some (PStr JBody false, stk)
  else if b =? 123 then Some (PObjFirst, true :: stk)
  else if b =? 91 then Some (PArrFirst, false :: stk)
  else if b =? 45 then Some (PNum NMinus, stk)
  else if b =? 48 then Some (PNum NZero, stk)
  else if is_digit b then Some (PNum NInt, stk)
  else if b =? 116 then Some (PLit [114;117;101], stk)          (* true *)
  else if b =? 102 then Some (PLit [97;108;115;101], stk)       (* false *)
  else if b =? 110 then Some (PLit [117;108;108], stk)          (* null *)
  else None.

Definition pstep (s : pst * list bool) (b : N) : option (pst * list bool) :=
  let '(st, stk) := s in
  match st with
  | PValue => if json_ws b then Some (PValue, stk) else value_step stk b
  | PStr j key =>
      match jstep j b with
      | JRej => None
      | JEnd => Some (if key then PColon else PAfter, stk)
      | j' => Some (PStr j' key, stk)
      end
  | PNum n =>
      match num_step n b with
      | Some n' => Some (PNum n', stk)
      | None => if num_complete n then after_step stk b else None
      end
  | PLit rest =>
      match rest with
      | [] => None
      | c :: r => if b =? c then Some (match r with [] => PAfter | _ => PLit r end, stk) else None
      end
  | PAfter => after_step stk b
  | PObjFirst => if json_ws b then Some (PObjFirst, stk)
                 else if b =? 34 then Some (PStr JBody true, stk)
                 else if b =? 125 then match stk with _ :: r => Some (PAfter, r) | [] => None end
                 else None
  | PObjKey => if json_ws b then Some (PObjKey, stk) else if b =? 34 then Some (PStr JBody true, stk) else None
  | PColon => if json_ws b then Some (PColon, stk) else if b =? 58 then Some (PValue, stk) else None
  | PArrFirst => if json_ws b then Some (PArrFirst, stk)
                 else if b =? 93 then match stk with _ :: r => Some (PAfter, r) | [] => None end
                 else value_step stk b
  end.

Fixpoint prun (s : pst * list bool) (l : str) : option (pst * list bool) :=
  match l with
  | [] => Some s
  | b :: r => match pstep s b with Some s' => prun s' r | None => None end
  end.

(* the whole body is exactly one JSON value (white space around it allowed) *)
Definition json_doc_ok (body : str) : bool :=
  match prun (PValue, []) body with
  | Some (PAfter, []) => true
  | Some (PNum n, []) => num_complete n
  | _ => false
  end.
