(* C19 — Sign-out really signs out.  This file contains only statements; each is closed by
   [exact <lemma>].  [mac] is HMAC-SHA256 as an arbitrary function: the theorems hold for every
   function that returns non-empty byte strings (mac_wf), no cryptographic assumption is used. *)
From V Require Import Base SignOut SignOut_proofs Validators ProxyCore ProxyCore_proofs ProxyWorld ProxyWorld_proofs
  SignOutCompose_proofs CorrBase Corr_C19 Corr_C19_proofs.

(* Visiting the proxy's sign-out URL — for every request cookie, whatever its deadlines: 302, the proxy
   session cookie is cleared and NO Set-Cookie carries a session (the handler never authenticates: no
   back-channel call, nothing re-saved), the Location is the
   provider's /sign_out with exactly redirect_uri, sig, ts; redirect_uri is scheme://Host/ for the
   request's own Host (scheme from cookie_secure) — or, when the client sent an absolute-form request
   target, the scheme-relative //Host/ (the code writes a scheme only if req.URL.Scheme is empty);
   ts is the current time and sig = base64url(HMAC(secret, redirect_uri ++ ts)). *)
Theorem C19_proxy_signout : forall (mac : str -> str -> str) base secret secure origin_form host now,
  let r := proxy_sign_out mac base secret secure origin_form host now in
  let uri := url_string (proxy_scheme secure origin_form) host in
  p_status r = 302%Z /\ p_clears r = true /\ p_sets_live r = false /\ p_asks r = false /\ l_base (p_loc r) = base /\
  l_params (p_loc r) = [(k_redirect_uri, uri); (k_sig, b64_encode (mac secret (uri ++ dec now))); (k_ts, dec now)] /\
  (host_plain host = true -> origin_form = true ->
     uri = (if secure then s_https else s_http) ++ SignOut_proofs.colon_slash_slash ++ host ++ [47]) /\
  (host_plain host = true -> host <> [] -> origin_form = false -> uri = [47; 47] ++ host ++ [47]).
Proof. exact proxy_signout. Qed.
Print Assumptions C19_proxy_signout.

(* The two halves meet: for ALL hosts, secrets, schemes and times, the (redirect_uri, ts, sig) the
   proxy emits is accepted by the authenticator's validSignature whenever the secrets agree (and are
   non-empty) and at most 300 s have passed.  Uses ParseInt (Sprint t) = t and the base64 round trip. *)
Theorem C19_signature_accepted : forall (mac : str -> str -> str) base psecret asecret secure origin_form host now now',
  mac_wf mac -> asecret = psecret -> psecret <> [] -> int64 now -> (now' - now <= 300)%Z ->
  let l := p_loc (proxy_sign_out mac base psecret secure origin_form host now) in
  valid_signature mac asecret (form_get k_redirect_uri (l_params l)) (form_get k_sig (l_params l))
                  (form_get k_ts (l_params l)) true now' = true.
Proof. exact signature_accepted. Qed.
Print Assumptions C19_signature_accepted.

(* ... also on the wire: what url.Values.Encode writes into the Location, url.ParseQuery reads back
   (QueryEscape / QueryUnescape modelled on bytes), and the fields read pass validSignature. *)
Theorem C19_parse_encode_query : forall ps, Forall pair_bytes_ok ps -> parse_query (encode_query ps) = Some ps.
Proof. exact parse_encode_query. Qed.
Print Assumptions C19_parse_encode_query.

(* The handlers of the production chain see the pairs that parse (the logging handler drops ParseForm's
   error); for what the proxy writes that is again exactly the parameter list. *)
Theorem C19_form_of_encode_query : forall ps, Forall pair_bytes_ok ps -> form_of_query (encode_query ps) = ps.
Proof. exact form_of_encode_query. Qed.
Print Assumptions C19_form_of_encode_query.

Theorem C19_signature_accepted_on_the_wire : forall (mac : str -> str -> str) base psecret asecret secure origin_form host now now',
  mac_wf mac -> asecret = psecret -> psecret <> [] -> bytes_ok host -> int64 now -> (now' - now <= 300)%Z ->
  let l := p_loc (proxy_sign_out mac base psecret secure origin_form host now) in
  exists ps, parse_query (encode_query (l_params l)) = Some ps /\
    valid_signature mac asecret (form_get k_redirect_uri ps) (form_get k_sig ps) (form_get k_ts ps) true now' = true.
Proof. exact signature_accepted_on_the_wire. Qed.
Print Assumptions C19_signature_accepted_on_the_wire.

(* ... hence the browser that follows the redirect (GET or POST, any cookie, any IdP answer) is let
   through the gate pair when the host is in a root domain. *)
Theorem C19_redirect_passes_gates : forall (mac : str -> str -> str) base psecret asecret secure origin_form host now now' p m ck idp,
  mac_wf mac -> asecret = psecret -> psecret <> [] -> int64 now -> (now' - now <= 300)%Z -> m <> MOther ->
  let l := p_loc (proxy_sign_out mac base psecret secure origin_form host now) in
  is_gate (r_body (auth_sign_out mac asecret p now' (follow l m true ck idp))) = false.
Proof. exact redirect_passes_gates. Qed.
Print Assumptions C19_redirect_passes_gates.

Theorem C19_parse_int_dec : forall t, (- 9223372036854775808 <= t < 9223372036854775808)%Z -> parse_int (dec t) = Some t.
Proof. exact parse_int_dec. Qed.
Print Assumptions C19_parse_int_dec.

Theorem C19_b64_roundtrip : forall b, bytes_ok b -> b64_decode (b64_encode b) = Some b.
Proof. exact b64_roundtrip. Qed.
Print Assumptions C19_b64_roundtrip.

(* Conversely an accepted request carries the MAC, under the authenticator's secret, of exactly this
   return address and the canonical decimal of its timestamp, which is at most 300 s old. *)
Theorem C19_signature_sound : forall (mac : str -> str -> str) secret uri sig ts parses now,
  valid_signature mac secret uri sig ts parses now = true ->
  secret <> [] /\ uri <> [] /\ parses = true /\
  exists t, parse_int ts = Some t /\ (now - t <= 300)%Z /\ b64_decode sig = Some (mac secret (uri ++ dec t)).
Proof. exact signature_sound. Qed.
Print Assumptions C19_signature_sound.

(* Confirming sign-out (POST): the authenticator's cookie is cleared only together with the redirect
   back, and only when the cookie does not open (nothing to revoke) or Revoke was called with the
   session's own token and answered ok / already-revoked.  With a loadable session Revoke is always
   attempted; if it fails the response is the 500 page and the cookie is NOT cleared. *)
Theorem C19_revoke_then_clear : forall (mac : str -> str -> str) secret p now q,
  q_method q = MPost ->
  let r := auth_sign_out mac secret p now q in
  (r_clears r = true ->
     gates_pass mac secret now q = true /\ r_body r = BRedirect (q_uri q) /\
     ((q_cookie q = ACJunk /\ r_revoked r = []) \/
      exists s, q_cookie q = ACSealed s /\ r_revoked r = [revoke_token p s] /\ revoke_ok p (q_idp q) = true)) /\
  (forall s, q_cookie q = ACSealed s -> gates_pass mac secret now q = true ->
     r_revoked r = [revoke_token p s] /\
     (revoke_ok p (q_idp q) = false ->
        r_body r = BPage 500%Z (as_email s) (q_uri q) (q_sig q) (q_ts q) /\ r_clears r = false) /\
     (revoke_ok p (q_idp q) = true -> r_body r = BRedirect (q_uri q) /\ r_clears r = true)).
Proof. exact revoke_then_clear. Qed.
Print Assumptions C19_revoke_then_clear.

(* Provider Revoke succeeds exactly on 200, or on 400 with the provider's "already revoked" phrase. *)
Theorem C19_revoke_outcomes : forall p a,
  revoke_ok p a = true <->
  exists b, a = IdpSt 200%Z b \/ (a = IdpSt 400%Z b /\ already_revoked p b = true).
Proof. exact revoke_ok_iff. Qed.
Print Assumptions C19_revoke_outcomes.

(* Without a valid signed in-domain return address (or with a method other than GET / POST) nothing is
   revoked or cleared and the browser is sent nowhere; looking at the page (GET) never changes
   anything; and a token reaches the IdP only as the loaded session's own token on a valid POST. *)
Theorem C19_needs_valid_request : forall (mac : str -> str -> str) secret p now q,
  gates_pass mac secret now q = false \/ q_method q = MOther ->
  let r := auth_sign_out mac secret p now q in
  (exists code, r_body r = BGate code) /\ r_clears r = false /\ r_revoked r = [].
Proof. exact needs_valid_request. Qed.
Print Assumptions C19_needs_valid_request.

Theorem C19_get_is_passive : forall (mac : str -> str -> str) secret p now q,
  q_method q = MGet ->
  let r := auth_sign_out mac secret p now q in r_clears r = false /\ r_revoked r = [].
Proof. exact get_is_passive. Qed.
Print Assumptions C19_get_is_passive.

Theorem C19_revoked_is_own_token : forall (mac : str -> str -> str) secret p now q tok,
  In tok (r_revoked (auth_sign_out mac secret p now q)) ->
  exists s, q_cookie q = ACSealed s /\ tok = revoke_token p s /\ q_method q = MPost /\ gates_pass mac secret now q = true.
Proof. exact revoked_is_own_token. Qed.
Print Assumptions C19_revoked_is_own_token.

(* Afterwards: once the IdP has revoked the token (the back channel answers 401 to /refresh and a
   non-200, non-429/503 status or nothing to /validate), ANY saved copy of a proxy session — for any
   host, policy and configuration — is refused and cleared as soon as a check is due ... *)
Theorem C19_old_copy_refused : forall (lower : str -> str) now c u host s a,
  revoked_answers a ->
  (s_valid_dl s < now \/ s_refresh_dl s < now)%Z ->
  exists e, ao_err (authenticate lower now c u host (Sealed s) a) = Some e /\
            ao_cookie (authenticate lower now c u host (Sealed s) a) = CCleared /\
            ao_session (authenticate lower now c u host (Sealed s) a) = None.
Proof. exact old_copy_refused. Qed.
Print Assumptions C19_old_copy_refused.

(* ... the upstream is not reached ... *)
Theorem C19_old_copy_not_served : forall (lower : str -> str) now c u r s a,
  r_cookie r = Sealed s -> r_endpoint r = EProxy -> whitelisted u r = false ->
  revoked_answers a ->
  (s_valid_dl s < now \/ s_refresh_dl s < now)%Z ->
  served (handle lower now c u r a) = false /\ rs_cookie (handle lower now c u r a) = CCleared.
Proof. exact old_copy_not_served. Qed.
Print Assumptions C19_old_copy_not_served.

(* ... and a check is due at the latest when the copy's validity deadline has passed: for every
   history of the proxy and every copy it ever sealed, more than V seconds after the sealing. *)
Theorem C19_old_copy_refused_within_V : forall (lower : str -> str) c pol_of evs k i host a now,
  nth_error (w_issued (run lower c pol_of evs)) k = Some i ->
  revoked_answers a ->
  (i_at i + c_V c < now)%Z ->
  exists e, ao_err (authenticate lower now c (pol_of host) host (Sealed (i_s i)) a) = Some e /\
            ao_cookie (authenticate lower now c (pol_of host) host (Sealed (i_s i)) a) = CCleared.
Proof. exact old_copy_refused_within_V. Qed.
Print Assumptions C19_old_copy_refused_within_V.

(* The sign-out page's form posts the request's own three fields back; they pass the gates again
   until ts + 300. *)
Theorem C19_page_then_post : forall (mac : str -> str -> str) secret p now1 now2 q s idp t,
  q_method q = MGet -> q_cookie q = ACSealed s -> gates_pass mac secret now1 q = true ->
  parse_int (q_ts q) = Some t -> (now2 - t <= 300)%Z ->
  r_body (auth_sign_out mac secret p now1 q) = BPage 200%Z (as_email s) (q_uri q) (q_sig q) (q_ts q) /\
  gates_pass mac secret now2 {| q_method := MPost; q_uri := q_uri q; q_sig := q_sig q; q_ts := q_ts q;
                                q_parses := q_parses q; q_in_domain := q_in_domain q; q_cookie := ACSealed s; q_idp := idp |} = true.
Proof. exact page_then_post. Qed.
Print Assumptions C19_page_then_post.

(* HISTORIES at the authenticator — any list of requests (any method, fields, cookies) under any IdP
   answers: whenever some response cleared the cookie of a session, the IdP holds that session's token
   revoked (invariant by induction); and a token is revoked at the IdP only through a valid confirmed
   POST that presented the session owning it. *)
Theorem C19_cleared_implies_revoked : forall (mac : str -> str -> str) secret evs p s,
  In (p, s) (st_cleared (arun mac secret evs)) -> In (revoke_token p s) (st_revoked (arun mac secret evs)).
Proof. exact cleared_implies_revoked. Qed.
Print Assumptions C19_cleared_implies_revoked.

Theorem C19_revoked_provenance : forall (mac : str -> str -> str) secret evs tok,
  In tok (st_revoked (arun mac secret evs)) ->
  exists e s, In e evs /\ q_cookie (e_req e) = ACSealed s /\ tok = revoke_token (e_provider e) s /\
              q_method (e_req e) = MPost /\ gates_pass mac secret (e_now e) (e_req e) = true /\
              revoke_ok (e_provider e) (q_idp (e_req e)) = true.
Proof. exact revoked_provenance. Qed.
Print Assumptions C19_revoked_provenance.

(* CONCURRENT confirmations.  The provider is wrapped by SingleFlightProvider: Revoke is coalesced on
   "Revoke/" ++ Sprintf("%q:%q", access token, refresh token).  Every critical section of
   singleflight.Group.Do is one event of a labelled transition system (a request reaches the provider
   layer: opens a flight and calls the IdP, or joins the flight of its key and inherits its result; a
   flight completes), so "every interleaving" is "every event list".  With nothing in flight a request is
   served as in the sequential model. *)
Theorem C19_conc_alone : forall (mac : str -> str -> str) secret p st now q,
  cs_flights st = [] -> snd (cstep mac secret p st (CReq now q)) = Some (auth_sign_out mac secret p now q).
Proof. exact cstep_alone. Qed.
Print Assumptions C19_conc_alone.

(* the key names the pair: two sessions are merged only if BOTH tokens agree (strconv.Quote modelled as far
   as needed: quote, colon, quote parses back uniquely) *)
Theorem C19_flight_key_inj : forall s1 s2,
  flight_key s1 = flight_key s2 <-> as_access s1 = as_access s2 /\ as_refresh s1 = as_refresh s2.
Proof. exact flight_key_inj. Qed.
Print Assumptions C19_flight_key_inj.

(* FULL statement, every provider, every interleaving of arrivals and flight completions, any number of
   users, any IdP answers: whoever is told "signed out" (cookie cleared) has THEIR token revoked at the IdP.
   (Historical: false for Okta before 7e98525 — the key was the access token alone, finding C19-K1; the
   guarded form below is what was provable then and is kept as the general lemma.) *)
Theorem C19_conc_cleared_implies_revoked : forall (mac : str -> str -> str) secret p evs s,
  In s (cs_cleared (fst (crun mac secret p evs))) -> In (revoke_token p s) (cs_revoked (fst (crun mac secret p evs))).
Proof. exact conc_cleared_implies_revoked_full. Qed.
Print Assumptions C19_conc_cleared_implies_revoked.

Theorem C19_conc_cleared_implies_revoked_guarded : forall (mac : str -> str -> str) secret p U evs,
  consistent p U -> sessions_in U evs ->
  forall s, In s (cs_cleared (fst (crun mac secret p evs))) -> In (revoke_token p s) (cs_revoked (fst (crun mac secret p evs))).
Proof. exact conc_cleared_implies_revoked. Qed.
Print Assumptions C19_conc_cleared_implies_revoked_guarded.

(* the former witness of C19-K1 (Okta, one access token, refresh tokens r1 / r2, overlapping): now both
   revoke calls are made and both tokens are revoked *)
Theorem C19_conc_okta_regression :
  let host := [97;112;112;46;116;101;115;116] in
  let secret := [115;51;99;114;51;116] in
  let l := p_loc (proxy_sign_out toy_mac [] secret true true host 1700000000%Z) in
  let s1 := {| as_email := [97]; as_access := [97;116]; as_refresh := [114;49] |} in
  let s2 := {| as_email := [98]; as_access := [97;116]; as_refresh := [114;50] |} in
  let evs := [CReq 1700000100%Z (follow l MPost true (ACSealed s1) (IdpSt 200%Z BNotJSON));
              CReq 1700000100%Z (follow l MPost true (ACSealed s2) (IdpSt 200%Z BNotJSON))] in
  cs_cleared (fst (crun toy_mac secret POkta evs)) = [s2; s1] /\
  cs_revoked (fst (crun toy_mac secret POkta evs)) = [[114;50]; [114;49]] /\
  map r_revoked (snd (crun toy_mac secret POkta evs)) = [[[114;49]]; [[114;50]]].
Proof. exact conc_okta_regression. Qed.
Print Assumptions C19_conc_okta_regression.

(* Both services: after any authenticator history in which the user was signed out, every saved copy
   of a proxy session of the same grant is refused at its next due check (back channel reporting the
   IdP's state). *)
Theorem C19_signed_out_copy_refused : forall (mac : str -> str -> str) secret evs p s (lower : str -> str) now c u host ps a,
  In (p, s) (st_cleared (arun mac secret evs)) ->
  grant_token p ps = revoke_token p s ->
  (In (grant_token p ps) (st_revoked (arun mac secret evs)) -> revoked_answers a) ->
  (s_valid_dl ps < now \/ s_refresh_dl ps < now)%Z ->
  exists e, ao_err (authenticate lower now c u host (Sealed ps) a) = Some e /\
            ao_cookie (authenticate lower now c u host (Sealed ps) a) = CCleared /\
            ao_session (authenticate lower now c u host (Sealed ps) a) = None.
Proof. exact signed_out_copy_refused. Qed.
Print Assumptions C19_signed_out_copy_refused.

(* The monitors of the correspondence check accept the model's own predictions (tie between the
   boolean specification applied to implementation observations and the theorems above). *)
Theorem C19_monitor_accepts_model : forall (mac : str -> str -> str) o,
  auth_holds_on mac o (auth_model mac o) = true.
Proof. exact auth_monitor_accepts_model. Qed.
Print Assumptions C19_monitor_accepts_model.

Theorem C19_proxy_monitor_accepts_model : forall (mac : str -> str -> str) base secret secure origin_form host clock now,
  host <> [] -> (clock <= now <= clock + 60)%Z ->
  let r := proxy_sign_out mac base secret secure origin_form host now in
  proxy_holds mac {| po_base := base; po_secret := secret; po_secure := secure; po_origin_form := origin_form;
                     po_host := host; po_clock := clock; po_ts := now; po_status := p_status r;
                     po_cleared := p_clears r; po_live := p_sets_live r; po_calls := []; po_obs_base := l_base (p_loc r);
                     po_query := encode_query (l_params (p_loc r)); po_params := l_params (p_loc r) |} = true.
Proof. exact proxy_monitor_accepts_model. Qed.
Print Assumptions C19_proxy_monitor_accepts_model.

Theorem C19_reuse_monitor_sound : forall revoked o,
  reuse_mismatch o = false -> reuse_holds revoked o = true.
Proof. exact reuse_monitor_sound. Qed.
Print Assumptions C19_reuse_monitor_sound.

Theorem C19_conc_model_single : forall (mac : str -> str -> str) secret p clock q bodies calls,
  conc_model mac {| co_secret := secret; co_provider := p; co_clock := clock; co_reqs := [q]; co_bodies := bodies; co_calls := calls |}
  = [auth_sign_out mac secret p clock q].
Proof. exact conc_model_single. Qed.
Print Assumptions C19_conc_model_single.
