(* C01 — Complete mediation: only authorized sessions or skip-auth paths reach upstreams. *)
From V Require Import Base Validators ProxyCore ProxyCore_proofs ProxyWorld ProxyWorld_proofs ProxyExamples.
Open Scope Z_scope.

(* Decision soundness, for every cookie, request, policy, time and authenticator answers:
   the Proxy route hands the request to the upstream only if it is whitelisted (no identity is
   asserted) or the cookie opens to a session that is [session_ok]: right provider slug, bound
   to exactly this Host, within lifetime, any due refresh / revalidation confirmed by the
   authenticator's answers (or covered by bounded outage grace), per-request rules passed. *)
Theorem C01_forward_sound : forall lower now c u r a id,
  rs_out (proxy_handle lower now c u r a) = Forward id ->
  (whitelisted u r = true /\ id = None) \/
  (whitelisted u r = false /\ exists s, r_cookie r = Sealed s /\ session_ok lower now c u (r_host r) s a /\
     exists s', id = Some s' /\ s_email s' = s_email s).
Proof. exact proxy_forward_sound. Qed.
Print Assumptions C01_forward_sound.

(* In every other case: sign-in redirect or 401/403/500, and the cookie is cleared. *)
Theorem C01_otherwise_no_upstream : forall lower now c u r a,
  (forall id, rs_out (proxy_handle lower now c u r a) <> Forward id) ->
  (rs_out (proxy_handle lower now c u r a) = SignIn \/
   rs_out (proxy_handle lower now c u r a) = Status 401 \/
   rs_out (proxy_handle lower now c u r a) = Status 403 \/
   rs_out (proxy_handle lower now c u r a) = Status 500) /\
  rs_cookie (proxy_handle lower now c u r a) = CCleared.
Proof. exact proxy_otherwise. Qed.
Print Assumptions C01_otherwise_no_upstream.

(* /oauth2/auth answers 202 only in the session case (never by the skip-auth list). *)
Theorem C01_auth_only_202 : forall lower now c u r a,
  r_endpoint r = EAuthOnly ->
  (rs_out (handle lower now c u r a) = Status 202 <->
   exists s, r_cookie r = Sealed s /\ ao_err (authenticate lower now c u (r_host r) (Sealed s) a) = None) /\
  (rs_out (handle lower now c u r a) = Status 202 ->
   exists s, r_cookie r = Sealed s /\ session_ok lower now c u (r_host r) s a) /\
  (rs_out (handle lower now c u r a) = Status 202 \/ rs_out (handle lower now c u r a) = Status 401).
Proof. exact auth_only_202. Qed.
Print Assumptions C01_auth_only_202.

Theorem C01_favicon : forall lower now c u r a,
  r_endpoint r = EFavicon ->
  (ao_err (authenticate lower now c u (r_host r) (r_cookie r) a) <> None ->
     rs_out (handle lower now c u r a) = Status 404) /\
  (forall id, rs_out (handle lower now c u r a) = Forward id ->
     exists s, r_cookie r = Sealed s /\ session_ok lower now c u (r_host r) s a).
Proof. exact favicon_rule. Qed.
Print Assumptions C01_favicon.

(* History level: after ANY sequence of ticks, logins and requests in which an adversary presents
   any previously issued cookie (or none, or junk) on any host, a served request is whitelisted
   (Proxy route only) or presents an issued session [i] that descends from a login callback on
   exactly this host which passed at least one allow rule ([good]), is session_ok now, and is
   within L of that login. *)
Theorem C01_mediation_history : forall lower c pol_of evs host o sk x ep ck a,
  let w := run lower c pol_of evs in
  served (respond lower c pol_of w host o sk x ep ck a) = true ->
  (ep = EProxy /\ whitelisted (pol_of host) (mk_request w host o sk x ep ck) = true) \/
  exists k i, ck = CkIssued k /\ nth_error (w_issued w) k = Some i /\
    good lower c pol_of (w_now w) i /\ i_host i = host /\
    session_ok lower (w_now w) c (pol_of host) host (i_s i) a /\
    w_now w <= i_login i + c_L c.
Proof. exact mediation_history. Qed.
Print Assumptions C01_mediation_history.

(* The monitor that judges the implementation's observations is this property and nothing more:
   its boolean session clause reflects [session_ok], and it accepts the model's own prediction for
   every time, configuration, policy, request and answers. *)
From V Require Import CorrProxy Corr_C01 Corr_C01_proofs.
Theorem C01_monitor_reflects : forall lower now c u host s a,
  session_ok_b lower now c u host s a = true <-> session_ok lower now c u host s a.
Proof. exact session_ok_reflect. Qed.
Print Assumptions C01_monitor_reflects.

Theorem C01_monitor_accepts_model : forall lower now c u r a,
  mediation_holds lower c u (model_obs lower now c u r a) = true.
Proof. exact monitor_accepts_model. Qed.
Print Assumptions C01_monitor_accepts_model.

(* [session_ok] is EXACTLY the admission condition: a session in order is admitted (no request of a
   valid session is refused), and nothing else is. *)
From V Require Import ProxyComplete_proofs.
Theorem C01_session_ok_exact : forall lower now c u host s a,
  ao_err (authenticate lower now c u host (Sealed s) a) = None <-> session_ok lower now c u host s a.
Proof. exact authenticate_iff. Qed.
Print Assumptions C01_session_ok_exact.
