(* IntegrationProxy — end-to-end theorems about the whole request path of sso-proxy (attached to C01).

   [serve re_match re_replace lower opens d q a now] (theories/ProxyAll.v) is ONE executable function for
   SSOProxy.ServeHTTP behind the logging wrapper: /ping, host routing (421), the per-upstream handler chain
   (security headers > overrides > requireHTTPS > gorilla routes), and for a forwarded request what the
   backend receives and what the client receives. It is composed from the models of C13 (Hostmux), C01/C04/C05
   (ProxyCore), C11 (Validators), C03 (ReqHeaders), C12 (Signer), C18 (RespHeaders), C06 (Callback, ReqUri)
   through adapters proved faithful below; the theorems are obtained from those properties' theorems.

   Quantification: ALL deployments d (any number of upstreams, any routes / allow rules / skip lists / provider
   slugs / overrides / injected headers / flush / HMAC / signing options), ALL requests q (any Host, method,
   path, header lines in any spelling and multiplicity, cookies, body), ALL answers a of the authenticator
   and of the backend, ALL times; re_match / re_replace (Go's regexp), lower (strings.ToLower) and opens
   (which cookie value opens under the proxy's secret to which session) are universally quantified oracles.
   Only statements here; each is closed by [exact <lemma>]. *)
From V Require Import Base Validators ProxyAll ProxyAll_proofs CorrBase Corr_IntProxy Corr_IntProxy_proofs.
From V Require ProxyCore ProxyCore_proofs ProxyWorld Hostmux ReqHeaders Signer Signer_gen_proofs RespHeaders RespHeaders_proofs
  RespHeaders_gen_proofs Callback ReqUri Corr_C18_proofs.
Require Coq.Strings.String.
Import Coq.Strings.String.StringSyntax.

(* ---------------------------------------------------------------------------------------------------- *)
(* Adapters are faithful *)

(* routing over the extended upstream records is Hostmux's router on the underlying list (so every C13
   theorem about route_of — last static match, first matching pattern, default 421 — speaks about [serve]) *)
Theorem INT_adapter_routing : forall (re_match : str -> str -> bool) ups h,
  Hostmux.route_of re_match (map up_hm ups) h =
  match route_ext re_match ups h with Some u => Hostmux.RUp (up_hm u) | None => Hostmux.RDefault end.
Proof. exact route_ext_faithful. Qed.
Print Assumptions INT_adapter_routing.

(* ReqHeaders' header map (pairs in arrival order) and Signer's (key -> value list) agree on h[k] and on
   presence, for every key; the two developments spell the header names and the hop-by-hop list identically *)
Theorem INT_adapter_headers : forall h k,
  Signer.hvals k (to_signer_headers h) = ReqHeaders.h_get k h /\
  Signer.hfind k (to_signer_headers h) = (if mem_str k (map fst h) then Some (ReqHeaders.h_get k h) else None) /\
  Signer.identity_headers = ReqHeaders.identity_keys /\ Signer.hop_headers = ReqHeaders.hop_headers /\
  Signer.cookie_h = ReqHeaders.k_cookie /\ Signer.connection = ReqHeaders.k_connection.
Proof.
  intros h k. split; [apply to_signer_hvals|]. split; [apply to_signer_hfind|].
  destruct keys_agree as (_&_&_&_&K5&K6&K7&K8). auto.
Qed.
Print Assumptions INT_adapter_headers.

(* the Host header Hostmux predicts is the one Signer's Director leaves on the request (non-empty Host) *)
Theorem INT_adapter_host : forall (re_replace : str -> str -> str -> str) d u q pre id,
  rq_host q <> [] ->
  bk_host (backend_of re_replace d u q pre id) = Signer.r_host (bk_req (backend_of re_replace d u q pre id)).
Proof. exact host_views_agree. Qed.
Print Assumptions INT_adapter_host.

(* the session a callback mints is ProxyWorld's login session (which leaves User unset) with User filled in *)
Theorem INT_adapter_mint : forall (lower : str -> str) d u q a now e acc rt ex,
  an_redeem_body a = Some (e, acc, rt, ex) ->
  let s := mint_session lower d u q a now in
  let s0 := ProxyWorld.login_session (pc_cfg d u) (fun _ => pc_pol u) now (rq_host q) e acc rt ex (groups_answer_of a) in
  ProxyCore.s_user s = user_of_email lower e /\
  ProxyCore.s_slug s = ProxyCore.s_slug s0 /\ ProxyCore.s_email s = ProxyCore.s_email s0 /\
  ProxyCore.s_access s = ProxyCore.s_access s0 /\ ProxyCore.s_refresh_tok s = ProxyCore.s_refresh_tok s0 /\
  ProxyCore.s_refresh_dl s = ProxyCore.s_refresh_dl s0 /\ ProxyCore.s_lifetime_dl s = ProxyCore.s_lifetime_dl s0 /\
  ProxyCore.s_valid_dl s = ProxyCore.s_valid_dl s0 /\ ProxyCore.s_grace s = ProxyCore.s_grace s0 /\
  ProxyCore.s_groups s = ProxyCore.s_groups s0 /\ ProxyCore.s_upstream s = ProxyCore.s_upstream s0.
Proof. exact mint_is_login_session. Qed.
Print Assumptions INT_adapter_mint.

(* ---------------------------------------------------------------------------------------------------- *)
(* INT_backend_reached_only_if.  NO guard: whenever any backend receives a request,
     (C13) it is the backend of the upstream the Host header routes to (last exact static match, else first
           matching pattern — INT_adapter_routing), dialled at that upstream's target, under its Host policy;
     (C01) the request is not the health check, not a plain-http request of a secure deployment, has a clean
           path and took the Proxy or the Favicon route; it is whitelisted by THAT upstream's skip list (Proxy
           route only) or its session cookie — the first well-formed cookie of that name, opened with the
           proxy's secret — is [session_ok] under THAT upstream's policy and THAT upstream's provider slug
           (bound to this very Host, within lifetime, due refresh / revalidation confirmed or under bounded
           grace, per-request rules passed);
     (C03) at the moment the request is signed the identity headers are exactly one value each, the asserted
           session's (same e-mail as the presented one), the access token only if the operator injects one,
           and on a whitelisted request all four are absent — whatever the client sent; at the backend each is
           that value or, if a Connection token names it, nothing (finding C03-K3); and the Cookie header the
           backend receives never contains a cookie named like the session cookie. *)
Theorem INT_backend_reached_only_if :
  forall (re_match : str -> str -> bool) (re_replace : str -> str -> str -> str) (lower : str -> str)
         (opens : str -> option ProxyCore.session) d q a now bv,
  oc_backend (serve re_match re_replace lower opens d q a now) = Some bv ->
  exists u,
    route_ext re_match (dp_ups d) (rq_host q) = Some u /\ In u (dp_ups d) /\
    oc_upstream (serve re_match re_replace lower opens d q a now) = Some u /\
    Hostmux.route_of re_match (map up_hm (dp_ups d)) (rq_host q) = Hostmux.RUp (up_hm u) /\
    bk_target bv = Hostmux.target re_replace (rq_host q) (up_hm u) /\
    bk_host bv = (if Hostmux.u_preserve (up_hm u) then Hostmux.preserved_host (rq_host q) (bk_target bv) else bk_target bv) /\
    bk_req bv = received_request re_replace d u q (bk_handler bv) /\
    rq_path q <> Hostmux.ping_path /\ redirected d q = false /\ ReqUri.clean_path (rq_path q) = rq_path q /\
    (route_of_path (rq_path q) = RtProxy \/ route_of_path (rq_path q) = RtFavicon) /\
    ((route_of_path (rq_path q) = RtProxy /\ skip_hit re_match u q = true /\ identity_absent (bk_handler bv)) \/
     (exists s s', session_cookie opens d q = ProxyCore.Sealed s /\
        ProxyCore_proofs.session_ok lower now (pc_cfg d u) (pc_pol u) (rq_host q) s (an_auth a) /\
        ProxyCore.s_email s' = ProxyCore.s_email s /\
        (skip_hit re_match u q = false -> identity_is d u (bk_handler bv) s') /\
        (skip_hit re_match u q = true -> identity_absent (bk_handler bv)))) /\
    (forall k, In k ReqHeaders.identity_keys ->
       Signer.hvals k (Signer.r_headers (bk_req bv)) =
       if mem_str k (Signer.hop_keys (to_signer_headers (bk_handler bv))) then [] else ReqHeaders.h_get k (bk_handler bv)) /\
    (forall c, In c (ReqHeaders.read_cookies (Signer.hvals Signer.cookie_h (Signer.r_headers (bk_req bv)))) ->
       ReqHeaders.c_name c <> dp_cookie_name d).
Proof. exact backend_reached_only_if. Qed.
Print Assumptions INT_backend_reached_only_if.

(* ... and every header the chain behind Proxy does not write itself arrives exactly as Proxy + deleteCookie left
   it, or not at all when the Connection header (or the hop-by-hop list) names it — for every key *)
Theorem INT_received_header : forall (re_replace : str -> str -> str -> str) d u q h k,
  ~ In k chain_written ->
  Signer.hvals k (Signer.r_headers (received_request re_replace d u q h)) =
  if mem_str k (Signer.hop_keys (to_signer_headers h)) then [] else ReqHeaders.h_get k h.
Proof. exact received_header. Qed.
Print Assumptions INT_received_header.

(* INT_signature_verifies (C12).  Guards = C12's, stated on the request as it is when it is signed
   ([signer_request q (bk_handler bv)]): (1) no Connection token names a covered or a signature header
   (C03-K3 / C12-K1), (2) its Content-Length header is the one the transport will write (C12-K2).
   (C12's other hypotheses hold by construction: bare `to`, path beginning with "/" because the router only
   forwards clean paths, no fragment, non-nil body.)  Then: the request the backend receives has the canonical
   forms it was signed with, its body is the client's, EVERY covered header — the identity headers and Cookie
   among them — arrives exactly as Proxy left it, the RSA signature verifies under the published key named by
   kid and the HMAC authenticates. *)
Theorem INT_signature_verifies :
  forall (re_match : str -> str -> bool) (re_replace : str -> str -> str -> str) (lower : str -> str)
         (opens : str -> option ProxyCore.session) d q a now bv u,
  oc_backend (serve re_match re_replace lower opens d q a now) = Some bv ->
  oc_upstream (serve re_match re_replace lower opens d q a now) = Some u ->
  let rs := signer_request q (bk_handler bv) in
  let c := sg_cfg re_replace d u (rq_host q) in
  Signer.conn_safe Signer_gen_proofs.g_protected (Signer.r_headers rs) = true ->
  Signer.cl_canonical rs = true ->
  Signer.canon_rsa Signer_gen_proofs.g_cov (bk_req bv) = Signer.canon_rsa Signer_gen_proofs.g_cov rs /\
  Signer.canon_hmac Signer_gen_proofs.g_covh (bk_req bv) = Signer.canon_hmac Signer_gen_proofs.g_covh rs /\
  Signer.r_body (bk_req bv) = Some (rq_body q) /\
  (forall k, In k Signer_gen_proofs.g_cov ->
     Signer.hvals k (Signer.r_headers (bk_req bv)) = ReqHeaders.h_get k (bk_handler bv)) /\
  (up_skip_sign u = false -> forall sk, dp_signer d = Some sk ->
     Signer.verify_rsa Signer_gen_proofs.g_cov (Signer.published_certs c) (bk_req bv) = Some true /\
     Signer.r_kid (bk_req bv) = Some (Signer.KeyId (Signer.pub sk))) /\
  (up_skip_sign u = false -> forall key, up_hmac u = Some key ->
     Signer.verify_hmac Signer_gen_proofs.g_covh key (bk_req bv) = 3).
Proof. exact backend_signature_verifies. Qed.
Print Assumptions INT_signature_verifies.

(* INT_every_response_hardened (C18).  Guard: on an upstream WITHOUT http.TimeoutHandler (flush_interval set)
   the backend sends no 1xx response (finding C18-K3).  Then every response for a routed Host — whatever route,
   outcome, cookie, upstream headers — carries each of the three security headers with exactly one value: the
   upstream's override if configured, else the table's (http.Error on /oauth2/auth re-sets nosniff on its 401);
   and Strict-Transport-Security is exactly the proxy's when cookies are secure. *)
Theorem INT_every_response_hardened :
  forall (re_match : str -> str -> bool) (re_replace : str -> str -> str -> str) (lower : str -> str)
         (opens : str -> option ProxyCore.session) d q a now u,
  rq_path q <> Hostmux.ping_path -> route_ext re_match (dp_ups d) (rq_host q) = Some u ->
  (up_replace u = false -> RespHeaders.u_n1xx (an_backend a) = 0%nat) ->
  match oc_client (serve re_match re_replace lower opens d q a now) with
  | RespHeaders.NoResponse => True
  | RespHeaders.Resp st h =>
      (forall k, In k RespHeaders_gen_proofs.three ->
         RespHeaders.hget k h = match RespHeaders_proofs.effective RespHeaders_gen_proofs.T (rs_cfg d u) k with
                                | Some v => [RespHeaders.VStr v] | None => [] end \/
         (k = RespHeaders.k_xcto /\ RespHeaders.hget k h = [RespHeaders.VStr RespHeaders.v_nosniff] /\ st = 401)) /\
      (dp_secure d = true -> RespHeaders.hget RespHeaders_gen_proofs.hsts_k h = [RespHeaders.VStr (snd RespHeaders_gen_proofs.H)])
  end.
Proof. exact every_response_hardened. Qed.
Print Assumptions INT_every_response_hardened.

(* INT_unrouted_host.  A Host no route names (and a path other than /ping): Hostmux's default route, 421,
   no backend, no back-channel call, no Set-Cookie. *)
Theorem INT_unrouted_host :
  forall (re_match : str -> str -> bool) (re_replace : str -> str -> str -> str) (lower : str -> str)
         (opens : str -> option ProxyCore.session) d q a now,
  rq_path q <> Hostmux.ping_path -> route_ext re_match (dp_ups d) (rq_host q) = None ->
  Hostmux.route_of re_match (map up_hm (dp_ups d)) (rq_host q) = Hostmux.RDefault /\
  serve re_match re_replace lower opens d q a now = misdirected /\
  oc_backend (serve re_match re_replace lower opens d q a now) = None /\
  oc_upstream (serve re_match re_replace lower opens d q a now) = None /\
  oc_session (serve re_match re_replace lower opens d q a now) = ProxyCore.CNone /\
  oc_calls (serve re_match re_replace lower opens d q a now) = [] /\
  exists h, oc_client (serve re_match re_replace lower opens d q a now) = RespHeaders.Resp 421 h /\
            RespHeaders.hget RespHeaders.k_set_cookie h = [].
Proof. exact unrouted_host. Qed.
Print Assumptions INT_unrouted_host.

(* a routed Host is served by its upstream's chain; under secure cookies a request that is neither https nor
   X-Forwarded-Proto: https gets the redirect and nothing else happens (no backend, no call, no cookie) *)
Theorem INT_routed_host :
  forall (re_match : str -> str -> bool) (re_replace : str -> str -> str -> str) (lower : str -> str)
         (opens : str -> option ProxyCore.session) d q a now u,
  rq_path q <> Hostmux.ping_path -> route_ext re_match (dp_ups d) (rq_host q) = Some u ->
  oc_upstream (serve re_match re_replace lower opens d q a now) = Some u /\
  (redirected d q = true ->
     oc_backend (serve re_match re_replace lower opens d q a now) = None /\
     oc_calls (serve re_match re_replace lower opens d q a now) = [] /\
     oc_session (serve re_match re_replace lower opens d q a now) = ProxyCore.CNone /\
     oc_loc (serve re_match re_replace lower opens d q a now) = LkHttps).
Proof. exact routed_host. Qed.
Print Assumptions INT_routed_host.

(* Every session the proxy hands out — minted by a callback (only after the routed upstream's login gate
   admitted the redeemed e-mail: C06 / C11) or re-saved by Authenticate — is bound to the Host of that very
   request and to the provider slug of the upstream that Host routes to. *)
Theorem INT_issued_session_bound :
  forall (re_match : str -> str -> bool) (re_replace : str -> str -> str -> str) (lower : str -> str)
         (opens : str -> option ProxyCore.session) d q a now s u,
  oc_session (serve re_match re_replace lower opens d q a now) = ProxyCore.CSaved s ->
  oc_upstream (serve re_match re_replace lower opens d q a now) = Some u ->
  route_ext re_match (dp_ups d) (rq_host q) = Some u /\
  ProxyCore.s_upstream s = rq_host q /\ ProxyCore.s_slug s = slug_of d u.
Proof. exact issued_session_bound. Qed.
Print Assumptions INT_issued_session_bound.

(* INT_isolation_end_to_end.  Over ALL histories (any sequence of requests — logins, replays, anything — on any
   hosts with any cookies, answers and time steps; induction over the event list with the invariant [bound]):
   whenever a backend receives an IDENTIFIED request and the presented cookie opens to a session the proxy
   issued anywhere in the history on host h1 under upstream u1, the request's Host is h1 and the backend is
   u1's.  So a session minted on one upstream never makes another upstream's backend receive an identified
   request, whichever cookie a client chooses to present and whatever routes the hosts match. *)
Theorem INT_isolation_end_to_end :
  forall (re_match : str -> str -> bool) (re_replace : str -> str -> str -> str) (lower : str -> str)
         (opens : str -> option ProxyCore.session) d evs st' tr,
  hrun re_match re_replace lower opens d hinit evs = (st', tr) ->
  forall e o bv, In (e, o) tr -> oc_backend o = Some bv ->
  ReqHeaders.h_get ReqHeaders.k_xfe (bk_handler bv) <> [] ->
  forall m, In m (hs_minted st') -> session_cookie opens d (ev_req e) = ProxyCore.Sealed (mi_session m) ->
  rq_host (ev_req e) = mi_host m /\ oc_upstream o = Some (mi_upstream m) /\
  bk_target bv = Hostmux.target re_replace (mi_host m) (up_hm (mi_upstream m)).
Proof. exact isolation_end_to_end. Qed.
Print Assumptions INT_isolation_end_to_end.

(* Non-vacuity: a concrete two-upstream deployment (static + rewrite route, different providers, secure
   cookies, signer and HMAC on): the request with its own session reaches ITS backend with exactly the
   session's identity, the other cookie but not the session cookie, both signatures verifying and BOTH
   guards of INT_signature_verifies true, and the response is hardened although the backend tried to weaken
   it; the same cookie on the other upstream's host is refused (sign-in at that upstream's provider, cookie
   cleared); an unrouted host gets 421; plain http gets the 301. *)
Theorem INT_nonvacuous :
  (match oc_backend (Ex.run Ex.q_app) with
   | Some bv =>
       bk_target bv = Ex.b_app /\
       Signer.hvals Signer.x_forwarded_email (Signer.r_headers (bk_req bv)) = [Ex.bs "bob@example.com"] /\
       Signer.hvals Signer.cookie_h (Signer.r_headers (bk_req bv)) = [Ex.bs "theme=dark"] /\
       Signer.verify_rsa Signer_gen_proofs.g_cov (Signer.published_certs (sg_cfg Ex.ex_replace Ex.dep Ex.up_app Ex.h_app)) (bk_req bv) = Some true /\
       Signer.verify_hmac Signer_gen_proofs.g_covh (Ex.bs "k") (bk_req bv) = 3 /\
       Signer.conn_safe Signer_gen_proofs.g_protected (Signer.r_headers (signer_request Ex.q_app (bk_handler bv))) = true /\
       Signer.cl_canonical (signer_request Ex.q_app (bk_handler bv)) = true
   | None => False
   end) /\
  oc_backend (Ex.run Ex.q_replay) = None /\ oc_loc (Ex.run Ex.q_replay) = LkSignIn (Ex.bs "okta") /\
  Ex.run Ex.q_none = misdirected /\ oc_loc (Ex.run Ex.q_plain) = LkHttps.
Proof.
  destruct Ex.served_on_own_upstream as [H1 _]. destruct Ex.refused_elsewhere as (R1 & R2 & _ & _ & R5 & _ & R7 & _).
  split; [|auto]. destruct (oc_backend (Ex.run Ex.q_app)); [|exact H1]. tauto.
Qed.
Print Assumptions INT_nonvacuous.

(* ---------------------------------------------------------------------------------------------------- *)
(* Tie to the correspondence *)

(* one more adapter: the session ProxyCore's Authenticate asserts is C03's [asserted_session] for the due
   kind read off the deadlines and the authenticator's answers (the two developments model refresh /
   revalidation independently) *)
Theorem INT_adapter_asserted_session : forall (lower : str -> str) now c pol host s a s'',
  ProxyCore.ao_session (ProxyCore.authenticate lower now c pol host (ProxyCore.Sealed s) a) = Some s'' ->
  rh_session s'' =
  ReqHeaders.asserted_session (p_groups (ProxyCore.u_rules pol)) (rh_session s)
                              (due_of now (p_groups (ProxyCore.u_rules pol)) s a).
Proof. exact asserted_agrees. Qed.
Print Assumptions INT_adapter_asserted_session.

(* The composite monitor Corr_IntProxy.judge applies to the real proxy's observations. Its MEDIATION clauses are
   unguarded: which backend (routing by list search), whitelisted or CorrProxy's boolean session clause under the
   routed upstream's policy and slug, identity headers at the backend = the asserted session's or — exactly as
   INT_backend_reached_only_if states — nothing when the Connection header names the header hop-by-hop, absent
   on a whitelisted request, never the session cookie, 421 for unrouted hosts, bound sessions. The clauses of C12
   and C18 are applied only under the guards INT_signature_verifies / INT_every_response_hardened are proved
   under ([applic_of]: ap_sig; [hardening_applies]); outside them a case is judged for model = implementation
   agreement only and NOTHING is attributed to a known finding (the defects behind those guards are findings of
   C03 / C12 / C18, not of C01).
   The monitor accepts the observation the model itself predicts, for EVERY deployment, request, answers and
   time; the only hypothesis left is C18's residual monitor guard where the hardening clause applies (bytes < 256
   and a non-empty Host for the redirect shape, no announced trailer named like a protected header).
   So a falsifying observation is a difference between model and implementation. *)
Theorem INT_monitor_accepts_model :
  forall (re_match : str -> str -> bool) (re_replace : str -> str -> str -> str) (lower : str -> str)
         (opens : str -> option ProxyCore.session) d q a now,
  guards re_match re_replace lower opens d q a now ->
  holds re_match re_replace lower opens (applic_of q (serve re_match re_replace lower opens d q a now)) d q a now
        (model_obs re_match re_replace lower opens d q a now) = true.
Proof. exact monitor_accepts_model. Qed.
Print Assumptions INT_monitor_accepts_model.

(* the hypothesis is satisfiable, and on that request none of the guarded clauses is skipped *)
Theorem INT_monitor_guards_satisfiable :
  guards Ex.ex_match Ex.ex_replace lower_ascii Ex.ex_opens Ex.dep Ex.q_app Ex.quiet 1000%Z /\
  ap_sig (applic_of Ex.q_app (Ex.run Ex.q_app)) = true /\
  (forall k, In k ReqHeaders.identity_keys -> ap_hop (applic_of Ex.q_app (Ex.run Ex.q_app)) k = false) /\
  hardening_applies Ex.up_app Ex.quiet = true.
Proof. exact (conj guards_satisfiable clauses_apply_nonvacuous). Qed.
Print Assumptions INT_monitor_guards_satisfiable.
