(* C03 — Upstream sees only proxy-asserted identity headers, never the session cookie.
   Only statements; each is closed by [exact <lemma>].

   Vocabulary (coq/theories/ReqHeaders.v): [client] is the list of header lines (name, value) a
   client put on the wire, any spelling, any multiplicity; [to_reverse_proxy scrub cfg m client] is
   the header map OAuthProxy.Proxy + deleteCookieHandler hand to httputil.ReverseProxy;
   [upstream scrub cfg m client] is what ReverseProxy sends on (hop-by-hop removal applied);
   [m] says which branch of Proxy ran (Authenticated s: Authenticate returned nil having loaded
   session s; SkipAuth: whitelisted request); [scrub = false] is the code that exists,
   [scrub = true] the proposed repair (delete the four identity headers at the top of Proxy). *)
From V Require Import Base ReqHeaders ReqHeaders_proofs CorrBase Corr_C03 Corr_C03_proofs.

(* Authenticated path: whatever the client sent, in any spelling and multiplicity, and whatever
   the operator injects, the header map handed to the reverse proxy has exactly one value for each
   of X-Forwarded-User / -Email / -Groups, the session's. Holds with and without the repair. *)
Theorem C03_auth_headers : forall scrub cfg s client,
  let h := to_reverse_proxy scrub cfg (Authenticated s) client in
  h_get k_xfu h = [s_user s] /\ h_get k_xfe h = [s_email s] /\ h_get k_xfg h = [join [44] (s_groups s)].
Proof. exact trp_auth_headers. Qed.
Print Assumptions C03_auth_headers.

(* ... and the same at the upstream for every header the client's Connection lines do not name
   (guards: the operator does not inject a Connection header). *)
Theorem C03_auth_headers_upstream_partial : forall scrub cfg s client,
  operator_clean cfg k_connection ->
  let out := upstream scrub cfg (Authenticated s) client in
  (client_conn_names client k_xfu = false -> h_get k_xfu out = [s_user s]) /\
  (client_conn_names client k_xfe = false -> h_get k_xfe out = [s_email s]) /\
  (client_conn_names client k_xfg = false -> h_get k_xfg out = [join [44] (s_groups s)]).
Proof. exact upstream_auth_headers. Qed.
Print Assumptions C03_auth_headers_upstream_partial.

(* The unguarded clause "the upstream receives the session's identity headers" is FALSE, with and
   without the repair: ReverseProxy deletes the headers a client names in Connection after the
   proxy asserted them (known finding C03-K3). *)
Theorem C03_hop_by_hop_refuted : forall scrub,
  exists cfg s client,
    let out := upstream scrub cfg (Authenticated s) client in
    h_get k_xfu out = [] /\ h_get k_xfe out = [] /\ h_get k_xfg out = want_groups s.
Proof. exact hop_by_hop_refuted. Qed.
Print Assumptions C03_hop_by_hop_refuted.

(* No cookie with the session cookie's name reaches the upstream: for every client header list
   (every Cookie header layout), every mode, every configuration, with and without the repair. *)
Theorem C03_cookie_stripped : forall scrub cfg m client c,
  In c (read_cookies (h_get k_cookie (upstream scrub cfg m client))) -> c_name c <> cookie_name cfg.
Proof. exact upstream_cookie_stripped. Qed.
Print Assumptions C03_cookie_stripped.

(* Independently of the upstream's parser: the Cookie header handed on is absent or ONE line
   name=value;name=value;... whose names are RFC tokens different from the session cookie's name
   and whose pieces contain no ';'. *)
Theorem C03_cookie_header_shape : forall scrub cfg m client,
  exists cs, Forall (fun c => valid_cookie c /\ c_name c <> cookie_name cfg) cs /\
    h_get k_cookie (to_reverse_proxy scrub cfg m client) =
    match cs with [] => [] | _ => [join [59] (map (fun c => c_name c ++ 61 :: rendered_value c) cs)] end.
Proof. exact trp_cookie_shape. Qed.
Print Assumptions C03_cookie_header_shape.

(* Every well-formed pair with another name survives with the same name and value, in order.
   Well-formed = accepted by net/http's parser ([parse_part p = Some c], each ';'-separated part on
   its own, see C03_pairs_parsed_independently). Guards: the client does not itself name Cookie in
   Connection; on the authenticated path the operator injects neither Cookie nor Connection. *)
Theorem C03_other_cookies_kept : forall scrub cfg m client,
  (m = SkipAuth \/ (operator_clean cfg k_cookie /\ operator_clean cfg k_connection)) ->
  client_conn_names client k_cookie = false ->
  map name_value (read_cookies (h_get k_cookie (upstream scrub cfg m client))) = want_cookies (cookie_name cfg) client.
Proof. exact upstream_cookies_kept. Qed.
Print Assumptions C03_other_cookies_kept.

Theorem C03_pairs_parsed_independently : forall ps,
  ps <> [] -> Forall (fun p => ~ In 59 p) ps -> trim (join [59] ps) = join [59] ps ->
  read_cookies [join [59] ps] = flat_map (fun p => opt_list (parse_part p)) ps.
Proof. exact read_line_parts. Qed.
Print Assumptions C03_pairs_parsed_independently.

(* What is rewritten: a kept cookie is written as name=value; the value is put in double quotes iff
   it is non-empty and (contains a space or a comma, or arrived quoted); a quoted empty value is
   written empty; nothing else changes (no byte of a parsed value is ever dropped). *)
Theorem C03_cookie_rewrite_form : forall c, valid_cookie c ->
  cookie_string c = c_name c ++ 61 :: rendered_value c.
Proof. exact cookie_string_form. Qed.
Print Assumptions C03_cookie_rewrite_form.

(* Skip-auth requests: "the identity headers are absent" is FALSE of the code that exists — client
   values in any spelling arrive (known finding C03-K1) ... *)
Theorem C03_skipauth_refuted :
  exists cfg client, forall k, In k identity_keys -> h_get k (upstream false cfg SkipAuth client) = [w_evil].
Proof. exact skipauth_refuted. Qed.
Print Assumptions C03_skipauth_refuted.

(* ... it holds for the repaired code, for every client header list and configuration ... *)
Theorem C03_skipauth_absent : forall cfg client k,
  In k identity_keys -> h_get k (upstream true cfg SkipAuth client) = [].
Proof. exact upstream_skip_absent. Qed.
Print Assumptions C03_skipauth_absent.

(* ... and today exactly for the headers the client did not send. *)
Theorem C03_skipauth_today_partial : forall cfg client k,
  In k identity_keys -> client_sent client k = false -> h_get k (upstream false cfg SkipAuth client) = [].
Proof. exact upstream_skip_today. Qed.
Print Assumptions C03_skipauth_today_partial.

(* X-Forwarded-Access-Token "only when enabled": FALSE of the code that exists — with the option
   off and nothing injected the client's value arrives (known finding C03-K2) ... *)
Theorem C03_token_refuted :
  exists cfg s client, pass_access_token cfg = false /\ inject cfg = [] /\
    h_get k_xfat (upstream false cfg (Authenticated s) client) = [w_evil].
Proof. exact token_refuted. Qed.
Print Assumptions C03_token_refuted.

(* ... for the repaired code the header handed to the reverse proxy is exactly the session's token
   when the option is on and the token non-empty, else only an operator-injected value, else
   absent; the upstream sees that or nothing ... *)
Theorem C03_token_only_when_enabled : forall cfg s client,
  h_get k_xfat (to_reverse_proxy true cfg (Authenticated s) client) = allowed_token cfg s /\
  (h_get k_xfat (upstream true cfg (Authenticated s) client) = allowed_token cfg s \/
   h_get k_xfat (upstream true cfg (Authenticated s) client) = []).
Proof. exact upstream_token_scrubbed. Qed.
Print Assumptions C03_token_only_when_enabled.

(* ... and today whenever the client did not send the header. *)
Theorem C03_token_today_partial : forall cfg s client, client_sent client k_xfat = false ->
  h_get k_xfat (to_reverse_proxy false cfg (Authenticated s) client) = allowed_token cfg s /\
  (h_get k_xfat (upstream false cfg (Authenticated s) client) = allowed_token cfg s \/
   h_get k_xfat (upstream false cfg (Authenticated s) client) = []).
Proof. exact upstream_token_today. Qed.
Print Assumptions C03_token_today_partial.

(* The monitor applied to the backend's observations (Corr_C03.holds) accepts the model's own
   output: for the repaired model whenever the client's Connection lines name no identity header;
   for today's model when in addition the client sent no identity header. *)
Theorem C03_monitor_accepts_model : forall scrub cfg m client,
  (m = SkipAuth \/ operator_clean cfg k_connection) ->
  (forall k, In k identity_keys -> client_conn_names client k = false) ->
  (scrub = true \/ forall k, In k identity_keys -> client_sent client k = false) ->
  let out := upstream scrub cfg m client in
  holds cfg RProxy m client (h_get k_xfu out) (h_get k_xfe out) (h_get k_xfg out) (h_get k_xfat out) (h_get k_cookie out)
        (map name_value (read_cookies (h_get k_cookie out))) = true.
Proof. exact monitor_accepts_model. Qed.
Print Assumptions C03_monitor_accepts_model.

(* A refresh (RefreshDeadline passed, /refresh 201, /profile 200), a revalidation (ValidDeadline
   passed) or a grace-period fallback is due: the identity headers handed on are those of the
   session the proxy re-saves in this very response (the provider's fresh group answer filtered by
   the allowed groups, the rotated access token), not of the session the cookie presented. *)
Theorem C03_asserted_session_is_resaved : forall scrub cfg allowed s d client,
  let s' := saved_or_presented allowed s d in
  let h := to_reverse_proxy scrub cfg (Authenticated (asserted_session allowed s d)) client in
  h_get k_xfu h = [s_user s'] /\ h_get k_xfe h = [s_email s'] /\ h_get k_xfg h = [join [44] (s_groups s')] /\
  (scrub = true -> h_get k_xfat h = allowed_token cfg s').
Proof. exact due_auth_headers. Qed.
Print Assumptions C03_asserted_session_is_resaved.

Theorem C03_refresh_headers : forall cfg allowed s tok ug client,
  let h := to_reverse_proxy true cfg (Authenticated (asserted_session allowed s (RefreshDue tok ug))) client in
  h_get k_xfu h = [s_user s] /\ h_get k_xfe h = [s_email s] /\
  h_get k_xfg h = [join [44] (matched_groups allowed ug)] /\
  (pass_access_token cfg = true -> tok <> [] -> h_get k_xfat h = [tok]).
Proof. exact refresh_headers. Qed.
Print Assumptions C03_refresh_headers.

(* the monitor (which judges by the re-saved session read from the response) accepts the model *)
Theorem C03_monitor_accepts_model_due : forall scrub cfg m allowed d client,
  (m = SkipAuth \/ operator_clean cfg k_connection) ->
  (forall k, In k identity_keys -> client_conn_names client k = false) ->
  (scrub = true \/ forall k, In k identity_keys -> client_sent client k = false) ->
  let out := upstream scrub cfg (model_mode allowed d m) client in
  holds cfg RProxy (observed_mode (model_saved allowed d RProxy m) m) client
        (h_get k_xfu out) (h_get k_xfe out) (h_get k_xfg out) (h_get k_xfat out) (h_get k_cookie out)
        (map name_value (read_cookies (h_get k_cookie out))) = true.
Proof. exact monitor_accepts_model_due. Qed.
Print Assumptions C03_monitor_accepts_model_due.

(* ---- every route of OAuthProxy.Handler() that ends in the reverse proxy -------------------------
   PathPrefix("/") -> Proxy (the statements above) and /favicon.ico -> Favicon = Authenticate then
   Proxy. Stated for the code with the scrub step (87f9230). *)

(* The session cookie reaches the upstream on no route, in no mode. *)
Theorem C03_cookie_stripped_all_routes : forall scrub cfg r m client c,
  In c (read_cookies (h_get k_cookie (upstream_r scrub cfg r m client))) -> c_name c <> cookie_name cfg.
Proof. exact upstream_r_cookie_stripped. Qed.
Print Assumptions C03_cookie_stripped_all_routes.

Theorem C03_other_cookies_kept_all_routes : forall scrub cfg r m client,
  (inject_ran r m = false \/ (operator_clean cfg k_cookie /\ operator_clean cfg k_connection)) ->
  client_conn_names client k_cookie = false ->
  map name_value (read_cookies (h_get k_cookie (upstream_r scrub cfg r m client))) = want_cookies (cookie_name cfg) client.
Proof. exact upstream_r_cookies_kept. Qed.
Print Assumptions C03_other_cookies_kept_all_routes.

(* /favicon.ico, authenticated: exactly the session's identity, and the access token only when
   enabled — whatever the client sent and whatever Favicon's own Authenticate had put there. *)
Theorem C03_favicon_auth_headers : forall cfg s1 s client,
  let h := to_reverse_proxy_r true cfg (RFavicon s1) (Authenticated s) client in
  h_get k_xfu h = [s_user s] /\ h_get k_xfe h = [s_email s] /\ h_get k_xfg h = [join [44] (s_groups s)] /\
  h_get k_xfat h = allowed_token cfg s.
Proof. exact favicon_auth_headers. Qed.
Print Assumptions C03_favicon_auth_headers.

(* /favicon.ico matched by a skip pattern: no identity header reaches the upstream. *)
Theorem C03_favicon_skip_absent : forall cfg s1 client k,
  In k identity_keys -> h_get k (upstream_r true cfg (RFavicon s1) SkipAuth client) = [].
Proof. exact favicon_skip_absent. Qed.
Print Assumptions C03_favicon_skip_absent.

(* The monitor accepts the model on every route (the form judge uses). *)
Theorem C03_monitor_accepts_model_routes : forall cfg r m allowed d client,
  (inject_ran r m = false \/ operator_clean cfg k_connection) ->
  (forall k, In k identity_keys -> client_conn_names client k = false) ->
  let out := upstream_r true cfg (model_route allowed d r) (model_mode allowed d m) client in
  holds cfg (model_route allowed d r) (observed_mode (model_saved allowed d r m) m) client
        (h_get k_xfu out) (h_get k_xfe out) (h_get k_xfg out) (h_get k_xfat out) (h_get k_cookie out)
        (map name_value (read_cookies (h_get k_cookie out))) = true.
Proof. exact monitor_accepts_model_routes_due. Qed.
Print Assumptions C03_monitor_accepts_model_routes.

(* Configuration: an upstream whose own options say `pass_access_token: false` never receives the
   session's access token (only a value the operator injects), on every route, whatever the
   deployment-wide default and whatever the client sent. *)
Theorem C03_explicit_optout_respected : forall cfg deployment_default r s client v,
  pass_access_token cfg = resolve_pass_access_token deployment_default (Some false) ->
  In v (h_get k_xfat (upstream_r true cfg r (Authenticated s) client)) -> last_injected k_xfat (inject cfg) = Some v.
Proof. exact optout_respected. Qed.
Print Assumptions C03_explicit_optout_respected.

(* Clause F of the monitor (a re-saved session is the presented one or the one the authenticator's
   answers of this exchange vouch for) accepts what the model re-saves, for every due kind —
   including a request that joins another request's coalesced refresh / revalidation. *)
Theorem C03_resaved_session_is_vouched_for : forall allowed d r m,
  saved_legit allowed d m (model_saved allowed d r m) = true.
Proof. exact saved_legit_model. Qed.
Print Assumptions C03_resaved_session_is_vouched_for.
