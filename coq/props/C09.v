(* C09 — The authenticator issues codes only for live, provider-confirmed, allowed sessions;
   the IdP callback creates a session only for the browser that started the flow; a session's
   lifetime is fixed at the IdP login and never extended.
   This file contains only statements; each is closed by [exact <lemma>].

   Reading guide. [lower] is strings.ToLower (any function: the theorems hold for every
   folding). The request fields si_client_ok / si_redirect_ok / si_sig_ok are the verdicts of
   the route's three gates (validateClientID, validateRedirectURI, validateSignature); what
   those verdicts mean for the strings involved is C07/C08. A cookie [CkSealed k s] opens
   under key k only (symbolic AEAD). All instants are seconds. *)
From V Require Import Base Validators Validators_proofs AuthFlow AuthFlow_proofs CorrBase.
From V Require Corr_C11.
From V Require Import Corr_C09 Corr_C09_proofs.
Local Open Scope Z_scope.

(* A response of GET /sign_in carries a code for session s ONLY IF every gate passed, the
   presented cookie is a seal under the COOKIE key of some s0 that is within its lifetime and
   whose e-mail passes the configured rule, and in THIS request the IdP either
     - (refresh due)     answered 200 with a token document to a refresh request made with
                         s0's non-empty refresh token, or
     - (refresh not due) answered the validation of s0's non-empty access token with 200
                         (whose body decodes as JSON for Okta and Cognito, with active:true for Okta);
   the code seals s0 itself (refresh not due) or s0 with only access token and refresh deadline
   replaced: same e-mail, same refresh token, same lifetime; and exactly that session is re-saved. *)
Theorem C09_code_sound : forall (lower : str -> str) cfg p now rq c rr vr s,
  r_code (sign_in_route lower cfg p now rq c rr vr) = Some s ->
  (si_get rq = true /\ si_client_ok rq = true /\ si_redirect_ok rq = true /\ si_sig_ok rq = true /\
   si_state rq <> []) /\
  exists s0, c = CkSealed KCookie s0 /\ now <= s_lifetime s0 /\
    rule_passes lower cfg (s_email s0) = true /\
    s_email s = s_email s0 /\ s_lifetime s = s_lifetime s0 /\ s_rtok s = s_rtok s0 /\
    r_ops (sign_in_route lower cfg p now rq c rr vr) = [OpSet s] /\
    ((s_refresh s0 < now /\ s_rtok s0 <> [] /\
      exists jerr tok dur, rr = RStatus 200 jerr (Some (tok, dur)) /\
        s = mkS (s_email s0) tok (s_rtok s0) (now + dur) (s_lifetime s0) /\
        r_calls (sign_in_route lower cfg p now rq c rr vr) = [CallRefresh (s_rtok s0)]) \/
     (now <= s_refresh s0 /\ s = s0 /\ s_access s0 <> [] /\
      (exists j a, vr = VStatus 200 j a /\ (p <> Google -> j = true) /\ (p = Okta -> a = true)) /\
      r_calls (sign_in_route lower cfg p now rq c rr vr) = [CallValidate (s_access s0)])).
Proof. exact code_sound. Qed.
Print Assumptions C09_code_sound.

(* Sub-second instants. Deadlines are whole seconds; a request made strictly inside second k
   (at k*1000 + ms milliseconds, 0 < ms < 1000) sees a deadline t as passed exactly when the model
   at now = k + 1 does: a session whose lifetime deadline is the START of the current second is
   already expired, whatever the milliseconds. (All theorems above and below quantify over every
   [now], so they hold at these instants.) *)
Theorem C09_subsecond_instant : forall t k ms,
  0 < ms < 1000 -> (t * 1000 <? k * 1000 + ms) = is_expired (k + 1) t.
Proof. exact subsecond_instant. Qed.
Print Assumptions C09_subsecond_instant.

Theorem C09_expired_within_its_second_no_code : forall (lower : str -> str) cfg p k rq s0 rr vr,
  s_lifetime s0 <= k ->
  r_code (sign_in_route lower cfg p (k + 1) rq (CkSealed KCookie s0) rr vr) = None.
Proof.
  intros lower cfg p k rq s0 rr vr H.
  destruct (r_code (sign_in_route lower cfg p (k + 1) rq (CkSealed KCookie s0) rr vr)) as [s|] eqn:E; [|reflexivity].
  destruct (code_sound lower _ _ _ _ _ _ _ _ E) as [_ [s1 [Hc [Hl _]]]]. inversion Hc; subst. lia.
Qed.
Print Assumptions C09_expired_within_its_second_no_code.

(* "passes the configured rule" is the documented rule: exact folded address when addresses
   are configured, whole folded domain otherwise (guard: no '@' inside a configured domain) *)
Theorem C09_rule_is_documented : forall (lower : str -> str) cfg email,
  rule_guard lower cfg = true ->
  rule_passes lower cfg email =
  match c_addresses cfg with
  | [] => Corr_C11.spec_domain lower (c_domains cfg) email
  | a => Corr_C11.spec_address lower a email
  end.
Proof. exact rule_passes_spec. Qed.
Print Assumptions C09_rule_is_documented.

(* Otherwise no code: a code is present EXACTLY when the closed formula [code_due] holds, ... *)
Theorem C09_no_code_otherwise : forall (lower : str -> str) cfg p now rq c rr vr,
  is_some (r_code (sign_in_route lower cfg p now rq c rr vr)) =
  (si_get rq && si_client_ok rq && si_redirect_ok rq && si_sig_ok rq && negb (is_nil (si_state rq)) &&
   match open_sealed KCookie c with
   | Some s0 =>
       (now <=? s_lifetime s0) &&
       (if s_refresh s0 <? now then negb (is_nil (s_rtok s0)) && refresh_ok p rr
        else negb (is_nil (s_access s0)) && idp_validates p vr) &&
       rule_passes lower cfg (s_email s0)
   | None => false
   end).
Proof. exact code_iff. Qed.
Print Assumptions C09_no_code_otherwise.

(* ... and every response without a code is the sign-in page (200) or an error page (>= 400);
   a response with a code is the 302 *)
Theorem C09_no_code_response_shape : forall (lower : str -> str) cfg p now rq c rr vr,
  let r := sign_in_route lower cfg p now rq c rr vr in
  match r_code r with
  | Some _ => r_status r = 302%N /\ r_body r = BodyRedirect
  | None => (r_status r = 200%N /\ r_body r = BodySignInPage) \/
            ((400 <= r_status r)%N /\ r_body r = BodyErrorPage)
  end.
Proof. exact response_shape. Qed.
Print Assumptions C09_no_code_response_shape.

(* The callback saves a session ONLY IF the state decodes to nonce ":" redirect with a
   colon-free nonce EQUAL to the CSRF cookie's value, the redirect is valid, redeem returned a
   non-empty e-mail that passes the rule; the session's lifetime is now + SESSION_LIFETIME. *)
Theorem C09_callback_csrf : forall (lower : str -> str) cfg now rq rd s,
  cr_saved (oauth_callback lower cfg now rq rd) = Some s ->
  exists nonce redirect email access rtok dur,
    cb_get rq = true /\ cb_error rq = [] /\ cb_code rq <> [] /\
    cb_state rq = Some (nonce ++ colon :: redirect) /\ ~ In colon nonce /\
    cb_csrf rq = Some nonce /\
    cb_redirect_ok rq redirect = true /\
    rd = RdTokens email access rtok dur /\ email <> [] /\
    rule_passes lower cfg email = true /\
    s = redeemed_session cfg now email access rtok dur /\
    cr_location (oauth_callback lower cfg now rq rd) = Some redirect /\
    cr_status (oauth_callback lower cfg now rq rd) = 302%N /\
    cr_calls (oauth_callback lower cfg now rq rd) = [CallRedeem (cb_code rq)].
Proof. exact callback_csrf. Qed.
Print Assumptions C09_callback_csrf.

Theorem C09_callback_no_session_no_redirect : forall (lower : str -> str) cfg now rq rd,
  cr_saved (oauth_callback lower cfg now rq rd) = None ->
  cr_location (oauth_callback lower cfg now rq rd) = None /\
  (400 <= cr_status (oauth_callback lower cfg now rq rd))%N.
Proof. exact callback_no_session. Qed.
Print Assumptions C09_callback_no_session_no_redirect.

(* Every Set-Cookie of every /sign_in response re-saves the loaded session with the lifetime
   (and owner, and refresh token) it was loaded with — for all inputs. *)
Theorem C09_resave_keeps_lifetime : forall (lower : str -> str) cfg p now rq c rr vr s',
  In (OpSet s') (r_ops (sign_in_route lower cfg p now rq c rr vr)) ->
  exists s0, c = CkSealed KCookie s0 /\ now <= s_lifetime s0 /\
    s_email s' = s_email s0 /\ s_rtok s' = s_rtok s0 /\ s_lifetime s' = s_lifetime s0 /\
    (now <= s_refresh s0 -> s' = s0).
Proof. exact sign_in_route_sets. Qed.
Print Assumptions C09_resave_keeps_lifetime.

(* Over ALL histories of the authenticator (any interleaving of time passing, IdP callbacks and
   /sign_in requests that present any cookie issued so far or any forgery, with any IdP
   behaviour): every session cookie ever issued has lifetime = (instant of some IdP login that
   saved a session) + SESSION_LIFETIME, and every code was issued between that login and that
   lifetime. Refreshes never move it. *)
Theorem C09_lifetime_never_extended : forall (lower : str -> str) cfg evs t_start,
  let w := run lower cfg (world0 t_start) evs in
  (forall s, In s (w_issued w) ->
     exists t0, In t0 (w_logins w) /\ t0 <= w_now w /\ s_lifetime s = t0 + c_lifetime_ttl cfg) /\
  (forall t s, In (t, s) (w_codes w) ->
     exists t0, In t0 (w_logins w) /\ t0 <= t /\ t <= t0 + c_lifetime_ttl cfg /\
                s_lifetime s = t0 + c_lifetime_ttl cfg).
Proof. exact lifetime_never_extended. Qed.
Print Assumptions C09_lifetime_never_extended.

Theorem C09_logins_only_by_callback : forall (lower : str -> str) cfg w e,
  w_logins (step lower cfg w e) = w_logins w \/
  exists rq rd s, e = EvCallback rq rd /\ cr_saved (oauth_callback lower cfg (w_now w) rq rd) = Some s /\
                  w_logins (step lower cfg w e) = w_now w :: w_logins w.
Proof. exact logins_only_by_callback. Qed.
Print Assumptions C09_logins_only_by_callback.

(* One browser with a cookie jar (RFC 6265: an expired Set-Cookie removes the cookie, any other
   stores it, also with an empty value; every request carries what the jar holds). Over ALL
   histories of /start, callbacks (honest or forged: any state, any code), sign-ins and time:
   a callback creates a session ONLY IF the nonce in its state equals the CSRF cookie the jar
   holds, and that value was the server's choice at a /start of THIS browser's history that no
   later callback has consumed; the callback removes the cookie, so a nonce serves once. *)
Theorem C09_browser_csrf_binding : forall (lower : str -> str) cfg evs t0 rq rd s,
  let w := brun lower cfg (bworld0 t0) evs in
  cr_saved (oauth_callback lower cfg (bw_now w) (with_csrf rq (bw_csrf w)) rd) = Some s ->
  exists nonce redirect srq,
    cb_state rq = Some (nonce ++ colon :: redirect) /\ ~ In colon nonce /\
    bw_csrf w = Some nonce /\ In (BvStart nonce srq) evs /\
    cb_redirect_ok rq redirect = true /\
    bw_csrf (bstep lower cfg w (BvCallback rq rd)) = None /\
    bw_sess (bstep lower cfg w (BvCallback rq rd)) = Some s.
Proof. exact browser_csrf_binding. Qed.
Print Assumptions C09_browser_csrf_binding.

(* the jar never holds a CSRF value that did not come from a /start response *)
Theorem C09_browser_jar_provenance : forall (lower : str -> str) cfg evs t0 n,
  bw_csrf (brun lower cfg (bworld0 t0) evs) = Some n -> exists srq, In (BvStart n srq) evs.
Proof.
  intros lower cfg evs t0 n H.
  assert (Hin : In n (bw_starts (brun lower cfg (bworld0 t0) evs))).
  { apply (binv_run lower cfg evs (bworld0 t0)); [intros m E; discriminate | exact H]. }
  destruct (starts_from_events lower _ _ _ _ Hin) as [[]|Hs]. exact Hs.
Qed.
Print Assumptions C09_browser_jar_provenance.

(* Concurrency. With several /sign_in requests in flight the single-flight layer may coalesce a
   request's provider call with another's for the SAME token. A coalesced validation yields the
   outcome of a call of its own; a coalesced REFRESH follower continues with its session
   untouched. Such a follower response carries a code only for the authentic presented session
   itself, within its lifetime, allowed by the rule, with a due refresh and a non-empty refresh
   token (that the leader's refresh for that token succeeded is the batch-level premise of the
   monitor, see C09_concurrent_monitor_accepts_model). *)
Theorem C09_follower_code_sound : forall (lower : str -> str) cfg now rq c r s,
  sign_in_route_follower lower cfg now rq c = Some r -> r_code r = Some s ->
  si_get rq = true /\ si_client_ok rq = true /\ si_redirect_ok rq = true /\ si_sig_ok rq = true /\
  c = CkSealed KCookie s /\ now <= s_lifetime s /\ s_refresh s < now /\ s_rtok s <> [] /\
  rule_passes lower cfg (s_email s) = true /\ r_ops r = [OpSet s] /\ r_calls r = [].
Proof. exact follower_code_sound. Qed.
Print Assumptions C09_follower_code_sound.

(* The batch monitor (code= ==> the batch's IdP log shows a call for THAT session's token and
   the IdP's answer for that token is positive, ...) accepts both behaviours the model allows:
   the sequential outcome against any log containing the request's own call, and the refresh
   follower when the answer for its token is positive and the log shows the refresh. *)
Theorem C09_concurrent_monitor_accepts_model : forall (lower : str -> str) cfg p now rq c rr vr calls,
  rule_guard lower cfg = true ->
  ((forall x, In x (r_calls (sign_in_route lower cfg p now rq c rr vr)) -> mem_call x calls = true) ->
   si_holds lower cfg p now rq c rr vr
     (with_calls (si_obs_of (sign_in_route lower cfg p now rq c rr vr)) calls) = true) /\
  (forall r, sign_in_route_follower lower cfg now rq c = Some r ->
     refresh_ok_reply rr = true ->
     (forall s0, c = CkSealed KCookie s0 -> mem_call (CallRefresh (s_rtok s0)) calls = true) ->
     si_holds lower cfg p now rq c rr vr (with_calls (si_obs_of r) calls) = true).
Proof.
  intros lower cfg p now rq c rr vr calls G. split.
  - exact (si_holds_model_calls lower cfg p now rq c rr vr calls G).
  - intros r. exact (si_holds_follower lower cfg p now rq c rr vr r calls G).
Qed.
Print Assumptions C09_concurrent_monitor_accepts_model.

(* The monitors applied to the implementation's observations accept the model's own behaviour
   on every input and every history (so a monitor alarm is never an artefact of the monitor). *)
Theorem C09_monitor_accepts_model : forall (lower : str -> str) cfg,
  rule_guard lower cfg = true ->
  (forall p now rq c rr vr,
     si_holds lower cfg p now rq c rr vr (si_obs_of (sign_in_route lower cfg p now rq c rr vr)) = true) /\
  (forall now rq rd, cb_holds lower cfg now rq rd (cb_obs_of (oauth_callback lower cfg now rq rd)) = true) /\
  (forall evs w, hist_judge lower cfg w (w_issued w) (model_steps lower cfg w evs) = (true, true)) /\
  (forall evs w, Forall good_event evs ->
     bhist_judge lower cfg w (mjar_of w) (bw_sess w) (bmodel_steps lower cfg w evs) = (true, true)).
Proof.
  intros lower cfg G. split; [|split; [|split]].
  - intros. exact (si_holds_model lower cfg p now rq c rr vr G).
  - intros. exact (cb_holds_model lower cfg now rq rd G).
  - intros. exact (hist_holds_model lower cfg evs w G).
  - intros evs w Hg. exact (bhist_holds_model lower cfg evs w G Hg).
Qed.
Print Assumptions C09_monitor_accepts_model.

(* non-vacuity: a history with an IdP login, a validated and a refreshed sign-in (two codes),
   and a sign-in after the lifetime (sign-in page, cookie cleared) *)
Theorem C09_nonvacuous :
  (let w := run lower_ascii ex_cfg (world0 0) ex_trace in
   w_logins w = [0] /\ map fst (w_codes w) = [1200; 600] /\
   map s_lifetime (w_issued w) = [3900; 3900; 3900] /\ w_now w = 4200) /\
  (let w := run lower_ascii ex_cfg (world0 0) (firstn 6 ex_trace) in
   let r := sign_in_route lower_ascii ex_cfg Google (w_now w) ex_si (present w (PIssued 0)) RReset (VStatus 200 true true) in
   r_status r = 200%N /\ r_body r = BodySignInPage /\ r_code r = None /\ r_ops r = [OpClear; OpClear]).
Proof. split; [exact ex_trace_runs | exact ex_expired_shows_sign_in_page]. Qed.
Print Assumptions C09_nonvacuous.

(* a browser: /start then the honest callback creates a session and empties the jar; the forged
   empty-nonce callback is then refused — and WOULD succeed if the jar still held a live
   empty-valued CSRF cookie (so the jar semantics are what the guarantee rests on) *)
Theorem C09_browser_nonvacuous :
  let rd := RdTokens ex_email [116]%N [114]%N 900 in
  let w1 := brun lower_ascii ex_cfg (bworld0 0) [BvStart ex_nonce ex_start] in
  let w2 := bstep lower_ascii ex_cfg w1 (BvCallback (ex_bcb (ex_nonce ++ colon :: ex_redirect)) rd) in
  bw_csrf w1 = Some ex_nonce /\ bw_csrf w2 = None /\ (exists s, bw_sess w2 = Some s) /\
  cr_saved (oauth_callback lower_ascii ex_cfg 0 (with_csrf (ex_bcb (colon :: ex_redirect)) (bw_csrf w2)) rd) = None /\
  (exists s, cr_saved (oauth_callback lower_ascii ex_cfg 0 (with_csrf (ex_bcb (colon :: ex_redirect))
                         (jar_apply_all (bw_csrf w1) [mkSC [] false])) rd) = Some s).
Proof. exact ex_browser_runs. Qed.
Print Assumptions C09_browser_nonvacuous.
