(* C14 — Upstream configuration resolves fail-closed and field by field.
   This file contains only statements; each is closed by [exact <lemma>].

   Model: theories/Config.v (loadServiceConfigs passes, mergo v0.3.7 deepMerge on the shapes
   that occur, SetUpstreamConfigs). Oracles (explicit arguments, any functions): [url_ok]
   (urlParse accepts), [re_ok] (regexp.Compile accepts), [digest_ok] (hmacauth knows the
   digest). YAML parsing is outside: the theorems start from the abstract document. *)
From V Require Import Base Config Config_proofs CorrBase Corr_C14 Corr_C14_proofs Config_witness_proofs.
From V Require Validators.
From Coq Require Import Permutation.

(* Loading either fails or yields upstreams that each have a non-empty service name, `from`
   and `to`, a route of a known type accepted by the URL parser / regexp compiler, every listed
   skip-auth pattern compiled (the compiled list IS the effective options' list: nothing is
   dropped), and at least one allow rule; each is the resolution of a route the document
   states for the selected cluster. For all oracles, environments and documents. *)
Theorem C14_fail_closed : forall (O : oracle) (E : env) (d : doc) (ups : list upstream),
  set_upstream_configs O E d = Ok ups ->
  Forall (fun u =>
    u_service u <> [] /\ u_from u <> [] /\ u_to u <> [] /\
    ((u_kind u = 0 /\ (u_type u = [] \/ u_type u = lit_simple) /\
      url_ok O (u_from u) = true /\ url_ok O (u_to u) = true) \/
     (u_kind u = 1 /\ u_type u = lit_rewrite /\ re_ok O (u_from u) = true)) /\
    Forall (fun p => re_ok O p = true) (u_skip u) /\
    u_groups u ++ u_domains u ++ u_addresses u <> []) ups /\
  Forall2 (fun u0 u => u_skip u = o_skip_auth_regex (effective_opts (e_defaults E) (u0_route u0)) /\
                       u_service u = u0_service u0 /\ u_from u = rc_from (u0_route u0) /\
                       u_to u = rc_to (u0_route u0) /\ u_type u = rc_type (u0_route u0) /\
                       u_route u = route_parts O (u0_route u0) (u_kind u))
          (routes (e_cluster E) (subst_doc (e_tvars E) d)) ups.
Proof. exact fail_closed. Qed.
Print Assumptions C14_fail_closed.

(* Each malformed variant is refused: if ANY route the document states for the selected
   cluster has no service name / from / to, an unknown type, an unparsable URL, a `from` or
   skip-auth pattern that does not compile, a bad signing-key spec, or no allow rule at all
   (own or deployment default), SetUpstreamConfigs returns an error. *)
Theorem C14_malformed_rejected : forall (O : oracle) (E : env) (d : doc) (u : upstream0),
  In u (routes (e_cluster E) (subst_doc (e_tvars E) d)) ->
  ( u0_service u = [] \/ rc_from (u0_route u) = [] \/ rc_to (u0_route u) = [] \/
    (rc_type (u0_route u) <> [] /\ rc_type (u0_route u) <> lit_simple /\ rc_type (u0_route u) <> lit_rewrite) \/
    ((rc_type (u0_route u) = [] \/ rc_type (u0_route u) = lit_simple) /\
     (url_ok O (rc_from (u0_route u)) = false \/ url_ok O (rc_to (u0_route u)) = false)) \/
    (rc_type (u0_route u) = lit_rewrite /\ re_ok O (rc_from (u0_route u)) = false) \/
    (exists p, In p (o_skip_auth_regex (effective_opts (e_defaults E) (u0_route u))) /\ re_ok O p = false) \/
    (exists spec, map_get (u0_service u ++ lit_signing_key) (e_tvars E) = Some spec /\ hmac_spec_ok O spec = false) \/
    (let o := effective_opts (e_defaults E) (u0_route u) in
     o_groups o = [] /\ o_domains o = [] /\ o_addresses o = []) ) ->
  exists e, set_upstream_configs O E d = Err e.
Proof. exact malformed_rejected. Qed.
Print Assumptions C14_malformed_rejected.

(* The loader (before the allow-rule check) accepts exactly when every resolved route passes
   every check, and then returns exactly their resolutions, in order. *)
Theorem C14_load_characterisation : forall (O : oracle) (E : env) (d : doc) (ups : list upstream),
  load_resolved O E d = Ok ups <-> Forall2 (resolved_as O E) (routes (e_cluster E) d) ups.
Proof. exact load_resolved_iff. Qed.
Print Assumptions C14_load_characterisation.

(* An upstream open to everyone never results from omission. *)
Theorem C14_no_open_by_omission : forall (O : oracle) (E : env) (d : doc) (ups : list upstream) (u : upstream),
  set_upstream_configs O E d = Ok ups -> In u ups ->
  (u_groups u <> [] \/ u_domains u <> [] \/ u_addresses u <> []) /\
  exists u0, In u0 (routes (e_cluster E) (subst_doc (e_tvars E) d)) /\
    let own := rc_options (u0_route u0) in let D := e_defaults E in
    inherits emp_list (ofield o_groups own) (o_groups D) (u_groups u) /\
    inherits emp_list (ofield o_domains own) (o_domains D) (u_domains u) /\
    inherits emp_list (ofield o_addresses own) (o_addresses D) (u_addresses u).
Proof. exact no_open_by_omission. Qed.
Print Assumptions C14_no_open_by_omission.

(* The option fields the next theorems quantify over: all fourteen scalar/list fields of
   OptionsConfig are "fields" (mergo treats them by [mg]), the two header maps are map fields. *)
Theorem C14_option_fields :
  is_field emp_list o_skip_auth_regex /\ is_field emp_list o_groups /\ is_field emp_list o_domains /\
  is_field emp_list o_addresses /\ is_field emp_bool o_tls_skip /\ is_field emp_bool o_skip_preflight /\
  is_field emp_bool o_pass_token /\ is_field emp_bool o_preserve_host /\ is_field emp_Z o_timeout /\
  is_field emp_Z o_reset_deadline /\ is_field emp_Z o_flush_interval /\ is_field emp_bool o_skip_signing /\
  is_field emp_list o_provider_slug /\ is_field emp_list o_cookie_name /\
  is_mfield o_header_overrides /\ is_mfield o_inject_headers.
Proof. exact option_fields_all. Qed.
Print Assumptions C14_option_fields.

(* An extra route's resolved options equal its parent's except for the fields it states:
   for every option field, every parent, every extra route and every deployment default,
   the effective value is the route's own if stated (non-empty), else the parent's effective one. *)
Theorem C14_extra_route_inherits : forall (A : Type) (emp : A -> bool) (f : opts -> A), is_field emp f ->
  forall (D : opts) (parent : upstream0) (e : routecfg),
  inherits emp (ofield f (rc_options e)) (f (effective_opts D (u0_route parent)))
           (f (effective_opts D (u0_route (resolve_extra parent e)))).
Proof. exact @f_extra. Qed.
Print Assumptions C14_extra_route_inherits.

(* ... header maps key by key (keys of a YAML map are distinct; defaults carry no maps) ... *)
Theorem C14_extra_route_inherits_headers : forall (f : opts -> smap), is_mfield f ->
  forall (D : opts) (parent : upstream0) (e : routecfg), f D = [] ->
  NoDup (keys (ofield f (rc_options e))) -> NoDup (keys (ofield f (rc_options (u0_route parent)))) ->
  inherits_map (ofield f (rc_options e)) (f (effective_opts D (u0_route parent)))
               (f (effective_opts D (u0_route (resolve_extra parent e)))).
Proof. exact m_extra. Qed.
Print Assumptions C14_extra_route_inherits_headers.

(* ... and service / from / to / type. *)
Theorem C14_extra_route_inherits_route : forall (parent : upstream0) (e : routecfg),
  let r := resolve_extra parent e in
  u0_service r = u0_service parent /\ u0_extra r = [] /\
  inherits emp_list (rc_from e) (rc_from (u0_route parent)) (rc_from (u0_route r)) /\
  inherits emp_list (rc_to e) (rc_to (u0_route parent)) (rc_to (u0_route r)) /\
  inherits emp_list (rc_type e) (rc_type (u0_route parent)) (rc_type (u0_route r)).
Proof. exact extra_route_scalars. Qed.
Print Assumptions C14_extra_route_inherits_route.

(* "A cluster block changes only the settings it states", for every option field: FALSE of the
   faithful model (known finding C14-K1: mergo replaces the default block's *OptionsConfig
   pointer by the cluster block's, wholesale) ...

   [full statement, NOT provable:]  C14_cluster_field_by_field :
     forall A emp (f : opts -> A), is_field emp f -> forall d c,
     inherits emp (ofield f (rc_options c)) (ofield f (rc_options d))
              (ofield f (rc_options (merge_route true d c))).                                  *)
Theorem C14_cluster_field_by_field_refuted :
  ~ (forall (A : Type) (emp : A -> bool) (f : opts -> A), is_field emp f ->
     forall d c : routecfg,
       inherits emp (ofield f (rc_options c)) (ofield f (rc_options d))
                (ofield f (rc_options (merge_route true d c)))).
Proof. exact cluster_field_by_field_refuted. Qed.
Print Assumptions C14_cluster_field_by_field_refuted.

(* ... with the end-to-end witness of DESIGN §6: default {allowed_groups: [g1],
   skip_auth_regex: [^/a$]}, cluster {options: {timeout: 5s}} loads successfully with NO
   group rule and NO skip list; the deployment default domain is the only rule left. *)
Theorem C14_cluster_drops_default_options_refuted :
  ofield o_groups (rc_options w_default) = [s_ "g1"] /\
  ofield o_groups (rc_options w_cluster) = [] /\ ofield o_skip_auth_regex (rc_options w_cluster) = [] /\
  exists u, set_upstream_configs all_ok w_env w_doc = Ok [u] /\
            u_groups u = [] /\ u_skip u = [] /\ u_domains u = [s_ "env.example.com"] /\ u_addresses u = [] /\
            u_timeout u = zs 5.
Proof. exact cluster_drops_default_options. Qed.
Print Assumptions C14_cluster_drops_default_options_refuted.

(* The strongest true statements. (1) Block level: a cluster block WITHOUT an `options:` key
   leaves every default-block option in force; WITH one, every field it restates takes effect;
   from / to / type are always field-by-field. *)
Theorem C14_cluster_partial : forall (A : Type) (emp : A -> bool) (f : opts -> A), is_field emp f ->
  forall d c : routecfg,
  (rc_options c = None -> ofield f (rc_options (merge_route true d c)) = ofield f (rc_options d)) /\
  (forall co, rc_options c = Some co -> ofield f (rc_options (merge_route true d c)) = f co) /\
  inherits emp_list (rc_from c) (rc_from d) (rc_from (merge_route true d c)) /\
  inherits emp_list (rc_to c) (rc_to d) (rc_to (merge_route true d c)) /\
  inherits emp_list (rc_type c) (rc_type d) (rc_type (merge_route true d c)).
Proof. exact cluster_partial. Qed.
Print Assumptions C14_cluster_partial.

(* (2) End to end: for every document in which no selected service carries `options:` in both
   its default and its cluster block, every field of every resolved upstream is the FIRST
   STATED value along  extra route > cluster block > default block > deployment default
   (the monitor's [matches]/[spec_expected], header maps key by key). *)
Theorem C14_field_by_field_partial : forall (O : oracle) (E : env) (d : doc) (ups : list upstream),
  doc_wf (subst_doc (e_tvars E) d) = true -> env_wf E = true ->
  forallb (fun t => negb (sel_d6 t)) (spec_selected (e_cluster E) (subst_doc (e_tvars E) d)) = true ->
  set_upstream_configs O E d = Ok ups ->
  forall2b (matches (e_tvars E)) (spec_expected O E (subst_doc (e_tvars E) d)) ups = true.
Proof. exact field_by_field_d6_free. Qed.
Print Assumptions C14_field_by_field_partial.

(* Templates, at STRING level (strings.Replace on the raw text): for a text whose braces occur
   only as {{name}} with brace-free names, and variables whose names and values contain no
   brace, substitution is independent of the iteration order of the variable map, equals the
   token-level substitution, and leaves no {{k}} for a defined k anywhere. *)
Theorem C14_templates : forall (tv tv' : smap) (ts : list token),
  tv_ok tv -> NoDup (keys tv) -> Permutation tv tv' -> Forall tok_ok ts ->
  subst_all tv' (render ts) = subst_all tv (render ts) /\
  subst_all tv (render ts) = render (tsubst tv ts) /\
  forall k, In k (keys tv) -> ~ occurs (placeholder k) (subst_all tv (render ts)).
Proof. exact templates. Qed.
Print Assumptions C14_templates.

(* The guard on the TEXT is necessary: with a placeholder nested in braces the result depends
   on the map's iteration order and a defined {{ab}} can survive. *)
Theorem C14_templates_unguarded_refuted :
  exists (tv tv' : smap) (text : str),
    Permutation tv tv' /\ NoDup (keys tv) /\ tv_ok tv /\
    subst_all tv text <> subst_all tv' text /\
    occurs (placeholder (s_ "ab")) (subst_all tv' text).
Proof. exact templates_unguarded_order_dependent. Qed.
Print Assumptions C14_templates_unguarded_refuted.

(* Non-vacuity: the documented example of docs/sso_config.md resolves as the docs describe. *)
Theorem C14_docs_example :
  (exists u, set_upstream_configs all_ok (docs_env (s_ "sso")) docs_doc = Ok [u] /\
    u_service u = s_ "example_service" /\
    u_from u = s_ "example-service.sso.sso.example.com" /\ u_to u = s_ "example-service.sso.example.com" /\
    u_kind u = 0 /\ u_route u = [lit_http; s_ "example-service.sso.sso.example.com"; lit_http; s_ "example-service.sso.example.com"] /\
    u_groups u = o_groups docs_opts /\ u_skip u = o_skip_auth_regex docs_opts /\
    u_header_overrides u = o_header_overrides docs_opts /\ u_inject_headers u = o_inject_headers docs_opts /\
    u_domains u = [s_ "env.example.com"] /\ u_timeout u = zs 10) /\
  (exists u, set_upstream_configs all_ok (docs_env (s_ "prod")) docs_doc = Ok [u] /\
    u_from u = s_ "example-service.example.com" /\ u_to u = s_ "example-service.prod.example.com" /\
    u_groups u = o_groups docs_opts /\ u_skip u = o_skip_auth_regex docs_opts /\
    u_header_overrides u = o_header_overrides docs_opts).
Proof. exact (conj docs_example_default_cluster docs_example_prod_cluster). Qed.
Print Assumptions C14_docs_example.

(* The monitor used on the implementation's observations accepts the model's own prediction
   for every input respecting the harness guards: 0, or 101 = known finding 1 — and always 0
   when no selected service carries `options:` in both blocks. *)
Theorem C14_monitor_accepts_model : forall (E : env) (T : tables) (d : doc),
  doc_wf (subst_doc (e_tvars E) d) = true -> env_wf E = true ->
  let c := CLoad E T d (to_obs (set_upstream_configs (oracle_of T) E d)) in
  (judge c = 0 \/ judge c = 101) /\
  (forallb (fun t => negb (sel_d6 t)) (spec_selected (e_cluster E) (subst_doc (e_tvars E) d)) = true -> judge c = 0).
Proof. exact judge_load_model. Qed.
Print Assumptions C14_monitor_accepts_model.

Theorem C14_monitor_accepts_model_templates : forall (tv : smap) (toks : list token),
  judge (CTmpl tv toks (subst_all tv (render toks))) = 0.
Proof. exact judge_tmpl_model. Qed.
Print Assumptions C14_monitor_accepts_model_templates.

(* The validators proxy.New builds from a resolved upstream (C11's model of proxy.New and the login
   callback on the upstream's own rule lists), asked with any identities: the monitor's
   documented any-of rule accepts them — so an upstream admits an identity only through one of
   ITS OWN resolved rules, whatever other upstreams the deployment contains and in whatever order. *)
Theorem C14_monitor_accepts_model_validators : forall (ids : list (str * list str)) (pols : list Validators.policy),
  judge (CAdmit ids pols (admit_rows ids pols)) = 0.
Proof. exact judge_admit_model. Qed.
Print Assumptions C14_monitor_accepts_model_validators.

Theorem C14_witness_is_known_finding :
  judge (CLoad w_env w_tables w_doc (to_obs (set_upstream_configs (oracle_of w_tables) w_env w_doc))) = 101.
Proof. exact witness_judged_known. Qed.
Print Assumptions C14_witness_is_known_finding.
