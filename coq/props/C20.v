(* C20 — Pages rendered by sso treat request-controlled text as inert; JSON error bodies are
   well-formed for any message. Statements only; each is closed by [exact <lemma>]. *)
From V Require Import Base Html Html_proofs Gen_Templates Html_pages_proofs Json Json_proofs
                      CorrBase Corr_C20 Corr_C20_proofs.
Open Scope N_scope.

(* Both template files build their pages with html/template (read from the import clause of the
   Go source on every run). *)
Theorem C20_uses_html_template :
  proxy_template_import = s_html_template /\ auth_template_import = s_html_template.
Proof. exact templates_use_html_template. Qed.
Print Assumptions C20_uses_html_template.

(* By computation on the template AST regenerated from the Go source: in every template of both
   services, every placeholder — through every branch, loop body and {{template}} call — sits in
   a text node, a double-quoted value/title/alt/placeholder attribute or RCDATA, and the template
   returns to the data state. Moving a field into a script, style, URL, event-handler, unquoted or
   single-quoted attribute, tag or comment makes this fail. *)
Theorem C20_contexts_safe :
  forallb (fun t => page_safe proxy_templates (fst t)) proxy_templates = true /\
  forallb (fun t => page_safe auth_templates (fst t)) auth_templates = true.
Proof. exact contexts_safe. Qed.
Print Assumptions C20_contexts_safe.

(* The text escaper, for EVERY byte string: the output contains none of less-than, greater-than,
   double quote, apostrophe, NUL; every ampersand in it begins one of the six references the
   escaper emits; and decoding those references gives the input back (NUL shown as U+FFFD). *)
Theorem C20_text_inert : forall s,
  (forall c, In c (html_escape s) -> c <> 0 /\ c <> 34 /\ c <> 39 /\ c <> 60 /\ c <> 62) /\
  amp_ok (html_escape s) = true /\
  html_unescape (html_escape s) = nul_to_fffd s.
Proof.
  exact (fun s => conj (html_replace_chars s) (conj (html_replace_amp_ok s) (html_unescape_replace s))).
Qed.
Print Assumptions C20_text_inert.

(* The same for the quoted-attribute and RCDATA escapers. *)
Theorem C20_attr_inert : forall s,
  (forall c, In c (attr_escape s) -> c <> 0 /\ c <> 34 /\ c <> 39 /\ c <> 60 /\ c <> 62) /\
  amp_ok (attr_escape s) = true /\
  html_unescape (attr_escape s) = nul_to_fffd s /\
  rcdata_escape s = attr_escape s.
Proof.
  exact (fun s => conj (html_replace_chars s) (conj (html_replace_amp_ok s)
                   (conj (html_unescape_replace s) eq_refl))).
Qed.
Print Assumptions C20_attr_inert.

(* Text without a less-than sign cannot open a tag; a double-quoted attribute value without a
   double quote cannot end the attribute; RCDATA without a less-than sign cannot close its element:
   the tokenizer neither moves nor emits a structural event. *)
Theorem C20_inert_text_cannot_open_tag : forall s, ~ In 60 s -> run SData s = (SData, []).
Proof. exact inert_data. Qed.
Print Assumptions C20_inert_text_cannot_open_tag.

Theorem C20_inert_value_cannot_end_attribute : forall cl n a s,
  ~ In 34 s -> run (SValDq cl n a) s = (SValDq cl n a, []).
Proof. exact inert_dq. Qed.
Print Assumptions C20_inert_value_cannot_end_attribute.

Theorem C20_escaped_value_is_inert_in_safe_contexts : forall st v,
  safe_state st = true -> run st (html_replace v) = (st, []).
Proof. exact safe_state_inert. Qed.
Print Assumptions C20_escaped_value_is_inert_in_safe_contexts.

(* The walker's verdict on the AST covers every execution: whatever the data (any strings, any
   list lengths, any branch taken), every hole of the expanded page is met in a safe state. *)
Theorem C20_walker_sound : forall tpls name,
  page_safe tpls name = true ->
  forall data ps, expand_page tpls name data = Some ps -> flat_walk SData ps = Some SData.
Proof. exact page_safe_sound. Qed.
Print Assumptions C20_walker_sound.

(* Skeleton invariance: for a safe page, any two renderings that took the same control path —
   whatever strings the holes carry — tokenise to the same sequence of tags, attribute names and
   value delimiters, and the page ends in the data state. *)
Theorem C20_skeleton_invariant : forall tpls name,
  page_safe tpls name = true ->
  forall d1 d2 p1 p2,
    expand_page tpls name d1 = Some p1 -> expand_page tpls name d2 = Some p2 ->
    same_shape p1 p2 = true ->
    skeleton (render_pieces p1) = skeleton (render_pieces p2) /\ final_state (render_pieces p1) = SData.
Proof. exact skeleton_invariant. Qed.
Print Assumptions C20_skeleton_invariant.

(* The four pages sso serves, on the regenerated AST: for EVERY assignment of strings to the
   request-controlled fields (proxy/auth error page: Title, Message; sign-in: Redirect, Destination,
   ProviderName; sign-out: Redirect, Signature, Timestamp, Destination, Email) and any values of
   the other fields, the page has the structure of the benign rendering: no element, attribute,
   script or link can appear. *)
Theorem C20_served_pages_inert :
  inert_for proxy_templates n_error F_error /\ inert_for auth_templates n_error F_error /\
  inert_for auth_templates n_sign_in F_sign_in /\ inert_for auth_templates n_sign_out F_sign_out.
Proof. exact served_pages_inert. Qed.
Print Assumptions C20_served_pages_inert.

(* encoding/json's string encoder with HTML escaping, for EVERY byte string (invalid UTF-8,
   quotes, backslashes, control bytes, U+2028/9 included): the output is one JSON string (RFC 8259
   grammar, well-formed UTF-8), and both error bodies are one object {"error": <string or {}>}. *)
Theorem C20_json_wellformed : forall s, json_string_ok (json_string s) = true.
Proof. exact json_string_ok_encode. Qed.
Print Assumptions C20_json_wellformed.

Theorem C20_json_error_bodies : forall msg,
  json_error_doc_ok (auth_error_json msg) = true /\ json_error_doc_ok (proxy_xhr_json msg) = true.
Proof. exact (fun msg => conj (auth_error_json_ok msg) (proxy_xhr_json_ok msg)). Qed.
Print Assumptions C20_json_error_bodies.

(* Every JSON body: the general recogniser (one RFC 8259 value, well-formed UTF-8, nothing after it)
   accepts both error bodies for EVERY message. *)
Theorem C20_json_documents : forall msg,
  json_doc_ok (auth_error_json msg) = true /\ json_doc_ok (proxy_xhr_json msg) = true.
Proof. exact (fun msg => conj (json_doc_ok_auth msg) (json_doc_ok_proxy msg)). Qed.
Print Assumptions C20_json_documents.

(* The note net/http writes with every redirect of sso: whatever the URL, it is one anchor with one
   href attribute and ends in the data state -- request text in a redirect target adds nothing. *)
Theorem C20_redirect_note_inert : forall text, ~ In 60 text ->
  forall u1 u2, skeleton (redirect_note u1 text) = skeleton (redirect_note u2 text) /\
                final_state (redirect_note u1 text) = SData.
Proof. exact redirect_note_inert. Qed.
Print Assumptions C20_redirect_note_inert.

Theorem C20_redirect_monitor_accepts_model :
  (forall svc site text url url0 segs, ~ In 60 text ->
     rebuild (redirect_note url text) segs = redirect_note url0 text ->
     judge (CNote svc site text ct_html (redirect_note url text) segs) = 0) /\
  (forall svc site text ct, judge (CNote svc site text ct [] []) = 0).
Proof. exact (conj judge_note_model judge_note_empty). Qed.
Print Assumptions C20_redirect_monitor_accepts_model.

(* The correspondence monitors accept the model's own prediction for every input; a further
   (Accept, X-Requested-With) combination is accepted when the handler serves the same page as
   HTML or the model's JSON body as JSON; and a non-empty body served under an HTML type is
   accepted only with the benign skeleton (an empty body carries nothing). *)
Theorem C20_monitors_accept_model :
  (forall svc page field ctx payload, judge (CHole svc page field ctx payload (html_replace payload)) = 0) /\
  (forall svc msg, judge (CJson svc msg ct_json (if svc =? 0 then proxy_xhr_json msg else auth_error_json msg) []) = 0) /\
  (forall svc site real segs, rebuild real segs = real -> final_state real = SData ->
     judge (CSame svc site ct_html real segs []) = 0) /\
  (forall svc name F d d0 real segs via,
     page_safe (tpls_of svc) name = true -> output_only (tpls_of svc) name F = true -> rec_agree F d d0 ->
     render_page (tpls_of svc) name d = Some real -> render_page (tpls_of svc) name d0 = Some (rebuild real segs) ->
     judge (CPage svc name d ct_html real segs via []) = 0) /\
  (forall real benign, page_inert real benign = true ->
     var_mismatch real [] (Var 0 ct_html None None) = false /\ var_holds real benign (Var 0 ct_html None None) = true) /\
  (forall svc data real benign,
     var_mismatch real (model_json svc data) (Var 1 ct_json (Some [SLit (model_json svc data)]) None) = false /\
     var_holds real benign (Var 1 ct_json (Some [SLit (model_json svc data)]) None) = true) /\
  (forall body benign, body <> [] -> resp_inert ct_html body benign = true -> skeleton body = skeleton benign).
Proof.
  exact (conj judge_hole_model (conj judge_json_model (conj judge_same_model (conj judge_page_model
        (conj var_same_page_ok (conj var_json_ok resp_inert_html_needs_skeleton)))))).
Qed.
Print Assumptions C20_monitors_accept_model.
