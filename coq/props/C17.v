(* C17 — Group caches only repeat what the directory said, for the same question.
   Statements only; each is closed by [exact <lemma>].  [run w_init evs = (w, log)] ranges over
   EVERY event list: every interleaving of Update / RefreshLoop / Get / Stop callers, membership
   questions through the Google, Cognito and GroupCache code paths, directory answers (Ok / NotFound /
   error), LocalCache purges and purge timers.  [log] pairs each event with its output and the world
   right after it; [w_dir] of that world is everything the directory had said up to that moment. *)
From Coq Require Import Permutation.
From V Require Import Base Caches Caches_proofs CorrBase Corr_C17 Corr_C17_proofs.

(* Provenance: whenever an answer containing group g is returned for user u, the directory has, by
   then, given a fill answer for g whose member set contains u, or a direct answer for u containing
   g - never only another user's or another group's answer.
   Guard: a GroupCache question carries the user's own access token (the /profile handler takes
   both from the same sealed session); [C17_provenance_needs_token_guard] shows it is needed. *)
Theorem C17_provenance : forall evs w log,
  Forall token_consistent evs -> run w_init evs = (w, log) ->
  forall e r d st w1 u, In (e, OAns (Some r) d st, w1) log -> answer_about e = Some u ->
  forall g, In g r -> justified (w_dir w1) u g.
Proof. exact provenance. Qed.
Print Assumptions C17_provenance.

(* A member set handed out by FillCache.Get is literally a set the directory gave for that group. *)
Theorem C17_get_provenance : forall evs w log g ms w1,
  run w_init evs = (w, log) -> In (Get g, OGet (Some ms), w1) log -> In (DFill g (FOk ms)) (w_dir w1).
Proof. exact get_provenance. Qed.
Print Assumptions C17_get_provenance.

Theorem C17_provenance_needs_token_guard :
  exists evs w log e r d st w1 u g,
    run w_init evs = (w, log) /\ In (e, OAns (Some r) d st, w1) log /\ answer_about e = Some u /\
    In g r /\ ~ justified (w_dir w1) u g.
Proof. exact provenance_needs_token_guard. Qed.
Print Assumptions C17_provenance_needs_token_guard.

(* Key soundness: a GroupCache hit for (u, gs) returns the answer that an EARLIER miss for the same
   user u and a question gs' with the same key obtained from the directory ... *)
Theorem C17_key_sound_same_key : forall evs w log pre u tu gs a r st w1 post,
  run w_init evs = (w, log) ->
  log = pre ++ (GCAsk u tu gs a, OAns (Some r) false st, w1) :: post ->
  exists tu' gs' w0, In (GCAsk u tu' gs' (DOk r), OAns (Some r) true [], w0) pre /\
                     gc_key u gs' = gc_key u gs.
Proof. exact key_sound. Qed.
Print Assumptions C17_key_sound_same_key.

(* ... and gs' is a permutation of gs.  Guard: no ',' inside a group name and the question is not
   the single empty name (what strings.Split of the /profile parameter can produce). *)
Theorem C17_key_sound : forall evs w log pre u tu gs a r st w1 post,
  Forall asks_ok evs ->
  run w_init evs = (w, log) ->
  log = pre ++ (GCAsk u tu gs a, OAns (Some r) false st, w1) :: post ->
  exists tu' gs' w0, In (GCAsk u tu' gs' (DOk r), OAns (Some r) true [], w0) pre /\ Permutation gs' gs.
Proof. exact key_sound_perm. Qed.
Print Assumptions C17_key_sound.

(* without the guard the clause is false: ["a,b"] and ["a";"b"] share a key, so do [] and [""] *)
Theorem C17_key_sound_unguarded_refuted :
  exists evs w log pre u tu gs a r st w1 post,
    run w_init evs = (w, log) /\
    log = pre ++ (GCAsk u tu gs a, OAns (Some r) false st, w1) :: post /\
    forall tu' gs' w0, In (GCAsk u tu' gs' (DOk r), OAns (Some r) true [], w0) pre -> ~ Permutation gs' gs.
Proof. exact key_sound_unguarded_refuted. Qed.
Print Assumptions C17_key_sound_unguarded_refuted.

Theorem C17_key_collisions :
  (gc_key leak_u [kc_ab] = gc_key leak_u [kc_a; kc_b] /\ ~ Permutation [kc_ab] [kc_a; kc_b]) /\
  (gc_key leak_u [] = gc_key leak_u [[]] /\ ~ Permutation (@nil str) [[]]).
Proof. exact (conj key_collision_comma key_collision_empty). Qed.
Print Assumptions C17_key_collisions.

(* "in any order": the key does not depend on the order of the question (no guard), so after a
   miss that obtained an answer the same user's permuted question hits and repeats that answer. *)
Theorem C17_key_order_insensitive : forall u gs gs', Permutation gs gs' -> gc_key u gs = gc_key u gs'.
Proof. exact gc_key_order_insensitive. Qed.
Print Assumptions C17_key_order_insensitive.

Theorem C17_permuted_question_hits : forall w u tu gs r w1 tu' gs' a',
  step w (GCAsk u tu gs (DOk r)) = (w1, OAns (Some r) true []) -> Permutation gs gs' ->
  step w1 (GCAsk u tu' gs' a') = (w1, OAns (Some r) false []).
Proof. exact permuted_question_hits. Qed.
Print Assumptions C17_permuted_question_hits.

(* Update semantics, as a refinement: after any schedule the member-set map equals the abstract map
   computed from the accepted UpdateEnd events alone (Ok replaces, NotFound drops, Err keeps) ... *)
Theorem C17_update_semantics : forall evs w log,
  run w_init evs = (w, log) -> forall g, lookup g (fc_cache (w_fc w)) = latest g log.
Proof. exact update_semantics. Qed.
Print Assumptions C17_update_semantics.

(* ... i.e. cache g = ms exactly when the log ends "... UpdateEnd g (Ok ms) ... " with no later
   accepted Ok / NotFound end for g (failed refreshes in between keep the list). *)
Theorem C17_update_semantics_latest : forall evs w log g ms,
  run w_init evs = (w, log) ->
  (lookup g (fc_cache (w_fc w)) = Some ms <->
   exists pre t b w1 post, log = pre ++ (UpdateEnd t g (FOk ms), OBool b, w1) :: post /\
                           Forall (fun x => ~ effective g x) post).
Proof. exact update_semantics_char. Qed.
Print Assumptions C17_update_semantics_latest.

Theorem C17_update_end_step : forall w t g a w1 o,
  step w (UpdateEnd t g a) = (w1, o) -> o <> ORefused ->
  o = OBool (is_ok a) /\
  w_dir w1 = DFill g a :: w_dir w /\
  lookup g (fc_cache (w_fc w1)) =
    match a with FOk ms => Some ms | FNotFound => None | FErr => lookup g (fc_cache (w_fc w)) end /\
  forall g', g' <> g -> lookup g' (fc_cache (w_fc w1)) = lookup g' (fc_cache (w_fc w)).
Proof. exact update_end_step. Qed.
Print Assumptions C17_update_end_step.

(* Partly cached questions fall back to asking the directory, in the same call, in every state. *)
Theorem C17_partial_falls_back_google : forall w u gs a,
  (exists g, In g gs /\ uncached w g) ->
  exists w1 st, step w (GoogleAsk u gs a) =
                (w1, OAns (match a with DOk r => Some r | DErr => None end) true st) /\
                w_dir w1 = DDirect u gs a :: w_dir w.
Proof. exact google_partial_falls_back. Qed.
Print Assumptions C17_partial_falls_back_google.

Theorem C17_partial_falls_back_cognito : forall w u gs a,
  u <> [] -> (exists g, In g gs /\ uncached w g) ->
  exists w1 st r, step w (CognitoAsk (Some u) gs a) = (w1, OAns r true st) /\
                  w_dir w1 = DDirect u gs a :: w_dir w /\
                  (a = DErr -> r = None) /\
                  (forall gr, a = DOk gr -> exists m, r = Some (m ++ filter (fun g => mem_str g gr) gs)).
Proof. exact cognito_partial_falls_back. Qed.
Print Assumptions C17_partial_falls_back_cognito.

Theorem C17_cached_answered_from_sets : forall w u gs a,
  gs <> [] -> (forall g, In g gs -> ~ uncached w g) ->
  exists w1 st, step w (GoogleAsk u gs a) =
     (w1, OAns (Some (filter (fun g => match lookup g (fc_cache (w_fc w)) with
                                        | Some ms => mem_str u ms | None => false end) gs)) false st) /\
     w_dir w1 = w_dir w.
Proof. exact google_cached_no_directory. Qed.
Print Assumptions C17_cached_answered_from_sets.

(* Single fill: under every interleaving at most one thread is inside the fill function of a group;
   in every prefix of every log, fills of g begun minus fills of g ended is 0 or 1. *)
Theorem C17_single_fill : forall evs w log g,
  run w_init evs = (w, log) ->
  (length (fillers_of g (fc_fillers (w_fc w))) <= 1)%nat /\
  (count_begins g log = count_ends g log + length (fillers_of g (fc_fillers (w_fc w))))%nat.
Proof. exact single_fill. Qed.
Print Assumptions C17_single_fill.

Theorem C17_single_fill_trace : forall evs w log pre post g,
  run w_init evs = (w, log) -> log = pre ++ post ->
  (count_ends g pre <= count_begins g pre <= count_ends g pre + 1)%nat.
Proof. exact single_fill_trace. Qed.
Print Assumptions C17_single_fill_trace.

Theorem C17_single_fill_threads : forall evs w log g t1 t2,
  run w_init evs = (w, log) ->
  In (t1, g) (fc_fillers (w_fc w)) -> In (t2, g) (fc_fillers (w_fc w)) -> t1 = t2.
Proof. exact single_fill_threads. Qed.
Print Assumptions C17_single_fill_threads.

Theorem C17_concurrent_update_refused : forall w t g,
  busy t (fc_fillers (w_fc w)) = false -> mem_str g (fc_inflight (w_fc w)) = true ->
  step w (UpdateBegin t g) = (w, OBool false).
Proof. exact concurrent_update_refused. Qed.
Print Assumptions C17_concurrent_update_refused.

(* Single loop: at most one refresh-loop goroutine per group is alive, exactly when the group is
   registered; RefreshLoop answers "started" only when none was alive; a loop ends only after Stop. *)
Theorem C17_single_loop : forall evs w log g,
  run w_init evs = (w, log) ->
  (count_str g (fc_loopthreads (w_fc w)) <= 1)%nat /\
  (count_str g (fc_loopthreads (w_fc w)) = 1%nat <-> mem_str g (fc_loops (w_fc w)) = true).
Proof. exact single_loop. Qed.
Print Assumptions C17_single_loop.

(* trace form, the one the storm monitor applies: in every prefix of every log, loops started (by
   RefreshLoop directly or from inside a Google / Cognito question) minus loops exited is 0 or 1 per
   group - however many callers race; before the first exit at most one call answers "started". *)
Theorem C17_single_loop_trace : forall evs w log pre post g,
  run w_init evs = (w, log) -> log = pre ++ post ->
  (count_exits g pre <= count_starts g pre <= count_exits g pre + 1)%nat.
Proof. exact single_loop_trace. Qed.
Print Assumptions C17_single_loop_trace.

Theorem C17_one_start_before_exit : forall evs w log g,
  run w_init evs = (w, log) -> count_exits g log = 0%nat -> (count_starts g log <= 1)%nat.
Proof. exact one_start_before_exit. Qed.
Print Assumptions C17_one_start_before_exit.

Theorem C17_loop_start_fresh : forall evs w log pre g w1 post,
  run w_init evs = (w, log) -> log = pre ++ (LoopStart g, OBool true, w1) :: post ->
  exists w0, run w_init (map (fun x => fst (fst x)) pre) = (w0, pre) /\
             count_str g (fc_loopthreads (w_fc w0)) = 0%nat /\
             count_str g (fc_loopthreads (w_fc w1)) = 1%nat.
Proof. exact loop_start_fresh. Qed.
Print Assumptions C17_loop_start_fresh.

Theorem C17_loop_exit_needs_stop : forall w g w1,
  step w (LoopExit g) = (w1, OUnit) -> fc_stopped (w_fc w) = true.
Proof. exact loop_exit_needs_stop. Qed.
Print Assumptions C17_loop_exit_needs_stop.

(* Non-vacuity: a schedule with two users, permuted group lists, a failed refresh, a not-found, a
   refused concurrent Update, a refused second loop, a partly cached question; it satisfies both guards. *)
Theorem C17_nonvacuous :
  (Forall token_consistent nv_evs /\ Forall asks_ok nv_evs) /\
  outputs nv_evs =
  [ OAns (Some [nv_g1]) true [nv_g1]; OBool true; OBool false; OBool false; OBool true;
    OAns (Some [nv_g1]) false []; OAns (Some []) false []; OAns (Some [nv_g1]) true [nv_g2];
    OBool true; OBool false; OGet (Some [nv_alice]);
    OBool true; OBool false; OGet None;
    OAns (Some [nv_g1]) true []; OAns (Some [nv_g1]) false []; OAns (Some []) true [];
    OUnit; OUnit ].
Proof. exact (conj nv_guards nv_outputs). Qed.
Print Assumptions C17_nonvacuous.

(* The monitor that judges the real code's observations (Corr_C17.holds: provenance, key soundness,
   update semantics, fall-back, single fill, single loop - stated on observations only) accepts the
   model's own behaviour on every schedule, and the model never disagrees with itself. *)
Theorem C17_monitor_accepts_model : forall kind groups evs,
  judge (Case kind groups false (predict evs) []) = 0.
Proof. exact judge_model_zero. Qed.
Print Assumptions C17_monitor_accepts_model.
