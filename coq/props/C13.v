(* C13 — Requests are handled under the policy, provider, cookie binding and backend of the
   upstream their Host names. Statements only; each is closed by [exact <lemma>].
   re_match / re_replace (Go's regexp) and lower (strings.ToLower) are universally quantified
   oracles; [fixed] selects newProvider as it is today (false) or repaired (true); [dflt] is the
   deployment-default provider slug. *)
From V Require Import Base Validators Hostmux Hostmux_proofs CorrBase Corr_C13 Corr_C13_proofs.

(* Routing, for every configuration list (in the order proxy.New registers it) and every Host:
   the exact static match wins — the LAST configured for that host; else the FIRST rewrite route,
   in configuration order, whose pattern matches; else the default route, which answers 421 with
   no backend call, no cookie and no login; and exactly these three cases exist. *)
Theorem C13_route : forall (re_match : str -> str -> bool) (re_replace : str -> str -> str -> str)
    (lower : str -> str) (fixed : bool) (dflt : str) (cfg : list upstream) (h : str),
  (forall l1 u l2, cfg = l1 ++ u :: l2 -> is_simple_for h u = true ->
     (forall u', In u' l2 -> is_simple_for h u' = false) -> route_of re_match cfg h = RUp u) /\
  ((forall u', In u' cfg -> is_simple_for h u' = false) ->
     forall l1 u l2, cfg = l1 ++ u :: l2 -> is_rw_match re_match h u = true ->
     (forall u', In u' l1 -> is_rw_match re_match h u' = false) -> route_of re_match cfg h = RUp u) /\
  ((forall u', In u' cfg -> is_simple_for h u' = false /\ is_rw_match re_match h u' = false) ->
     route_of re_match cfg h = RDefault) /\
  (route_of re_match cfg h = RDefault ->
     (forall q, q_host q = h -> q_path q <> ping_path ->
        handle re_match re_replace lower fixed dflt cfg q = plain KMisdirected CkNone None) /\
     (forall l, l_host l = h ->
        callback re_match lower fixed dflt cfg l = (plain KMisdirected CkNone None, None))) /\
  ((exists l1 u l2, cfg = l1 ++ u :: l2 /\ is_simple_for h u = true /\
                    forall u', In u' l2 -> is_simple_for h u' = false) \/
   ((forall u', In u' cfg -> is_simple_for h u' = false) /\
    exists l1 u l2, cfg = l1 ++ u :: l2 /\ is_rw_match re_match h u = true /\
                    forall u', In u' l1 -> is_rw_match re_match h u' = false) \/
   (forall u', In u' cfg -> is_simple_for h u' = false /\ is_rw_match re_match h u' = false)).
Proof.
  intros re_match re_replace lower fixed dflt cfg h.
  split; [exact (route_static_last re_match cfg h)|].
  split; [exact (fun Hs l1 u l2 => route_rewrite_first re_match cfg h l1 u l2 Hs)|].
  split; [exact (route_default re_match cfg h)|].
  split; [|exact (route_cases re_match cfg h)].
  intros Hr. split.
  - intros q Hq. subst h. exact (unrouted_421 re_match re_replace lower fixed dflt cfg q Hr).
  - intros l Hl. subst h. exact (unrouted_login re_match lower fixed dflt cfg l Hr).
Qed.
Print Assumptions C13_route.

(* Whenever any configured simple route names the Host exactly, a simple route for that Host
   handles it, whatever rewrite patterns also match and wherever they stand in the file. *)
Theorem C13_static_precedence : forall (re_match : str -> str -> bool) cfg h,
  (exists u0, In u0 cfg /\ is_simple_for h u0 = true) ->
  exists u, route_of re_match cfg h = RUp u /\ is_simple_for h u = true /\ In u cfg.
Proof. exact static_precedence. Qed.
Print Assumptions C13_static_precedence.

(* The routed upstream is always one of the configured ones and matches the Host. *)
Theorem C13_route_sound : forall (re_match : str -> str -> bool) cfg h u,
  route_of re_match cfg h = RUp u ->
  In u cfg /\ (is_simple_for h u = true \/
               ((forall u', In u' cfg -> is_simple_for h u' = false) /\ is_rw_match re_match h u = true)).
Proof. exact route_up_sound. Qed.
Print Assumptions C13_route_sound.

(* Configuration order as loadServiceConfigs resolves it: services in order, then the extra
   routes; hence a service's own matching rewrite route is preferred to every extra route. *)
Theorem C13_config_order : forall (re_match : str -> str -> bool) svcs,
  resolve svcs = map sv_up svcs ++ flat_map (fun s => map (with_route (sv_up s)) (sv_extra s)) svcs /\
  forall h s, In s svcs -> is_rw_match re_match h (sv_up s) = true ->
    (forall u, In u (resolve svcs) -> is_simple_for h u = false) ->
    exists s', In s' svcs /\ route_of re_match (resolve svcs) h = RUp (sv_up s').
Proof. intros re_match svcs. split; [exact (resolve_order svcs) | exact (main_before_extra re_match svcs)]. Qed.
Print Assumptions C13_config_order.

(* The backend dialled is the routed upstream's: `to` for a simple route, the substitution of
   the match into `to` for a rewrite route; and no backend is dialled unless the request is
   forwarded. *)
Theorem C13_backend : forall (re_match : str -> str -> bool) (re_replace : str -> str -> str -> str)
    (lower : str -> str) (fixed : bool) (dflt : str) cfg q,
  (forall u, route_of re_match cfg (q_host q) = RUp u ->
     r_kind (handle re_match re_replace lower fixed dflt cfg q) = KForward ->
     let t := match u_route u with
              | Simple _ to => url_host to
              | Rewrite from to => url_host (re_replace from (q_host q) to)
              end in
     r_target (handle re_match re_replace lower fixed dflt cfg q) = Some t /\
     r_fwd_host (handle re_match re_replace lower fixed dflt cfg q) = Some (if u_preserve u then preserved_host (q_host q) t else t)) /\
  (r_kind (handle re_match re_replace lower fixed dflt cfg q) <> KForward ->
     r_target (handle re_match re_replace lower fixed dflt cfg q) = None).
Proof.
  intros re_match re_replace lower fixed dflt cfg q. split.
  - intros u. exact (backend_of_upstream re_match re_replace lower fixed dflt cfg q u).
  - exact (no_backend_unless_forward re_match re_replace lower fixed dflt cfg q).
Qed.
Print Assumptions C13_backend.

(* The skip-auth list, the validators and the cookie binding applied to a request are those of
   the routed upstream: a session is accepted exactly when it is bound to this very Host, carries
   the slug of the routed upstream's provider and passes the routed upstream's validators. *)
Theorem C13_policy_of_upstream : forall (re_match : str -> str -> bool) (re_replace : str -> str -> str -> str)
    (lower : str -> str) (fixed : bool) (dflt : str) cfg q u,
  route_of re_match cfg (q_host q) = RUp u -> q_path q <> ping_path ->
  let r := handle re_match re_replace lower fixed dflt cfg q in
  (existsb (fun p => re_match p (q_path q)) (u_skip u) = true ->
     r_kind r = KForward /\ r_user r = None /\ r_cookie r = CkNone) /\
  (existsb (fun p => re_match p (q_path q)) (u_skip u) = false ->
     (forall e, (r_kind r = KForward /\ r_user r = Some e) <->
        exists s, q_cookie q = Some s /\ s_slug s = provider_slug fixed dflt u /\ s_upstream s = q_host q /\
                  request_gate lower (u_policy u) (s_email s) = true /\ e = s_email s) /\
     (r_kind r = KForbidden <->
        exists s, q_cookie q = Some s /\ s_slug s = provider_slug fixed dflt u /\ s_upstream s = q_host q /\
                  request_gate lower (u_policy u) (s_email s) = false) /\
     (r_kind r = KForward \/ r_kind r = KForbidden \/
      (r_kind r = KSignIn /\ r_slug r = Some (provider_slug fixed dflt u))) /\
     (r_kind r <> KForward -> r_target r = None /\ r_cookie r = CkCleared)).
Proof. exact policy_of_upstream. Qed.
Print Assumptions C13_policy_of_upstream.

(* The login callback on a Host applies the routed upstream's login gate and binds the issued
   session to THAT Host and to the routed upstream's provider — wherever the sign-in was opened
   (l_start): a session is issued exactly when the opening request was answered by a sign-in
   redirect (so a flow record exists) and the callback host's upstream admits the user. *)
Theorem C13_login_of_upstream : forall (re_match : str -> str -> bool) (re_replace : str -> str -> str -> str)
    (lower : str -> str) (fixed : bool) (dflt : str) cfg l u,
  route_of re_match cfg (l_host l) = RUp u ->
  (flow_started re_match cfg l = true <->
     r_kind (handle re_match re_replace lower fixed dflt cfg (start_request l)) = KSignIn) /\
  (forall s, snd (callback re_match lower fixed dflt cfg l) = Some s <->
     flow_started re_match cfg l = true /\
     login_admit lower (u_policy u) (l_email l) (l_groups l) = true /\
     s = {| s_slug := provider_slug fixed dflt u; s_upstream := l_host l; s_email := l_email l |}) /\
  (forall s, snd (callback re_match lower fixed dflt cfg l) = Some s ->
     r_cookie (fst (callback re_match lower fixed dflt cfg l)) = CkSet s) /\
  (snd (callback re_match lower fixed dflt cfg l) = None ->
     r_cookie (fst (callback re_match lower fixed dflt cfg l)) = CkNone) /\
  r_slug (fst (callback re_match lower fixed dflt cfg l)) = Some (provider_slug fixed dflt u).
Proof.
  intros re_match re_replace lower fixed dflt cfg l u Hr.
  split; [exact (flow_started_spec re_match re_replace lower fixed dflt cfg l)|].
  exact (login_of_upstream re_match lower fixed dflt cfg l u Hr).
Qed.
Print Assumptions C13_login_of_upstream.

(* A sign-in opened on one host and closed by a callback on another yields a session that is
   accepted on no host other than the callback's — in particular not on the host it was opened on,
   whose upstream never judged the user. *)
Theorem C13_cross_host_flow : forall (re_match : str -> str -> bool) (re_replace : str -> str -> str -> str)
    (lower : str -> str) (fixed : bool) (dflt : str) cfg l s q,
  snd (callback re_match lower fixed dflt cfg l) = Some s -> q_cookie q = Some s -> q_host q <> l_host l ->
  accepted (handle re_match re_replace lower fixed dflt cfg q) = false.
Proof. exact cross_host_flow. Qed.
Print Assumptions C13_cross_host_flow.

Theorem C13_cross_host_flow_nonvacuous :
  let '(st, tr) := run ex_match ex_replace lower_ascii true google ex_cfg init
      [ELogin ex_cross;
       ERequest {| q_host := h_y; q_path := page; q_cookie := Some ex_sess |};
       ERequest {| q_host := h_x; q_path := page; q_cookie := Some ex_sess |}] in
  flow_started ex_match ex_cfg ex_cross = true /\
  route_of ex_match ex_cfg h_x <> route_of ex_match ex_cfg h_y /\
  logins st = [Some (h_y, ex_sess)] /\
  map (fun er => accepted (snd er)) tr = [false; true; false].
Proof. exact ex_cross_host_nonvacuous. Qed.
Print Assumptions C13_cross_host_flow_nonvacuous.

(* Isolation, over ALL histories of logins and requests on any hosts in any order: a session
   issued by a callback on host h1 is never accepted on a request whose Host differs from h1 —
   whatever routes the two hosts match (the same rewrite route included) and whichever cookie
   the client chooses to present (a shared cookie domain included). *)
Theorem C13_isolation : forall (re_match : str -> str -> bool) (re_replace : str -> str -> str -> str)
    (lower : str -> str) (fixed : bool) (dflt : str) cfg evs st' tr,
  run re_match re_replace lower fixed dflt cfg init evs = (st', tr) ->
  forall q resp, In (ERequest q, resp) tr ->
  forall s h1, q_cookie q = Some s -> In (Some (h1, s)) (logins st') -> h1 <> q_host q ->
  accepted resp = false.
Proof. exact isolation. Qed.
Print Assumptions C13_isolation.

(* ... and a session issued under one provider is never accepted by an upstream whose provider
   object carries another slug. *)
Theorem C13_provider_isolation : forall (re_match : str -> str -> bool) (re_replace : str -> str -> str -> str)
    (lower : str -> str) (fixed : bool) (dflt : str) cfg evs st' tr,
  run re_match re_replace lower fixed dflt cfg init evs = (st', tr) ->
  forall q resp, In (ERequest q, resp) tr ->
  forall s h1 u1 u2, q_cookie q = Some s -> In (Some (h1, s)) (logins st') ->
  route_of re_match cfg h1 = RUp u1 -> route_of re_match cfg (q_host q) = RUp u2 ->
  provider_slug fixed dflt u1 <> provider_slug fixed dflt u2 -> accepted resp = false.
Proof. exact provider_isolation. Qed.
Print Assumptions C13_provider_isolation.

(* Non-vacuity: one static and two overlapping rewrite routes; a session IS accepted on its own
   host and refused on another host matching the same rewrite route. *)
Theorem C13_nonvacuous :
  route_of ex_match ex_cfg h_x = RUp (mk (Simple h_x b1) []) /\
  route_of ex_match ex_cfg h_y = RUp (mk (Rewrite pat_rw b0) []) /\
  route_of ex_match ex_cfg h_none = RDefault /\
  (let '(st, tr) := run ex_match ex_replace lower_ascii true google ex_cfg init ex_hist in
   logins st = [Some (h_y, ex_sess)] /\
   map (fun er => accepted (snd er)) tr = [false; true; false] /\
   route_of ex_match ex_cfg h_y = route_of ex_match ex_cfg h_z).
Proof. exact (conj ex_static_wins (conj ex_first_rewrite (conj ex_default ex_isolation_nonvacuous))). Qed.
Print Assumptions C13_nonvacuous.

(* The provider is the routed upstream's own: sign-in redirect, per-request slug check and the
   slug stamped by the callback are the upstream's provider_slug when it sets one, else the
   default. TRUE of the repaired variant ... *)
Theorem C13_provider_of_upstream : forall (re_match : str -> str -> bool) (re_replace : str -> str -> str -> str)
    (lower : str -> str) (dflt : str) cfg u,
  (forall q, route_of re_match cfg (q_host q) = RUp u -> q_path q <> ping_path ->
     let r := handle re_match re_replace lower true dflt cfg q in
     (r_kind r = KSignIn -> r_slug r = Some (own_slug dflt u)) /\
     (forall s, q_cookie q = Some s -> accepted r = true -> s_slug s = own_slug dflt u)) /\
  (forall l, route_of re_match cfg (l_host l) = RUp u ->
     let '(r, os) := callback re_match lower true dflt cfg l in
     r_slug r = Some (own_slug dflt u) /\ forall s, os = Some s -> s_slug s = own_slug dflt u).
Proof. exact provider_of_upstream_fixed. Qed.
Print Assumptions C13_provider_of_upstream.

(* ... and FALSE of the code as it is today (known finding C13-K1): an upstream configured with
   provider_slug okta is sent to /google/sign_in, and a session of the default provider is
   accepted on it. *)
Theorem C13_provider_of_upstream_refuted :
  exists cfg u q,
    route_of ex_match cfg (q_host q) = RUp u /\ q_path q <> ping_path /\ u_slug u = okta /\
    let r := handle ex_match ex_replace lower_ascii false google cfg q in
    r_kind r = KSignIn /\ r_slug r = Some google /\ r_slug r <> Some (own_slug google u).
Proof. exact provider_of_upstream_refuted. Qed.
Print Assumptions C13_provider_of_upstream_refuted.

Theorem C13_provider_check_refuted :
  exists cfg u q s,
    route_of ex_match cfg (q_host q) = RUp u /\ q_cookie q = Some s /\
    accepted (handle ex_match ex_replace lower_ascii false google cfg q) = true /\
    s_slug s <> own_slug google u.
Proof. exact provider_check_refuted. Qed.
Print Assumptions C13_provider_check_refuted.

(* Strongest true statement for today's code: the clause holds for every upstream that does
   not choose a provider other than the deployment default. *)
Theorem C13_provider_of_upstream_today_partial : forall (re_match : str -> str -> bool)
    (re_replace : str -> str -> str -> str) (lower : str -> str) (dflt : str) cfg u,
  own_slug dflt u = dflt ->
  (forall q, route_of re_match cfg (q_host q) = RUp u -> q_path q <> ping_path ->
     let r := handle re_match re_replace lower false dflt cfg q in
     (r_kind r = KSignIn -> r_slug r = Some (own_slug dflt u)) /\
     (forall s, q_cookie q = Some s -> accepted r = true -> s_slug s = own_slug dflt u)) /\
  (forall l, route_of re_match cfg (l_host l) = RUp u ->
     let '(r, os) := callback re_match lower false dflt cfg l in
     r_slug r = Some (own_slug dflt u) /\ forall s, os = Some s -> s_slug s = own_slug dflt u).
Proof. exact provider_of_upstream_today_partial. Qed.
Print Assumptions C13_provider_of_upstream_today_partial.

(* Tie to the correspondence: the monitor the check applies to the real proxy's observations
   (routing by search in the configuration list, the routed upstream's policy / provider /
   backend, isolation on observed cookies) accepts every history on which the implementation
   behaves as the model; what the correspondence executes is a run of the history machine. *)
Theorem C13_monitor_is_the_model : forall (re_match : str -> str -> bool) (re_replace : str -> str -> str -> str)
    (lower : str -> str) (dflt : str) (fixed : bool) bs cfg xs st,
  bound st ->
  map obs_of xs = map (project bs) (xrun re_match re_replace lower dflt fixed cfg st xs) ->
  monitor re_match re_replace lower (provider_slug fixed dflt) bs cfg (logins st) xs = true.
Proof. exact monitor_accepts_model. Qed.
Print Assumptions C13_monitor_is_the_model.

Theorem C13_spec_is_the_model : forall (re_match : str -> str -> bool) (re_replace : str -> str -> str -> str)
    (lower : str -> str) (dflt : str) (fixed : bool) cfg,
  (forall h, route_of re_match cfg h = match spec_route re_match cfg h with Some u => RUp u | None => RDefault end) /\
  (forall q, spec_request re_match re_replace lower (provider_slug fixed dflt) cfg q =
             handle re_match re_replace lower fixed dflt cfg q) /\
  (forall l, spec_login re_match lower (provider_slug fixed dflt) cfg l =
             fst (callback re_match lower fixed dflt cfg l)) /\
  (forall xs st, exists evs, length evs = length xs /\
     map snd (snd (run re_match re_replace lower fixed dflt cfg st evs)) =
     xrun re_match re_replace lower dflt fixed cfg st xs).
Proof.
  intros re_match re_replace lower dflt fixed cfg.
  split; [exact (spec_route_model re_match cfg)|].
  split; [exact (spec_request_model re_match re_replace lower dflt fixed cfg)|].
  split; [exact (spec_login_model re_match lower dflt fixed cfg)|].
  exact (xrun_is_run re_match re_replace lower dflt fixed cfg).
Qed.
Print Assumptions C13_spec_is_the_model.
