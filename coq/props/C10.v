(* C10 — A login yields a session only for an e-mail the identity provider vouches for.
   This file contains only statements; each is closed by [exact <lemma>].
   Model: theories/IdToken.v ([len_check] = false is today's emailFromIDToken, true the repaired one;
   which of the two the correspondence check compares the real code with is the one-line switch
   [Corr_C10.today_len_check]).  The JSON decoder, the payload decoder and the HTTP transport are
   explicit oracles: every theorem holds for EVERY oracle function and every answer. *)
From V Require Import Base IdToken IdToken_proofs IdToken_b64_proofs CorrBase Corr_C10 Corr_C10_proofs.

(* Soundness: if Redeem returns a session then the code was non-empty, the token endpoint answered
   200 with a JSON object carrying the session's tokens, the session's e-mail is non-empty and is
   - Google: the "email" of the JSON object that segment 1 of the id_token decodes to
     (base64url after '='-padding), and that object says email_verified = true;
   - Okta: the "email" of the userinfo answer (200, JSON), which says email_verified = true;
   - Cognito: the "email" of the userinfo answer (200, JSON).
   For both values of len_check. *)
Theorem C10_session_email : forall lc prov oracle code tok ui s,
  redeem lc prov oracle code tok ui = Session s ->
  code <> [] /\ s_email s <> [] /\
  exists tf, tok = Resp 200 (Json tf) /\
    as_string (f_access tf) = Some (s_access s) /\ as_string (f_refresh tf) = Some (s_refresh s) /\
    match prov with
    | Google =>
        exists idt seg bytes pf,
          as_string (f_idtoken tf) = Some idt /\
          nth_error (split_on dot idt) 1 = Some seg /\
          b64url_decode (pad4 seg) = Some bytes /\
          oracle bytes = Json pf /\
          f_email pf = JStr (s_email s) /\ f_verified pf = JBool true
    | Okta =>
        exists uf, ui = Resp 200 (Json uf) /\ f_email uf = JStr (s_email s) /\ f_verified uf = JBool true
    | Cognito =>
        exists uf, ui = Resp 200 (Json uf) /\ f_email uf = JStr (s_email s)
    end.
Proof. exact redeem_session_email. Qed.
Print Assumptions C10_session_email.

(* ... and exactly those logins yield a session (no vouched login is turned away, nothing else
   gets in): [tok_good], [vouched_by] are defined in IdToken_proofs.v. *)
Theorem C10_session_iff : forall lc prov oracle code tok ui s,
  redeem lc prov oracle code tok ui = Session s <->
  code <> [] /\
  exists idt, tok_good tok (s_access s) (s_refresh s) (s_expires_in s) idt /\
              vouched_by prov oracle ui (s_access s) idt (s_email s).
Proof. exact redeem_session_iff. Qed.
Print Assumptions C10_session_iff.

(* Every unusable answer — empty code; transport failure, any status other than 200, a body that
   is not a JSON object, a field of the wrong type (token endpoint; userinfo endpoint); Google:
   segment 1 present but not base64url, or decoding to something that is not a JSON object, or
   with an ill-typed / missing / empty e-mail, or with email_verified ill-typed / missing / false;
   Okta, Cognito: empty or unsendable access token, empty e-mail, (Okta) unverified e-mail — is an
   Error, and the callback then answers an error page (400 / 403 / 500) and sets no session
   cookie, whatever the other request parameters and the later gates are. [bad_login] is that
   disjunction, spelled out in IdToken_proofs.v. For both values of len_check. *)
Theorem C10_error_no_session : forall lc prov oracle code tok ui,
  bad_login prov oracle code tok ui ->
  (exists e, redeem lc prov oracle code tok ui = Error e) /\
  forall errp later, exists st,
    oauth_callback lc prov oracle errp code tok ui later = CbErrorPage st /\
    (st = 400 \/ st = 403 \/ st = 500) /\
    session_cookie (oauth_callback lc prov oracle errp code tok ui later) = None.
Proof. exact error_no_session. Qed.
Print Assumptions C10_error_no_session.

(* The callback sets a session cookie only for a session Redeem returned, with that e-mail,
   and only when no error parameter came in and every later gate passed. *)
Theorem C10_cookie_only_for_session : forall lc prov oracle errp code tok ui later e,
  session_cookie (oauth_callback lc prov oracle errp code tok ui later) = Some e ->
  errp = false /\ later = None /\ e <> [] /\
  exists s, redeem lc prov oracle code tok ui = Session s /\ s_email s = e.
Proof. exact callback_cookie. Qed.
Print Assumptions C10_cookie_only_for_session.

(* The three cases are exhaustive: every login is vouched for, or unusable in one of the listed
   ways, or a Google answer whose id_token holds no '.' (the only input class left over). *)
Theorem C10_cases_complete : forall prov oracle code tok ui,
  (code <> [] /\ exists a r x i e, tok_good tok a r x i /\ vouched_by prov oracle ui a i e) \/
  bad_login prov oracle code tok ui \/
  (prov = Google /\ code <> [] /\ exists a r x i, tok_good tok a r x i /\ ~ In dot i).
Proof. exact login_cases. Qed.
Print Assumptions C10_cases_complete.

(* Never a crash of the request — with the length check (len_check = true). *)
Theorem C10_no_panic : forall prov oracle errp code tok ui later,
  redeem true prov oracle code tok ui <> Panic /\
  oauth_callback true prov oracle errp code tok ui later <> CbDropped.
Proof. exact no_panic_fixed. Qed.
Print Assumptions C10_no_panic.

(* ... and the left-over class is then an error like the others. *)
Theorem C10_short_token_is_error_after_fix : forall oracle code tok ui a r x i,
  code <> [] -> tok_good tok a r x i -> ~ In dot i ->
  redeem true Google oracle code tok ui = Error EOther.
Proof. exact redeem_short_token_error. Qed.
Print Assumptions C10_short_token_is_error_after_fix.

(* FALSE of today's code (len_check = false; known finding C10-K1): a 200 token answer
   {"access_token":"at"} without id_token makes emailFromIDToken index jwt[1] of a one-element
   slice; the handler panics and net/http drops the connection. *)
Theorem C10_no_panic_refuted :
  exists prov oracle code tok ui,
    redeem false prov oracle code tok ui = Panic /\
    oauth_callback false prov oracle false code tok ui None = CbDropped.
Proof. exact no_panic_refuted. Qed.
Print Assumptions C10_no_panic_refuted.

(* The strongest true statement about today's code: it crashes in exactly that class, nowhere else. *)
Theorem C10_no_panic_partial : forall lc prov oracle code tok ui,
  redeem lc prov oracle code tok ui = Panic <->
  lc = false /\ prov = Google /\ code <> [] /\
  exists a r x i, tok_good tok a r x i /\ ~ In dot i.
Proof. exact redeem_panic_iff. Qed.
Print Assumptions C10_no_panic_partial.

(* The monitor that Corr_C10.judge applies to the implementation's observations accepts the model's
   own prediction on every input: always for the repaired model, and for today's model except on
   the signature of C10-K1 (where it answers 101 = known finding 1). *)
Theorem C10_monitor_accepts_model : forall lc tag prov cd tok ui tab errp later,
  later_ok later = true -> oracle_miss tab tok = false ->
  judge_lc lc (model_case lc tag prov cd tok ui tab errp later) = 0 \/
  (judge_lc lc (model_case lc tag prov cd tok ui tab errp later) = 101 /\ lc = false /\ k1_signature prov cd tok = true).
Proof. exact judge_accepts_model. Qed.
Print Assumptions C10_monitor_accepts_model.

(* The model's base64 decoder (after Go's Encoding.Decode for base64.URLEncoding) is not an opaque
   predicate: the RFC 4648 URL-safe encoding of ANY byte string, padded or unpadded (as JWTs are;
   jwtDecodeSegment then pads it), decodes to that byte string. *)
Theorem C10_segment_decodes_what_was_encoded : forall pad b,
  is_bytes b -> jwt_decode_segment (b64url_encode pad b) = Some b.
Proof. exact jwt_decode_segment_encode. Qed.
Print Assumptions C10_segment_decodes_what_was_encoded.

(* Liveness for well-formed tokens: header '.' base64url(payload) '.' signature, with a payload the
   JSON decoder reads as a non-empty e-mail and email_verified = true, is accepted with exactly
   that e-mail, whatever header (without '.') and signature are. *)
Theorem C10_wellformed_token_accepted : forall lc oracle pad header payload sig email uf,
  ~ In dot header -> is_bytes payload ->
  oracle payload = Json uf -> f_email uf = JStr email -> email <> [] -> f_verified uf = JBool true ->
  email_from_id_token lc oracle (header ++ dot :: b64url_encode pad payload ++ dot :: sig) = EOk email.
Proof. exact google_accepts_wellformed. Qed.
Print Assumptions C10_wellformed_token_accepted.
