(* C15 — Circuit breaker follows its three-state machine under every interleaving.
   Statements only; each is closed by [exact <lemma>].

   Vocabulary (coq/theories/Breaker.v, after /repo/internal/auth/circuit/breaker.go):
   [exec trip reset backoff hom evs] is the state after the arbitrary event list [evs] (call starts,
   completions of the i-th call in flight with success/failure, clock advances), starting from
   NewBreaker's state; [step] is one critical section and returns the new state and what it showed
   (verdict, whether f ran, every call to a hook or rule, in order); [trace] collects these.
   All statements hold for EVERY trip/reset/back-off rule and every HalfOpenConcurrentRequests. *)
From V Require Import Base Breaker Breaker_proofs CorrBase Corr_C15 Corr_C15_proofs.
From V Require Import BreakerClient BreakerClient_proofs Corr_C15Client Corr_C15Client_proofs.
From Coq Require Import Permutation.
Open Scope Z_scope.

(* While closed, every call is let through: admitted under the current generation, f runs, no hook. *)
Theorem C15_closed_admits : forall trip reset backoff hom evs,
  let b := exec trip reset backoff hom evs in
  st b = Closed ->
  step trip reset backoff hom b Start = (let_through b, mkobs (Some true) true []).
Proof. exact closed_admits_exec. Qed.
Print Assumptions C15_closed_admits.

(* Closed -> open happens exactly at a failed completion of a current-generation call after which
   the trip rule holds on the counters; the counters are then cleared, the deadline is
   now + backoff(cleared counters), the generation advances, and the hooks fire in this order.
   Any other event leaves the breaker closed in the same generation. *)
Theorem C15_trip_iff : forall trip reset backoff hom evs e,
  let b := exec trip reset backoff hom evs in
  let b' := step_st trip reset backoff hom b e in
  let c1 := mkcounts (cur (cnt b) - 1) 0 (fail (cnt b) + 1) in
  let c0 := mkcounts (cur (cnt b) - 1) 0 0 in
  st b = Closed ->
  (st b' = Open <->
     exists i, e = Finish i false /\ nth_error (inflight b) i = Some (gen b) /\ trip c1 = true) /\
  (st b' = Open ->
     gen b' = S (gen b) /\ cnt b' = c0 /\ expires b' = now b + backoff c0 /\ now b' = now b /\
     o_hooks (snd (step trip reset backoff hom b e)) =
       [HRule RTrip c1; HState Closed Open; HRule RBackoff c0; HBackoff (backoff c0) (now b + backoff c0)]) /\
  (st b' <> Open -> st b' = Closed /\ gen b' = gen b /\ expires b' = expires b /\
     ~ In (HState Closed Open) (o_hooks (snd (step trip reset backoff hom b e)))).
Proof. exact trip_iff_exec. Qed.
Print Assumptions C15_trip_iff.

(* While open, and for ANY further events during which the clock does not pass the deadline
   (now <= expires: time.Time.After is strict), the breaker stays open in the same generation with
   the same deadline and counters, every start is rejected without running f, no hook or rule is
   called — and the next start is rejected too, changing nothing at all. *)
Theorem C15_open_rejects_until : forall trip reset backoff hom evs evs',
  let b := exec trip reset backoff hom evs in
  let b' := exec trip reset backoff hom (evs ++ evs') in
  st b = Open -> Forall tick_nonneg evs' -> now b + ticks evs' <= expires b ->
  st b' = Open /\ gen b' = gen b /\ expires b' = expires b /\ succ (cnt b') = succ (cnt b) /\
  fail (cnt b') = fail (cnt b) /\ Forall quiet_reject (trace_from trip reset backoff hom b evs') /\
  step trip reset backoff hom b' Start = (b', mkobs (Some false) false []).
Proof. exact open_rejects_until_exec. Qed.
Print Assumptions C15_open_rejects_until.

(* Once the deadline has strictly passed, the next start announces half-open (new generation) and
   is admitted iff fewer than the configured number of calls are in flight. *)
Theorem C15_open_expires : forall trip reset backoff hom evs,
  let b := exec trip reset backoff hom evs in
  st b = Open -> expires b < now b ->
  let '(b', o) := step trip reset backoff hom b Start in
  st b' = HalfOpen /\ gen b' = S (gen b) /\ o_hooks o = [HState Open HalfOpen] /\
  (o_adm o = Some true <-> cur (cnt b) < half_open_max hom) /\
  o_ran o = match o_adm o with Some a => a | None => false end.
Proof. exact open_expired_exec. Qed.
Print Assumptions C15_open_expires.

(* Half-open never has more than the configured number of calls of its own generation in flight
   (the configured number is the option when positive, else 1). A start is admitted iff the total
   number in flight — calls still in flight from before the trip count too, hence "at most" — is
   below it; a rejected start runs nothing and changes nothing. *)
Theorem C15_halfopen_cap : forall trip reset backoff hom evs,
  let b := exec trip reset backoff hom evs in
  st b = HalfOpen ->
  Z.of_nat (count_gen (gen b) (inflight b)) <= half_open_max hom /\
  1 <= half_open_max hom /\ (0 < hom -> half_open_max hom = hom) /\
  let '(b', o) := step trip reset backoff hom b Start in
  o_hooks o = [] /\ st b' = HalfOpen /\ gen b' = gen b /\
  (o_adm o = Some true <-> cur (cnt b) < half_open_max hom) /\
  (o_adm o = Some false <-> half_open_max hom <= cur (cnt b)) /\
  (o_adm o = Some true -> o_ran o = true /\ b' = let_through b) /\
  (o_adm o = Some false -> o_ran o = false /\ b' = b).
Proof. exact halfopen_cap_exec. Qed.
Print Assumptions C15_halfopen_cap.

(* Half-open -> closed happens exactly at a successful completion of a current-generation call
   after which the reset rule holds; counters are cleared and the generation advances. *)
Theorem C15_reset_iff : forall trip reset backoff hom evs e,
  let b := exec trip reset backoff hom evs in
  let b' := step_st trip reset backoff hom b e in
  let cs := mkcounts (cur (cnt b) - 1) (succ (cnt b) + 1) 0 in
  st b = HalfOpen ->
  (st b' = Closed <->
     exists i, e = Finish i true /\ nth_error (inflight b) i = Some (gen b) /\ reset cs = true) /\
  (st b' = Closed -> gen b' = S (gen b) /\ cnt b' = mkcounts (cur (cnt b) - 1) 0 0 /\
     o_hooks (snd (step trip reset backoff hom b e)) = [HRule RReset cs; HState HalfOpen Closed]).
Proof. exact reset_iff_exec. Qed.
Print Assumptions C15_reset_iff.

(* Half-open -> open happens exactly at a failed completion of a current-generation call — ANY
   such failure — with a new back-off now + backoff(counters); otherwise it stays half-open in
   the same generation with the same deadline and announces no state change. *)
Theorem C15_reopen_on_failure : forall trip reset backoff hom evs e,
  let b := exec trip reset backoff hom evs in
  let b' := step_st trip reset backoff hom b e in
  let cf := mkcounts (cur (cnt b) - 1) 0 (fail (cnt b) + 1) in
  st b = HalfOpen ->
  (st b' = Open <-> exists i, e = Finish i false /\ nth_error (inflight b) i = Some (gen b)) /\
  (st b' = Open -> gen b' = S (gen b) /\ cnt b' = cf /\ expires b' = now b + backoff cf /\ now b' = now b /\
     o_hooks (snd (step trip reset backoff hom b e)) =
       [HState HalfOpen Open; HRule RBackoff cf; HBackoff (backoff cf) (now b + backoff cf)]) /\
  (st b' = HalfOpen -> gen b' = gen b /\ expires b' = expires b /\
     forall p t, ~ In (HState p t) (o_hooks (snd (step trip reset backoff hom b e)))).
Proof. exact reopen_exec. Qed.
Print Assumptions C15_reopen_on_failure.

(* A completion whose admission generation differs from the generation in force after the
   implicit clock step — in a reachable state: any call admitted before the most recent state
   change — changes nothing but the in-flight count, whatever its outcome: the result is the
   clock-stepped state with one call fewer in flight, and only the clock step's hook is seen. *)
Theorem C15_stale_ignored : forall trip reset backoff hom evs i g,
  let b := exec trip reset backoff hom evs in
  nth_error (inflight b) i = Some g ->
  (g <> gen (clock_step b) <-> (g < gen (clock_step b))%nat) /\
  ((g < gen b)%nat -> g <> gen (clock_step b)) /\
  (g <> gen (clock_step b) -> forall ok,
     step trip reset backoff hom b (Finish i ok) =
       (after_stale b i, mkobs None false (snd (current_state b)))).
Proof. exact stale_ignored_exec. Qed.
Print Assumptions C15_stale_ignored.

(* CurrentRequests is exactly the number of calls in flight, hence never negative. *)
Theorem C15_cur_nonneg : forall trip reset backoff hom evs,
  let b := exec trip reset backoff hom evs in
  cur (cnt b) = Z.of_nat (length (inflight b)) /\ 0 <= cur (cnt b) /\
  0 <= succ (cnt b) /\ 0 <= fail (cnt b).
Proof. exact cur_nonneg_exec. Qed.
Print Assumptions C15_cur_nonneg.

(* The generation counts the OnStateChange calls; those calls form a path of the documented
   diagram from closed to the current state; no call in flight is younger than the generation and
   while open all are older — so the StateOpen arm of onFailure (breaker.go:285-286) is dead. *)
Theorem C15_gen_counts_changes : forall trip reset backoff hom evs,
  let b := exec trip reset backoff hom evs in
  gen b = length (filter is_state_hook (all_hooks (trace trip reset backoff hom evs))) /\
  walk Closed (all_hooks (trace trip reset backoff hom evs)) = Some (st b) /\
  Forall (fun g => (g <= gen b)%nat) (inflight b) /\
  (st b = Open -> Forall (fun g => (g < gen b)%nat) (inflight b)) /\
  (forall i g, st (clock_step b) = Open -> nth_error (inflight b) i = Some g -> g <> gen (clock_step b)).
Proof. exact gen_counts_changes_exec. Qed.
Print Assumptions C15_gen_counts_changes.

(* The property as the check applies it to the implementation (Corr_C15.holds: a checker of
   observed traces that re-derives state, epochs, in-flight calls, consecutive counters and
   deadline from observations only) accepts the model's trace of every interleaving. *)
Theorem C15_monitor_accepts_model : forall p evs,
  holds p evs (model_trace p evs) (length (inflight (model_final p evs))) = true.
Proof. exact monitor_accepts_model. Qed.
Print Assumptions C15_monitor_accepts_model.

Theorem C15_agreeing_case_is_fine : forall c : Corr_C15.case,
  list_eqb obs_eqb (model_trace (c_par c) (c_evs c)) (c_obs c) = true ->
  Nat.eqb (length (inflight (model_final (c_par c) (c_evs c)))) (c_blocked c) = true ->
  Corr_C15.judge c = 0%N.
Proof. exact judge_agree_is_fine. Qed.
Print Assumptions C15_agreeing_case_is_fine.

(* ================================================================================================
   The breaker IN FRONT OF the directory API: its client, internal/auth/providers/google_admin.go.
   [sexec ... dir evs] is the state after an arbitrary interleaving [evs] of operations
   (ListMemberships / CheckMemberships beginning, the directory answering the i-th outstanding
   request, clock advances) against ONE breaker and an arbitrary scripted directory [dir] (answers may
   depend on the request and on how many requests arrived before); [strace] is what each step showed:
   the report to the breaker (so_fin), the Call made (so_start), the request the directory received
   (so_req), the operation that returned (so_done). For every rule, option, page budget and script.
   ================================================================================================ *)

(* The client's breaker only ever goes through breaker steps, so every theorem above applies to it;
   the outstanding directory requests are exactly the breaker's calls in flight. *)
Theorem C15_client_breaker_is_the_breaker : forall trip reset backoff hom F dir evs,
  let s := sexec trip reset backoff hom F dir evs in
  (exists bevs, br s = exec trip reset backoff hom bevs) /\
  map p_gen (pend s) = inflight (br s) /\
  cur (cnt (br s)) = Z.of_nat (length (pend s)).
Proof. exact client_breaker_reachable. Qed.
Print Assumptions C15_client_breaker_is_the_breaker.

(* Every request the directory receives was admitted by the breaker in that very step (one Call,
   one request, next arrival index); a rejected Call sends nothing and ends the whole listing /
   check with the breaker's error; without a Call nothing is sent. *)
Theorem C15_client_request_iff_admitted : forall trip reset backoff hom F dir evs e,
  let s := sexec trip reset backoff hom F dir evs in
  let o := snd (sstep trip reset backoff hom F dir s e) in
  let s' := sstep_st trip reset backoff hom F dir s e in
  (forall opid n q, so_req o = Some (opid, n, q) ->
     n = nreq s /\ nreq s' = S (nreq s) /\
     exists ob, so_start o = Some ob /\ o_adm ob = Some true /\ o_ran ob = true) /\
  (forall ob, so_start o = Some ob -> o_adm ob = Some true ->
     exists opid q, so_req o = Some (opid, nreq s, q) /\ so_done o = None) /\
  (forall ob, so_start o = Some ob -> o_adm ob <> Some true ->
     o_adm ob = Some false /\ o_ran ob = false /\ so_req o = None /\ nreq s' = nreq s /\
     exists opid, so_done o = Some (opid, RErr EOpen)) /\
  (so_start o = None -> so_req o = None /\ nreq s' = nreq s).
Proof. exact client_request_iff_admitted. Qed.
Print Assumptions C15_client_request_iff_admitted.

(* Over a whole run: the directory received exactly requests 0..nreq-1; each is either still
   outstanding or was reported to the breaker EXACTLY ONCE, as success iff the answer the directory
   gave to that very request was a success (ans_ok: any googleapi error, 404 included, and any
   undecodable body is a failure); and Calls = requests + rejections. *)
Theorem C15_client_every_outcome_reported_once : forall trip reset backoff hom F dir evs,
  let s := sexec trip reset backoff hom F dir evs in
  let os := strace trip reset backoff hom F dir evs in
  map req_idx (reqs_of os) = seq 0 (nreq s) /\
  Permutation (seq 0 (nreq s)) (map fin_idx (fins_of os) ++ map p_idx (pend s)) /\
  Forall (fun x => exists q, In (fst (fst (fst x)), fin_idx x, q) (reqs_of os) /\
                             snd (fst x) = ans_ok (dir (fin_idx x) q)) (fins_of os) /\
  length (starts_of os) = (length (reqs_of os) + length (filter was_rejected (starts_of os)))%nat.
Proof. exact client_accounting. Qed.
Print Assumptions C15_client_every_outcome_reported_once.

(* Composition with C15_open_rejects_until: while the breaker is open and the deadline has not
   strictly passed, whatever operations begin or resume, the directory receives NOTHING; every
   Call made is rejected silently. *)
Theorem C15_client_open_sends_nothing : forall trip reset backoff hom F dir evs evs',
  let s := sexec trip reset backoff hom F dir evs in
  let s' := sexec trip reset backoff hom F dir (evs ++ evs') in
  st (br s) = Open -> Forall stick_nonneg evs' -> now (br s) + sticks evs' <= expires (br s) ->
  st (br s') = Open /\ gen (br s') = gen (br s) /\ expires (br s') = expires (br s) /\ nreq s' = nreq s /\
  reqs_of (strace_from trip reset backoff hom F dir s evs') = [] /\
  Forall (fun ob => o_adm ob = Some false /\ o_hooks ob = []) (starts_of (strace_from trip reset backoff hom F dir s evs')).
Proof. exact client_open_sends_nothing. Qed.
Print Assumptions C15_client_open_sends_nothing.

(* Composition with C15_halfopen_cap: in half-open at most the configured number of outstanding
   directory requests were admitted in the current generation — follow-up pages count. *)
Theorem C15_client_halfopen_cap : forall trip reset backoff hom F dir evs,
  let s := sexec trip reset backoff hom F dir evs in
  st (br s) = HalfOpen ->
  Z.of_nat (count_gen (gen (br s)) (map p_gen (pend s))) <= half_open_max hom.
Proof. exact client_halfopen_cap. Qed.
Print Assumptions C15_client_halfopen_cap.

(* Every Call of both operations answers a rejection with the breaker's error and never invents
   that error otherwise; error mapping of the first request of a listing and of a check. *)
Theorem C15_client_rejection_is_breaker_error : forall F o, rej_open (prog_of F o).
Proof. exact rej_open_prog_of. Qed.
Print Assumptions C15_client_rejection_is_breaker_error.

Theorem C15_client_list_error_mapping : forall F g d, exists k,
  list_prog (S F) g d = Req (RList g []) (RErr EOpen) k /\
  (forall c, k (AErr c) = Ret (RErr (list_err c))) /\ k ABad = Ret (RErr EOther).
Proof. exact list_first_call. Qed.
Print Assumptions C15_client_list_error_mapping.

Theorem C15_client_check_error_mapping : forall g gs email acc, exists k,
  check_prog (g :: gs) email acc = Req (RHas g email) (RErr EOpen) k /\
  k (AErr 404) = check_prog gs email acc /\
  (forall c, c <> 404 -> k (AErr c) = Ret (RErr (check_err c))) /\
  k (AHas true) = check_prog gs email (acc ++ [g]) /\ k (AHas false) = check_prog gs email acc /\
  k ABad = Ret (RErr EOther).
Proof. exact check_call. Qed.
Print Assumptions C15_client_check_error_mapping.

(* What a listing returns (also of use to C17): against a directory that answers by content, a
   listing that succeeds returns exactly the users of all pages in order, every nested group
   replaced in place by its own expansion, [max_depth] levels deep; a check returns exactly the
   groups whose HasMember answer said yes. An operation all of whose exchanges were answered by
   content behaves as if it ran alone. *)
Theorem C15_client_listing_result : forall tbl F g d l,
  run_alone tbl (list_prog F g d) = ROk l -> l = expand tbl F d g.
Proof. exact list_result_is_expansion. Qed.
Print Assumptions C15_client_listing_result.

Theorem C15_client_check_result : forall tbl gs email l,
  run_alone tbl (check_prog gs email []) = ROk l ->
  l = filter (fun g => match tbl (RHas g email) with AHas true => true | _ => false end) gs.
Proof. intros tbl gs email l H. exact (run_check tbl gs email [] l H). Qed.
Print Assumptions C15_client_check_result.

Theorem C15_client_exchanges_determine_result : forall tbl xs p r,
  feed p xs = FDone r -> Forall (fun x => snd x = tbl (fst x)) xs -> run_alone tbl p = r.
Proof. exact feed_run_alone. Qed.
Print Assumptions C15_client_exchanges_determine_result.

(* The programs are the code read directly: feeding an operation its own exchanges equals the
   direct-style reading [replay] of listMemberships / CheckMemberships used by the monitor. *)
Theorem C15_client_program_is_direct_reading : forall F o xs,
  feed (prog_of F o) xs =
  match replay F o xs with
  | (RDone r, xs1) => feed (Ret r) xs1
  | (RPend, _) => FPending (RErr EOpen)
  | _ => FWrong
  end.
Proof. exact feed_replay. Qed.
Print Assumptions C15_client_program_is_direct_reading.

(* The property as the check applies it to the real GoogleAdminService (Corr_C15Client.cholds)
   accepts the model's projected trace of every interleaving, script and parameter choice. *)
Theorem C15_client_monitor_accepts_model : forall p sc evs,
  cholds p sc evs (cmodel_trace p sc evs) (length (pend (cmodel_final p sc evs))) = true.
Proof. exact client_monitor_accepts_model. Qed.
Print Assumptions C15_client_monitor_accepts_model.

(* ================================================================================================
   The layer above the admin service: GoogleProvider (internal/auth/providers/google.go), built by
   NewGoogleProvider with ONE breaker shared with its GoogleAdminService. [OValidate looks email] is
   ValidateGroupMembership (looks = the groups asked, each with the group cache's answer, an oracle),
   [OPopulate g] is PopulateMembers, the cache's fill function.
   ================================================================================================ *)

(* An uncached membership question is exactly CheckMemberships for all groups — every request it
   causes is a Call of the breaker and nothing but the cache and the group list decides whether it
   is made (in particular no state mirrored from the breaker); a fully cached one sends nothing. *)
Theorem C15_provider_validate_goes_through_breaker : forall looks email,
  (looks = [] -> validate_prog looks email = Ret (ROk [])) /\
  (looks <> [] -> looks_uncached looks = true ->
     validate_prog looks email = check_prog (map fst looks) email []) /\
  (looks <> [] -> looks_uncached looks = false -> exists l, validate_prog looks email = Ret (ROk l)).
Proof. exact validate_goes_through_breaker. Qed.
Print Assumptions C15_provider_validate_goes_through_breaker.

(* "... until the back-off deadline; THEN, half-open, it admits ...": in any reachable state whose
   breaker is open with the deadline strictly passed and a free half-open slot, the next operation
   that needs the directory reaches it — its first Call announces half-open and is admitted as a
   probe. Stated for every operation whose program starts with a request, and for an uncached
   membership question in particular. *)
Theorem C15_client_probe_after_deadline : forall trip reset backoff hom F dir evs o q rej k,
  let s := sexec trip reset backoff hom F dir evs in
  prog_of F o = Req q rej k ->
  st (br s) = Open -> expires (br s) < now (br s) -> cur (cnt (br s)) < half_open_max hom ->
  let s' := sstep_st trip reset backoff hom F dir s (Begin o) in
  let ob := snd (sstep trip reset backoff hom F dir s (Begin o)) in
  so_req ob = Some (nops s, nreq s, q) /\ so_done ob = None /\
  st (br s') = HalfOpen /\ gen (br s') = S (gen (br s)) /\
  exists b, so_start ob = Some b /\ o_adm b = Some true /\ o_ran b = true /\ o_hooks b = [HState Open HalfOpen].
Proof. intros trip reset backoff hom F dir evs o q rej k s. exact (probe_after_deadline trip reset backoff hom F dir s o q rej k). Qed.
Print Assumptions C15_client_probe_after_deadline.

Theorem C15_provider_uncached_question_probes_after_deadline : forall trip reset backoff hom F dir evs g c looks email,
  let s := sexec trip reset backoff hom F dir evs in
  looks_uncached ((g, c) :: looks) = true ->
  st (br s) = Open -> expires (br s) < now (br s) -> cur (cnt (br s)) < half_open_max hom ->
  let o := OValidate ((g, c) :: looks) email in
  let s' := sstep_st trip reset backoff hom F dir s (Begin o) in
  let ob := snd (sstep trip reset backoff hom F dir s (Begin o)) in
  so_req ob = Some (nops s, nreq s, RHas g email) /\ so_done ob = None /\
  st (br s') = HalfOpen /\ gen (br s') = S (gen (br s)) /\
  exists b, so_start ob = Some b /\ o_adm b = Some true /\ o_ran b = true /\ o_hooks b = [HState Open HalfOpen].
Proof. exact validate_probe_after_deadline. Qed.
Print Assumptions C15_provider_uncached_question_probes_after_deadline.
