(* C15 — Circuit breaker follows its three-state machine under every interleaving.
   Statements only; each is closed by [exact <lemma>].

   Vocabulary (coq/theories/Breaker.v, after /repo/internal/auth/circuit/breaker.go):
   [exec trip reset backoff hom evs] is the state after the arbitrary event list [evs] (call starts,
   completions of the i-th call in flight with success/failure, clock advances), starting from
   NewBreaker's state; [step] is one critical section and returns the new state and what it showed
   (verdict, whether f ran, every call to a hook or rule, in order); [trace] collects these.
   All statements hold for EVERY trip/reset/back-off rule and every HalfOpenConcurrentRequests. *)
From V Require Import Base Breaker Breaker_proofs CorrBase Corr_C15 Corr_C15_proofs.
Open Scope Z_scope.

(* While closed, every call is let through: admitted under the current generation, f runs, no hook. *)
Theorem C15_closed_admits : forall trip reset backoff hom evs,
  let b := exec trip reset backoff hom evs in
  st b = Closed ->
  step trip reset backoff hom b Start = (let_through b, mkobs (Some true) true []).
Proof. exact closed_admits_exec. Qed.
Print Assumptions C15_closed_admits.

(* Closed -> open happens exactly at a failed completion of a current-generation call after which
   the trip rule holds on the counters; the counters are then cleared, the deadline is
   now + backoff(cleared counters), the generation advances, and the hooks fire in this order.
   Any other event leaves the breaker closed in the same generation. *)
Theorem C15_trip_iff : forall trip reset backoff hom evs e,
  let b := exec trip reset backoff hom evs in
  let b' := step_st trip reset backoff hom b e in
  let c1 := mkcounts (cur (cnt b) - 1) 0 (fail (cnt b) + 1) in
  let c0 := mkcounts (cur (cnt b) - 1) 0 0 in
  st b = Closed ->
  (st b' = Open <->
     exists i, e = Finish i false /\ nth_error (inflight b) i = Some (gen b) /\ trip c1 = true) /\
  (st b' = Open ->
     gen b' = S (gen b) /\ cnt b' = c0 /\ expires b' = now b + backoff c0 /\ now b' = now b /\
     o_hooks (snd (step trip reset backoff hom b e)) =
       [HRule RTrip c1; HState Closed Open; HRule RBackoff c0; HBackoff (backoff c0) (now b + backoff c0)]) /\
  (st b' <> Open -> st b' = Closed /\ gen b' = gen b /\ expires b' = expires b /\
     ~ In (HState Closed Open) (o_hooks (snd (step trip reset backoff hom b e)))).
Proof. exact trip_iff_exec. Qed.
Print Assumptions C15_trip_iff.

(* While open, and for ANY further events during which the clock does not pass the deadline
   (now <= expires: time.Time.After is strict), the breaker stays open in the same generation with
   the same deadline and counters, every start is rejected without running f, no hook or rule is
   called — and the next start is rejected too, changing nothing at all. *)
Theorem C15_open_rejects_until : forall trip reset backoff hom evs evs',
  let b := exec trip reset backoff hom evs in
  let b' := exec trip reset backoff hom (evs ++ evs') in
  st b = Open -> Forall tick_nonneg evs' -> now b + ticks evs' <= expires b ->
  st b' = Open /\ gen b' = gen b /\ expires b' = expires b /\ succ (cnt b') = succ (cnt b) /\
  fail (cnt b') = fail (cnt b) /\ Forall quiet_reject (trace_from trip reset backoff hom b evs') /\
  step trip reset backoff hom b' Start = (b', mkobs (Some false) false []).
Proof. exact open_rejects_until_exec. Qed.
Print Assumptions C15_open_rejects_until.

(* Once the deadline has strictly passed, the next start announces half-open (new generation) and
   is admitted iff fewer than the configured number of calls are in flight. *)
Theorem C15_open_expires : forall trip reset backoff hom evs,
  let b := exec trip reset backoff hom evs in
  st b = Open -> expires b < now b ->
  let '(b', o) := step trip reset backoff hom b Start in
  st b' = HalfOpen /\ gen b' = S (gen b) /\ o_hooks o = [HState Open HalfOpen] /\
  (o_adm o = Some true <-> cur (cnt b) < half_open_max hom) /\
  o_ran o = match o_adm o with Some a => a | None => false end.
Proof. exact open_expired_exec. Qed.
Print Assumptions C15_open_expires.

(* Half-open never has more than the configured number of calls of its own generation in flight
   (the configured number is the option when positive, else 1). A start is admitted iff the total
   number in flight — calls still in flight from before the trip count too, hence "at most" — is
   below it; a rejected start runs nothing and changes nothing. *)
Theorem C15_halfopen_cap : forall trip reset backoff hom evs,
  let b := exec trip reset backoff hom evs in
  st b = HalfOpen ->
  Z.of_nat (count_gen (gen b) (inflight b)) <= half_open_max hom /\
  1 <= half_open_max hom /\ (0 < hom -> half_open_max hom = hom) /\
  let '(b', o) := step trip reset backoff hom b Start in
  o_hooks o = [] /\ st b' = HalfOpen /\ gen b' = gen b /\
  (o_adm o = Some true <-> cur (cnt b) < half_open_max hom) /\
  (o_adm o = Some false <-> half_open_max hom <= cur (cnt b)) /\
  (o_adm o = Some true -> o_ran o = true /\ b' = let_through b) /\
  (o_adm o = Some false -> o_ran o = false /\ b' = b).
Proof. exact halfopen_cap_exec. Qed.
Print Assumptions C15_halfopen_cap.

(* Half-open -> closed happens exactly at a successful completion of a current-generation call
   after which the reset rule holds; counters are cleared and the generation advances. *)
Theorem C15_reset_iff : forall trip reset backoff hom evs e,
  let b := exec trip reset backoff hom evs in
  let b' := step_st trip reset backoff hom b e in
  let cs := mkcounts (cur (cnt b) - 1) (succ (cnt b) + 1) 0 in
  st b = HalfOpen ->
  (st b' = Closed <->
     exists i, e = Finish i true /\ nth_error (inflight b) i = Some (gen b) /\ reset cs = true) /\
  (st b' = Closed -> gen b' = S (gen b) /\ cnt b' = mkcounts (cur (cnt b) - 1) 0 0 /\
     o_hooks (snd (step trip reset backoff hom b e)) = [HRule RReset cs; HState HalfOpen Closed]).
Proof. exact reset_iff_exec. Qed.
Print Assumptions C15_reset_iff.

(* Half-open -> open happens exactly at a failed completion of a current-generation call — ANY
   such failure — with a new back-off now + backoff(counters); otherwise it stays half-open in
   the same generation with the same deadline and announces no state change. *)
Theorem C15_reopen_on_failure : forall trip reset backoff hom evs e,
  let b := exec trip reset backoff hom evs in
  let b' := step_st trip reset backoff hom b e in
  let cf := mkcounts (cur (cnt b) - 1) 0 (fail (cnt b) + 1) in
  st b = HalfOpen ->
  (st b' = Open <-> exists i, e = Finish i false /\ nth_error (inflight b) i = Some (gen b)) /\
  (st b' = Open -> gen b' = S (gen b) /\ cnt b' = cf /\ expires b' = now b + backoff cf /\ now b' = now b /\
     o_hooks (snd (step trip reset backoff hom b e)) =
       [HState HalfOpen Open; HRule RBackoff cf; HBackoff (backoff cf) (now b + backoff cf)]) /\
  (st b' = HalfOpen -> gen b' = gen b /\ expires b' = expires b /\
     forall p t, ~ In (HState p t) (o_hooks (snd (step trip reset backoff hom b e)))).
Proof. exact reopen_exec. Qed.
Print Assumptions C15_reopen_on_failure.

(* A completion whose admission generation differs from the generation in force after the
   implicit clock step — in a reachable state: any call admitted before the most recent state
   change — changes nothing but the in-flight count, whatever its outcome: the result is the
   clock-stepped state with one call fewer in flight, and only the clock step's hook is seen. *)
Theorem C15_stale_ignored : forall trip reset backoff hom evs i g,
  let b := exec trip reset backoff hom evs in
  nth_error (inflight b) i = Some g ->
  (g <> gen (clock_step b) <-> (g < gen (clock_step b))%nat) /\
  ((g < gen b)%nat -> g <> gen (clock_step b)) /\
  (g <> gen (clock_step b) -> forall ok,
     step trip reset backoff hom b (Finish i ok) =
       (after_stale b i, mkobs None false (snd (current_state b)))).
Proof. exact stale_ignored_exec. Qed.
Print Assumptions C15_stale_ignored.

(* CurrentRequests is exactly the number of calls in flight, hence never negative. *)
Theorem C15_cur_nonneg : forall trip reset backoff hom evs,
  let b := exec trip reset backoff hom evs in
  cur (cnt b) = Z.of_nat (length (inflight b)) /\ 0 <= cur (cnt b) /\
  0 <= succ (cnt b) /\ 0 <= fail (cnt b).
Proof. exact cur_nonneg_exec. Qed.
Print Assumptions C15_cur_nonneg.

(* The generation counts the OnStateChange calls; those calls form a path of the documented
   diagram from closed to the current state; no call in flight is younger than the generation and
   while open all are older — so the StateOpen arm of onFailure (breaker.go:285-286) is dead. *)
Theorem C15_gen_counts_changes : forall trip reset backoff hom evs,
  let b := exec trip reset backoff hom evs in
  gen b = length (filter is_state_hook (all_hooks (trace trip reset backoff hom evs))) /\
  walk Closed (all_hooks (trace trip reset backoff hom evs)) = Some (st b) /\
  Forall (fun g => (g <= gen b)%nat) (inflight b) /\
  (st b = Open -> Forall (fun g => (g < gen b)%nat) (inflight b)) /\
  (forall i g, st (clock_step b) = Open -> nth_error (inflight b) i = Some g -> g <> gen (clock_step b)).
Proof. exact gen_counts_changes_exec. Qed.
Print Assumptions C15_gen_counts_changes.

(* The property as the check applies it to the implementation (Corr_C15.holds: a checker of
   observed traces that re-derives state, epochs, in-flight calls, consecutive counters and
   deadline from observations only) accepts the model's trace of every interleaving. *)
Theorem C15_monitor_accepts_model : forall p evs,
  holds p evs (model_trace p evs) (length (inflight (model_final p evs))) = true.
Proof. exact monitor_accepts_model. Qed.
Print Assumptions C15_monitor_accepts_model.

Theorem C15_agreeing_case_is_fine : forall c,
  list_eqb obs_eqb (model_trace (c_par c) (c_evs c)) (c_obs c) = true ->
  Nat.eqb (length (inflight (model_final (c_par c) (c_evs c)))) (c_blocked c) = true ->
  judge c = 0%N.
Proof. exact judge_agree_is_fine. Qed.
Print Assumptions C15_agreeing_case_is_fine.
