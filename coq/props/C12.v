(* C12 — Forwarded requests carry signatures that verify over what the upstream received.
   This file contains only statements; each is closed by [exact <lemma>].
   g_cov = signedHeaders (request_signer.go), g_covh = canonicalised SignatureHeaders (oauthproxy.go,
   hmacauth.NewHmacAuth): both lists are re-extracted from the Go source on every run (gen/Gen_Signer.v). *)
From V Require Import Base Signer Signer_proofs Gen_Signer Signer_gen_proofs CorrBase Corr_C12_defs Corr_C12_proofs.

(* For every configuration whose `to` is a bare host and every request the proxy hands to the upstream
   handler chain (any method, headers, cookies, identity, path beginning with "/", query, body,
   chunked or sized) such that (guard 1) no token of its Connection header names a covered header
   or a signature header and (guard 2) its Content-Length header is the one the transport will
   write: the request the upstream RECEIVES has the same RSA canonical form and the same HMAC
   string-to-sign as the request had when it was signed, its body is the same, the RSA signature
   verifies over the received request under the published key named by kid, and the HMAC
   authenticates (ResultMatch = 3). *)
Theorem C12_signed_is_received :
  forall (c : cfg) (parsed : list (str * str)) (ident : option identity) (ip : str) (r0 : request) (b : str),
  bare_target c = true -> has_prefix (r_path r0) [47] = true -> r_fragment r0 = [] -> r_body r0 = Some b ->
  conn_safe g_protected (r_headers (at_sign_time c parsed ident r0)) = true ->
  cl_canonical (at_sign_time c parsed ident r0) = true ->
  let rs := at_sign_time c parsed ident r0 in
  let rr := received g_cov g_covh c parsed ident ip r0 in
  canon_rsa g_cov rr = canon_rsa g_cov rs /\
  canon_hmac g_covh rr = canon_hmac g_covh rs /\
  r_body rr = r_body rs /\
  (c_skip c = false -> forall sk, c_signer c = Some sk -> verify_rsa g_cov (published_certs c) rr = Some true) /\
  (c_skip c = false -> forall key, c_hmac c = Some key -> verify_hmac g_covh key rr = 3).
Proof. exact g_signed_is_received. Qed.
Print Assumptions C12_signed_is_received.

(* the hypotheses are satisfiable: a POST with a body, three covered headers and the session cookie
   among the cookies; it verifies, and the session cookie is not forwarded *)
Theorem C12_signed_is_received_nonvacuous :
  bare_target ex_cfg = true /\ has_prefix (r_path ex_post) [47] = true /\ r_fragment ex_post = [] /\
  r_body ex_post = Some s_body /\
  conn_safe g_protected (r_headers (at_sign_time ex_cfg ex_parsed ex_ident ex_post)) = true /\
  cl_canonical (at_sign_time ex_cfg ex_parsed ex_ident ex_post) = true /\
  verify_rsa g_cov (published_certs ex_cfg) (received g_cov g_covh ex_cfg ex_parsed ex_ident s_ip ex_post) = Some true /\
  verify_hmac g_covh [107;101;121] (received g_cov g_covh ex_cfg ex_parsed ex_ident s_ip ex_post) = 3 /\
  hvals cookie_h (r_headers (received g_cov g_covh ex_cfg ex_parsed ex_ident s_ip ex_post)) = [].
Proof. exact g_nonvacuous. Qed.
Print Assumptions C12_signed_is_received_nonvacuous.

(* The body arrives byte for byte, with no guard at all: the re-buffering in both signers is the
   identity on bytes, for every configuration (signer on/off, HMAC on/off, skip_request_signing). *)
Theorem C12_body_intact :
  forall cv covh c parsed ident ip r0,
  r_body (received cv covh c parsed ident ip r0) = Some (body_bytes r0).
Proof. exact body_intact. Qed.
Print Assumptions C12_body_intact.

(* Upstream faults: however many attempts reach the upstream for one request (the proxy gives up after
   one; net/http re-sends a body-less request on a reused connection that died), under the same guards
   EVERY attempt carries the whole body and signatures that verify over it. *)
Theorem C12_every_attempt_verifies :
  forall (c : cfg) (parsed : list (str * str)) (ident : option identity) (ip : str) (r0 : request) (b : str),
  bare_target c = true -> has_prefix (r_path r0) [47] = true -> r_fragment r0 = [] -> r_body r0 = Some b ->
  conn_safe g_protected (r_headers (at_sign_time c parsed ident r0)) = true ->
  cl_canonical (at_sign_time c parsed ident r0) = true ->
  forall n,
  Forall (fun rr =>
            r_body rr = Some (body_bytes r0) /\
            (c_skip c = false -> forall sk, c_signer c = Some sk -> verify_rsa g_cov (published_certs c) rr = Some true) /\
            (c_skip c = false -> forall key, c_hmac c = Some key -> verify_hmac g_covh key rr = 3))
         (attempts n g_cov g_covh c parsed ident ip r0).
Proof. exact g_every_attempt_verifies. Qed.
Print Assumptions C12_every_attempt_verifies.

(* Without guard 1 the statement is FALSE of the faithful model (known finding C12-K1):
   `Connection: Authorization` — the covered header is signed, then stripped by ReverseProxy's
   hop-by-hop removal; neither signature verifies at the upstream. *)
Theorem C12_hop_by_hop_refuted :
  exists c parsed ident ip r0 b,
    bare_target c = true /\ has_prefix (r_path r0) [47] = true /\ r_fragment r0 = [] /\ r_body r0 = Some b /\
    cl_canonical (at_sign_time c parsed ident r0) = true /\
    conn_safe g_protected (r_headers (at_sign_time c parsed ident r0)) = false /\
    hvals authorization (r_headers (at_sign_time c parsed ident r0)) <> [] /\
    hvals authorization (r_headers (received g_cov g_covh c parsed ident ip r0)) = [] /\
    canon_rsa g_cov (received g_cov g_covh c parsed ident ip r0) <> canon_rsa g_cov (at_sign_time c parsed ident r0) /\
    verify_rsa g_cov (published_certs c) (received g_cov g_covh c parsed ident ip r0) = Some false /\
    (exists key, c_hmac c = Some key /\ verify_hmac g_covh key (received g_cov g_covh c parsed ident ip r0) = 4).
Proof. exact g_hop_by_hop_refuted. Qed.
Print Assumptions C12_hop_by_hop_refuted.

(* ... and `Connection: Sso-Signature` removes the signature itself. *)
Theorem C12_hop_by_hop_signature_stripped :
  exists c parsed ident ip r0,
    r_sso_sig (sign g_cov g_covh c (at_sign_time c parsed ident r0)) <> None /\
    verify_rsa g_cov (published_certs c) (received g_cov g_covh c parsed ident ip r0) = None.
Proof. exact g_hop_by_hop_signature_stripped. Qed.
Print Assumptions C12_hop_by_hop_signature_stripped.

(* Without guard 2 the statement is FALSE of the faithful model (known finding C12-K2):
   a GET carrying `Content-Length: 0` — the header is covered and signed, the transport does not
   write a Content-Length for a body-less GET, the upstream's canonical form lacks the entry. *)
Theorem C12_content_length_refuted :
  exists c parsed ident ip r0 b,
    bare_target c = true /\ has_prefix (r_path r0) [47] = true /\ r_fragment r0 = [] /\ r_body r0 = Some b /\
    conn_safe g_protected (r_headers (at_sign_time c parsed ident r0)) = true /\
    cl_canonical (at_sign_time c parsed ident r0) = false /\
    hvals content_length (r_headers (at_sign_time c parsed ident r0)) <> [] /\
    hvals content_length (r_headers (received g_cov g_covh c parsed ident ip r0)) = [] /\
    canon_rsa g_cov (received g_cov g_covh c parsed ident ip r0) <> canon_rsa g_cov (at_sign_time c parsed ident r0) /\
    verify_rsa g_cov (published_certs c) (received g_cov g_covh c parsed ident ip r0) = Some false /\
    (exists key, c_hmac c = Some key /\ verify_hmac g_covh key (received g_cov g_covh c parsed ident ip r0) = 4).
Proof. exact g_content_length_refuted. Qed.
Print Assumptions C12_content_length_refuted.

(* Tampering. Two requests that differ in exactly one of: one covered header's joined value, the
   path, the raw query, the body — have different canonical forms, in both schemes (HMAC: the MAC
   input = string-to-sign followed by the body). No hypothesis on the bytes is needed. *)
Theorem C12_tamper_header : forall r1 r2 h,
  (forall k, k <> h -> hvals k (r_headers r1) = hvals k (r_headers r2)) ->
  r_method r1 = r_method r2 -> r_path r1 = r_path r2 -> r_rawquery r1 = r_rawquery r2 ->
  r_fragment r1 = r_fragment r2 -> r_body r1 = r_body r2 ->
  (In h g_cov -> rsa_entry r1 h <> rsa_entry r2 h -> canon_rsa g_cov r1 <> canon_rsa g_cov r2) /\
  (In h g_covh -> hmac_line r1 h <> hmac_line r2 h -> mac_input g_covh r1 <> mac_input g_covh r2).
Proof. exact g_tamper_header. Qed.
Print Assumptions C12_tamper_header.

Theorem C12_tamper_path : forall cov covh r1 r2,
  same_headers r1 r2 -> r_method r1 = r_method r2 -> r_rawquery r1 = r_rawquery r2 ->
  r_fragment r1 = r_fragment r2 -> r_body r1 = r_body r2 -> r_path r1 <> r_path r2 ->
  canon_rsa cov r1 <> canon_rsa cov r2 /\ mac_input covh r1 <> mac_input covh r2.
Proof. exact tamper_path. Qed.
Print Assumptions C12_tamper_path.

Theorem C12_tamper_query : forall cov covh r1 r2,
  same_headers r1 r2 -> r_method r1 = r_method r2 -> r_path r1 = r_path r2 ->
  r_fragment r1 = r_fragment r2 -> r_body r1 = r_body r2 -> r_rawquery r1 <> r_rawquery r2 ->
  canon_rsa cov r1 <> canon_rsa cov r2 /\ mac_input covh r1 <> mac_input covh r2.
Proof. exact tamper_query. Qed.
Print Assumptions C12_tamper_query.

Theorem C12_tamper_body : forall cov covh r1 r2,
  same_headers r1 r2 -> r_method r1 = r_method r2 -> r_path r1 = r_path r2 ->
  r_rawquery r1 = r_rawquery r2 -> r_fragment r1 = r_fragment r2 ->
  (r_body r1 <> r_body r2 -> canon_rsa cov r1 <> canon_rsa cov r2) /\
  (body_bytes r1 <> body_bytes r2 -> mac_input covh r1 <> mac_input covh r2).
Proof. exact tamper_body. Qed.
Print Assumptions C12_tamper_body.

(* the HMAC form also covers the method (the RSA form does not: C12_canon_not_injective) *)
Theorem C12_tamper_method_hmac : forall covh r1 r2,
  same_headers r1 r2 -> r_path r1 = r_path r2 -> r_rawquery r1 = r_rawquery r2 ->
  r_fragment r1 = r_fragment r2 -> r_body r1 = r_body r2 -> r_method r1 <> r_method r2 ->
  mac_input covh r1 <> mac_input covh r2.
Proof. exact tamper_method. Qed.
Print Assumptions C12_tamper_method_hmac.

(* with the ideal hash, signature and MAC, a different canonical form means the signature made for
   r1 is invalid on r2 *)
Theorem C12_tampered_signature_invalid : forall cov covh pk sk key r1 r2,
  (canon_rsa cov r1 <> canon_rsa cov r2 ->
   rsa_verify pk (Hash (canon_rsa cov r2)) (RsaSig sk (Hash (canon_rsa cov r1))) = false) /\
  (mac_input covh r1 <> mac_input covh r2 ->
   mac_eqb (Mac key (mac_input covh r1)) (Mac key (mac_input covh r2)) = false).
Proof. intros; split; [exact (rsa_verify_other cov pk sk r1 r2) | exact (mac_other covh key r1 r2)]. Qed.
Print Assumptions C12_tampered_signature_invalid.

(* Beyond single fields: with LF-free methods and header values (net/http cannot parse a line feed
   into either) equal MAC inputs force equal methods and equal lines for EVERY covered header; the
   RSA form does so when the same covered headers are present in both requests. *)
Theorem C12_hmac_block_injective : forall covh r1 r2,
  ~ In lf (r_method r1) -> ~ In lf (r_method r2) ->
  (forall h, In h covh -> ~ In lf (hmac_line r1 h) /\ ~ In lf (hmac_line r2 h)) ->
  mac_input covh r1 = mac_input covh r2 ->
  r_method r1 = r_method r2 /\ (forall h, In h covh -> hmac_line r1 h = hmac_line r2 h) /\
  url_part r1 ++ lf :: body_bytes r1 = url_part r2 ++ lf :: body_bytes r2.
Proof. exact hmac_block_injective. Qed.
Print Assumptions C12_hmac_block_injective.

Theorem C12_rsa_block_injective : forall cov r1 r2,
  length (rsa_header_entries cov r1) = length (rsa_header_entries cov r2) ->
  (forall e, In e (rsa_header_entries cov r1) \/ In e (rsa_header_entries cov r2) -> ~ In lf e) ->
  canon_rsa cov r1 = canon_rsa cov r2 ->
  rsa_header_entries cov r1 = rsa_header_entries cov r2 /\
  url_part r1 ++ body_suffix (r_body r1) = url_part r2 ++ body_suffix (r_body r2).
Proof. exact rsa_block_injective. Qed.
Print Assumptions C12_rsa_block_injective.

(* "The canonical form is injective" is FALSE and not claimed. Documented collisions:
   the RSA form omits the method; header names are not part of it and empty entries are dropped
   (Date: x = Authorization: x; an e-mail can be read as a user name); path/query boundary
   (path "/a?b" = path "/a" query "b"); URL/body boundary through a line feed in the path;
   two values = one value with a comma; HMAC: nil body = empty body. *)
Theorem C12_canon_not_injective :
  (forall cov m1 m2 h p q b, canon_rsa cov (mk_req m1 h p q b) = canon_rsa cov (mk_req m2 h p q b)) /\
  canon_rsa dc (mk_req s_get [(date_h, [s_x])] s_a [] (Some [])) =
  canon_rsa dc (mk_req s_get [(authorization, [s_x])] s_a [] (Some [])) /\
  canon_rsa dc (mk_req s_get [(x_forwarded_user, [s_bob_mail])] s_a [] (Some [])) =
  canon_rsa dc (mk_req s_get [(x_forwarded_user, [[]]); (x_forwarded_email, [s_bob_mail])] s_a [] (Some [])) /\
  canon_rsa dc (mk_req s_get [] s_aqb [] (Some [])) = canon_rsa dc (mk_req s_get [] s_a s_b (Some [])) /\
  mac_input dc (mk_req s_get [] s_aqb [] (Some [])) = mac_input dc (mk_req s_get [] s_a s_b (Some [])) /\
  canon_rsa dc (mk_req m_post [] s_a_nl_b [] (Some s_c)) = canon_rsa dc (mk_req m_post [] s_a [] (Some s_b_nl_c)) /\
  mac_input dc (mk_req m_post [] s_a_nl_b [] (Some s_c)) = mac_input dc (mk_req m_post [] s_a [] (Some s_b_nl_c)) /\
  canon_rsa dc (mk_req s_get [(authorization, [s_a1; s_b])] s_a [] (Some [])) =
  canon_rsa dc (mk_req s_get [(authorization, [s_ab])] s_a [] (Some [])) /\
  mac_input dc (mk_req s_get [(authorization, [s_a1; s_b])] s_a [] (Some [])) =
  mac_input dc (mk_req s_get [(authorization, [s_ab])] s_a [] (Some [])) /\
  mac_input dc (mk_req s_get [] s_a [] None) = mac_input dc (mk_req s_get [] s_a [] (Some [])).
Proof. split; [exact rsa_ignores_method | exact not_injective_examples]. Qed.
Print Assumptions C12_canon_not_injective.

(* The lists the code uses, as extracted from the source now, are the documented ten headers in the
   documented order; every name is spelled canonically (the RSA signer looks names up verbatim, so a
   non-canonical spelling would silently uncover a header); no covered header is one the chain
   itself rewrites; the signature header names are the ones the model uses. *)
Theorem C12_covered_list :
  signedHeaders = documented_covered /\ SignatureHeaders = documented_covered /\
  hmac_names SignatureHeaders = documented_covered /\
  (forall k, In k signedHeaders -> canonical_key k = k) /\
  NoDup documented_covered /\ length documented_covered = 10%nat /\
  cov_ok documented_covered = true /\
  signatureHeader = sso_signature /\ canonical_key signingKeyHeader = kid_h /\
  HMACSignatureHeader = gap_signature.
Proof. exact covered_list. Qed.
Print Assumptions C12_covered_list.

(* The kid header the upstream receives is the id under which /oauth2/v1/certs publishes the
   signer's public key (and it is the only published key). *)
Theorem C12_kid_names_key :
  forall (c : cfg) (parsed : list (str * str)) (ident : option identity) (ip : str) (r0 : request) (b : str),
  bare_target c = true -> has_prefix (r_path r0) [47] = true -> r_fragment r0 = [] -> r_body r0 = Some b ->
  conn_safe g_protected (r_headers (at_sign_time c parsed ident r0)) = true ->
  cl_canonical (at_sign_time c parsed ident r0) = true ->
  forall sk, c_skip c = false -> c_signer c = Some sk ->
  let rr := received g_cov g_covh c parsed ident ip r0 in
  r_kid rr = Some (KeyId (pub sk)) /\
  published_certs c = [(KeyId (pub sk), pub sk)] /\
  cert_lookup (KeyId (pub sk)) (published_certs c) = Some (pub sk).
Proof. exact g_kid_names_key. Qed.
Print Assumptions C12_kid_names_key.

(* The per-upstream HMAC key (proxy_config.go generateHmacAuth): for EVERY algorithm name and secret
   without ':' the key is the secret exactly as written — no case folding, no trimming — and the
   configuration is accepted iff the algorithm is one of the accepted names, verbatim. *)
Theorem C12_hmac_key_is_secret : forall algs alg secret,
  ~ In 58 alg -> ~ In 58 secret ->
  generate_hmac algs (alg ++ 58 :: secret) = if mem_str alg algs then HmacOn secret else HmacConfigError.
Proof. exact generate_hmac_key. Qed.
Print Assumptions C12_hmac_key_is_secret.

(* "The documented variable SSO_CONFIG_{{SERVICE}}_SIGNING_KEY = algorithm:secret configures the key",
   for EVERY service name, spec and set of accepted algorithms: the variable named after the cleaned
   service name in upper case is found whatever the case of the service name.
   (Refuted before /repo c723740 — C12-K3: service `MySvc` got HmacOff; now the proved positive statement.) *)
Theorem C12_hmac_service_case : forall algs service spec,
  hmac_of_config algs service [(upper_ascii (clean_ws service ++ signing_key_suffix), spec)] = generate_hmac algs spec.
Proof. exact hmac_config_found. Qed.
Print Assumptions C12_hmac_service_case.

(* the former witness: service "MySvc", SSO_CONFIG_MYSVC_SIGNING_KEY=sha256:x — key found, both by the
   documented rule and by the code's *)
Theorem C12_hmac_service_case_witness :
  doc_hmac ex_world_k3 = HmacOn s_x /\
  hmac_of_config (w_algs ex_world_k3) (w_service ex_world_k3) (w_environ ex_world_k3) = HmacOn s_x.
Proof. exact doc_hmac_case_witness. Qed.
Print Assumptions C12_hmac_service_case_witness.

(* The documented rule — written independently in Corr_C12_defs.doc_hmac: case-insensitive variable
   match, first-colon cut — and the code's rule agree for EVERY world: every service name, environment,
   spec string and set of accepted algorithms. (Before c723740 only for lower-case service names:
   `C12_hmac_config_documented_partial`; the fix removed the guard. Remaining assumptions are about
   the model, not the statement: ASCII white space and ASCII case folding.) *)
Theorem C12_hmac_config_documented : forall w : world,
  doc_hmac w = hmac_of_config (w_algs w) (w_service w) (w_environ w).
Proof. exact doc_hmac_agrees. Qed.
Print Assumptions C12_hmac_config_documented.

(* The monitor that Corr_C12_defs.judge applies to the implementation's observations accepts the model's
   own prediction for every input satisfying the guards (so a falsifying observation is either a
   difference between model and implementation, or one of the refuted clauses). [cfg_of_world w] ranges
   over every configuration with a bare-host `to`, including inject_request_headers. *)
Theorem C12_monitor_accepts_model :
  forall w parsed ident r0 b,
  let c := cfg_of_world w in
  has_prefix (r_path r0) [47] = true -> r_fragment r0 = [] -> r_body r0 = Some b ->
  conn_safe all_protected (r_headers (at_sign_time c parsed ident r0)) = true ->
  cl_canonical (at_sign_time c parsed ident r0) = true ->
  let p := received gen_cov gen_covh c parsed ident loopback r0 in
  let recv := to_obs p in
  holds_rsa c recv (canon_rsa gen_cov (of_obs recv)) (verify_rsa gen_cov (published_certs c) p)
            (kid_published (published_certs c) p) = true /\
  holds_hmac w recv (canon_hmac gen_covh (of_obs recv)) (model_v_hmac w p) = true /\
  holds_body (body_bytes r0) recv = true.
Proof. exact monitor_accepts_model. Qed.
Print Assumptions C12_monitor_accepts_model.
