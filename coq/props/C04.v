(* C04 — Sessions end: hard lifetime bound, periodic revalidation, effective revocation. *)
From V Require Import Base Validators ProxyCore ProxyCore_proofs ProxyWorld ProxyWorld_proofs ProxyExamples.
Open Scope Z_scope.

(* For every history (ticks, logins, requests presenting ANY issued cookie, any answers): every
   sealed session in existence keeps lifetime deadline = (time of the login it descends from) + L,
   its host binding, slug and e-mail, and its validity deadline is at most V after the step that
   sealed it. No sequence of requests, refreshes, revalidations or outages moves the bound. *)
Theorem C04_lifetime_fixed : forall lower c pol_of evs,
  Forall (good lower c pol_of (w_now (run lower c pol_of evs))) (w_issued (run lower c pol_of evs)).
Proof. exact inv_run. Qed.
Print Assumptions C04_lifetime_fixed.

(* Nothing is served on a session after login + L (second component of the conclusion). *)
Theorem C04_served_within_lifetime : forall lower c pol_of evs host o sk x ep ck a,
  let w := run lower c pol_of evs in
  served (respond lower c pol_of w host o sk x ep ck a) = true ->
  (ep = EProxy /\ whitelisted (pol_of host) (mk_request w host o sk x ep ck) = true) \/
  exists k i, ck = CkIssued k /\ nth_error (w_issued w) k = Some i /\
    good lower c pol_of (w_now w) i /\ i_host i = host /\
    session_ok lower (w_now w) c (pol_of host) host (i_s i) a /\
    w_now w <= i_login i + c_L c.
Proof. exact mediation_history. Qed.
Print Assumptions C04_served_within_lifetime.

(* A due check makes the proxy ask; success means the authenticator confirmed token and groups
   (or the answer was an outage answer inside the grace period — C05). *)
Theorem C04_check_due : forall lower now c u host s a,
  ao_err (authenticate lower now c u host (Sealed s) a) = None ->
  ((s_refresh_dl s < now \/ s_valid_dl s < now) ->
     ao_calls (authenticate lower now c u host (Sealed s) a) <> []) /\
  session_ok lower now c u host s a.
Proof.
  intros lower now c u host s a H. split.
  - exact (proj1 (authenticate_calls lower now c u host s a H)).
  - destruct (authenticate_sound lower now c u host (Sealed s) a H) as [s0 [E Hok]]. inversion E; subst. exact Hok.
Qed.
Print Assumptions C04_check_due.

(* Served without asking => nothing was due, and the cookie was sealed at most V ago. *)
Theorem C04_fresh_otherwise : forall lower c pol_of evs host x ck a,
  let w := run lower c pol_of evs in
  served (respond lower c pol_of w host false false x EProxy ck a) = true ->
  rs_calls (respond lower c pol_of w host false false x EProxy ck a) = [] ->
  exists k i, ck = CkIssued k /\ nth_error (w_issued w) k = Some i /\
    w_now w <= s_valid_dl (i_s i) /\ w_now w <= s_refresh_dl (i_s i) /\ w_now w <= i_at i + c_V c.
Proof. exact fresh_within_valid_ttl. Qed.
Print Assumptions C04_fresh_otherwise.

(* Revocation is effective: at a due refresh, a missing refresh token, a 401 (revoked), any other
   error, a failed group lookup or "no longer in the allowed groups" refuses and clears the cookie;
   likewise at a due validation. *)
Theorem C04_revocation_refresh : forall lower now c u host s a,
  s_slug s = c_slug c -> s_upstream s = host -> now <= s_lifetime_dl s -> s_refresh_dl s < now ->
  s_refresh_tok s = [] \/ denied_at_refresh (p_groups (u_rules u)) a ->
  exists e, ao_err (authenticate lower now c u host (Sealed s) a) = Some e /\
            ao_cookie (authenticate lower now c u host (Sealed s) a) = CCleared.
Proof. exact revocation_refresh. Qed.
Print Assumptions C04_revocation_refresh.

Theorem C04_revocation_validate : forall lower now c u host s a,
  s_slug s = c_slug c -> s_upstream s = host -> now <= s_lifetime_dl s -> now <= s_refresh_dl s -> s_valid_dl s < now ->
  denied_at_validate (p_groups (u_rules u)) a ->
  ao_err (authenticate lower now c u host (Sealed s) a) = Some ENotAuthorized /\
  ao_cookie (authenticate lower now c u host (Sealed s) a) = CCleared.
Proof. exact revocation_validate. Qed.
Print Assumptions C04_revocation_validate.

(* an error never reaches the upstream and always clears the cookie *)
Theorem C04_error_clears : forall lower now c u host ck a e,
  ao_err (authenticate lower now c u host ck a) = Some e ->
  ao_cookie (authenticate lower now c u host ck a) = CCleared /\
  ao_session (authenticate lower now c u host ck a) = None.
Proof. exact authenticate_error_clears. Qed.
Print Assumptions C04_error_clears.

(* The monitor that judges the implementation's histories demands no more than these theorems:
   it accepts the model's own observation at every step of every history (any issued cookie, any
   host, any answers). *)
From V Require Import CorrProxy Corr_C01 Corr_C01_proofs Corr_C04 Corr_C04_proofs.
Theorem C04_monitor_accepts_model : forall lower c pol_of evs host x k i a,
  let w := run lower c pol_of evs in
  nth_error (w_issued w) k = Some i ->
  c04_step lower c (pol_of host) (i_login i)
    (with_issued (model_obs lower (w_now w) c (pol_of host) (mk_request w host false false x EProxy (CkIssued k)) a)
                 (Some (i_at i))) = true.
Proof. exact c04_monitor_accepts_model. Qed.
Print Assumptions C04_monitor_accepts_model.
