(* C08 — Authenticator back-channel needs client credentials; only genuine codes redeem.
   This file contains only statements; each is closed by [exact <lemma>]. *)
From V Require Import Base AuthBack AuthBack_proofs CorrBase Corr_C08 Corr_C08_proofs.
From V Require Import Gen_AuthBackRoutes AuthBackRoutes AuthBackRoutes_proofs.

(* Each of /profile /validate /redeem /refresh is in the route table and its handler is wrapped
   by the client-id gate and the client-secret gate (the table is data; the driver checks it
   against the real mux on every run). *)
Theorem C08_routes_gated : forall p, In p [p_profile; p_validate; p_redeem; p_refresh] ->
  exists rt, find_route p routes = Some rt /\ r_path rt = p /\
             r_gates rt = [GClientID; GClientSecret] /\
             In GClientID (r_gates rt) /\ In GClientSecret (r_gates rt).
Proof. exact routes_gated. Qed.
Print Assumptions C08_routes_gated.

(* ... and the model's table is the table in the Go SOURCE: [auth_routes_src] is extracted from
   Authenticator.newMux by the translator on every run. Every source route that ends in GetProfile,
   ValidateToken, Redeem or Refresh is a row of [routes] (same path, methods, gate chain), there is
   no other such route, both gates wrap each of them, and route paths are pairwise distinct. *)
Theorem C08_source_routes_gated :
  translate auth_routes_src = Some routes /\
  NoDup (map src_path auth_routes_src) /\
  (forall x, In x auth_routes_src -> handler_of_name (src_handler x) <> None ->
     In n_validateClientID (src_wrappers x) /\ In n_validateClientSecret (src_wrappers x)).
Proof. exact (conj source_table_is_model_table (conj source_paths_distinct source_back_channel_gated)). Qed.
Print Assumptions C08_source_routes_gated.

(* For EVERY request (any method, raw query, content type, raw body, headers), every
   configuration, every provider script, bare mux or production chain, and ANY route that carries
   both gates (in any order, with repetitions): if the handler runs then the method is allowed and
   the client id / secret, as the gates read them, are the configured ones; otherwise the answer is
   405 (method), 500 (unparsable form, bare mux only) or 401 (credentials), the identity provider
   is not called and the body carries no field. *)
Theorem C08_gate_sound : forall cfg e rt r pre,
  In GClientID (r_gates rt) /\ In GClientSecret (r_gates rt) ->
  let rs := serve_route cfg e rt r (init_state pre r) in
  (forall h, rs_ran rs = Some h ->
     h = r_handler rt /\ mem_str (rq_method r) (r_methods rt) = true /\
     presented_id r = cfg_id cfg /\ presented_secret r = cfg_secret cfg) /\
  (rs_ran rs = None ->
     rs_calls rs = [] /\ rs_body rs = no_body /\
     ((rs_status rs = 405 /\ mem_str (rq_method r) (r_methods rt) = false) \/
      (rs_status rs = 500 /\ pre = false /\ snd (compute_form r) = true) \/
      (rs_status rs = 401 /\ (presented_id r <> cfg_id cfg \/ presented_secret r <> cfg_secret cfg)))).
Proof. exact gate_sound. Qed.
Print Assumptions C08_gate_sound.

(* The same, for the table that exists: a handler effect (provider call, data in the body) needs
   a handler, and a handler needs both credentials. *)
Theorem C08_no_effect_without_credentials : forall cfg e pre r,
  presented_id r <> cfg_id cfg \/ presented_secret r <> cfg_secret cfg ->
  let rs := serve cfg e pre r in
  rs_ran rs = None /\ rs_calls rs = [] /\ rs_body rs = no_body /\
  (rs_status rs = 401 \/ rs_status rs = 404 \/ rs_status rs = 405 \/ rs_status rs = 500).
Proof. exact serve_refuses. Qed.
Print Assumptions C08_no_effect_without_credentials.

(* Reading that does not follow the gates' own precedence rules: when a handler runs, the
   configured id occurs among the client_id values the caller sent (urlencoded body or query) and
   the configured secret among the client_secret values (body, query or X-Client-Secret header).
   Guard: both are non-empty, which ClientConfig.Validate enforces (C08_validate_guard). So no
   placement (duplicate, conflicting, empty-then-fallback, header against form) lets a caller
   through who did not send the right values. *)
Theorem C08_gate_sound_knowledge : forall cfg e rt r pre h,
  In GClientID (r_gates rt) /\ In GClientSecret (r_gates rt) ->
  cfg_id cfg <> [] -> cfg_secret cfg <> [] ->
  rs_ran (serve_route cfg e rt r (init_state pre r)) = Some h ->
  In (cfg_id cfg) (id_values r) /\ In (cfg_secret cfg) (secret_values r).
Proof. exact gate_sound_knowledge. Qed.
Print Assumptions C08_gate_sound_knowledge.

(* The gates are not vacuous: the right credentials on a well-formed request reach the handler. *)
Theorem C08_gate_complete : forall cfg e rt r pre,
  In GClientID (r_gates rt) /\ In GClientSecret (r_gates rt) ->
  mem_str (rq_method r) (r_methods rt) = true -> (pre = true \/ snd (compute_form r) = false) ->
  presented_id r = cfg_id cfg -> presented_secret r = cfg_secret cfg ->
  serve_route cfg e rt r (init_state pre r) = run_handler cfg e (r_handler rt) r (Some (fst (compute_form r))).
Proof. exact gate_complete. Qed.
Print Assumptions C08_gate_complete.

(* Configuration.Validate over the client table: a validated table that has the "proxy" entry
   gives NewAuthenticator non-empty credentials. *)
Theorem C08_validate_guard : forall cs, clients_validate cs = true ->
  (exists v, In (proxy_name, v) cs) ->
  fst (new_authenticator_creds cs) <> [] /\ snd (new_authenticator_creds cs) <> [].
Proof. exact validate_gives_guard. Qed.
Print Assumptions C08_validate_guard.

(* 200 from /redeem: the code, as Redeem reads it, opens under the AUTH-CODE key to a session
   that is neither refresh- nor lifetime-expired; the body is exactly that session's tokens and
   e-mail; the provider is not called; and the caller passed both gates with POST. *)
Theorem C08_redeem_genuine : forall cfg e pre r, rq_path r = p_redeem ->
  let rs := serve cfg e pre r in
  rs_status rs = 200 ->
  exists s, e_open e (presented_code r) = Some (cfg_code_key cfg, s) /\
            (e_now e <= s_refresh_dl s)%Z /\ (e_now e <= s_lifetime_dl s)%Z /\
            rs_body rs = {| b_access := Some (s_access s); b_refresh := Some (s_refresh_tok s);
                            b_email := Some (s_email s); b_expires := Some (s_refresh_dl s - e_now e)%Z;
                            b_groups := None |} /\
            rs_calls rs = [] /\
            presented_id r = cfg_id cfg /\ presented_secret r = cfg_secret cfg /\ rq_method r = m_post.
Proof. exact redeem_genuine. Qed.
Print Assumptions C08_redeem_genuine.

(* A code that does not open at all (corrupted, truncated, forged), that opens under another key
   (the cookie key, another authenticator's key) or whose session is expired: never 200, no field
   in the body, no provider call — whoever asks. *)
Theorem C08_redeem_rejects : forall cfg e pre r, rq_path r = p_redeem ->
  (e_open e (presented_code r) = None
   \/ (exists k s, e_open e (presented_code r) = Some (k, s) /\ k <> cfg_code_key cfg)
   \/ (exists k s, e_open e (presented_code r) = Some (k, s) /\
                   ((s_refresh_dl s < e_now e)%Z \/ (s_lifetime_dl s < e_now e)%Z))) ->
  let rs := serve cfg e pre r in
  rs_status rs <> 200 /\ rs_body rs = no_body /\ rs_calls rs = [].
Proof. exact redeem_rejects_kinds. Qed.
Print Assumptions C08_redeem_rejects.

(* ... and when the caller did pass the gates the answer to such a code is 401. *)
Theorem C08_redeem_rejects_401 : forall cfg e pre r, rq_path r = p_redeem ->
  (forall s, e_open e (presented_code r) = Some (cfg_code_key cfg, s) ->
             ~ ((e_now e <= s_refresh_dl s)%Z /\ (e_now e <= s_lifetime_dl s)%Z)) ->
  let rs := serve cfg e pre r in
  rs_body rs = no_body /\ rs_calls rs = [] /\
  (rs_status rs = 401 \/ rs_status rs = 405 \/ rs_status rs = 500) /\
  (rs_ran rs <> None -> rs_status rs = 401).
Proof. exact redeem_rejects. Qed.
Print Assumptions C08_redeem_rejects_401.

(* A session sealed under the COOKIE key is not a code (guard: the two keys differ; they are two
   separate settings, SESSION_KEY and SESSION_COOKIE_SECRET, and nothing forces them apart). *)
Theorem C08_cookie_key_is_not_a_code : forall cfg e pre r s, rq_path r = p_redeem ->
  cfg_cookie_key cfg <> cfg_code_key cfg ->
  e_open e (presented_code r) = Some (cfg_cookie_key cfg, s) ->
  let rs := serve cfg e pre r in
  rs_status rs <> 200 /\ rs_body rs = no_body /\ rs_calls rs = [].
Proof. exact redeem_cookie_key_rejected. Qed.
Print Assumptions C08_cookie_key_is_not_a_code.

(* At most one provider call per request, for every request. *)
Theorem C08_at_most_one_provider_call : forall cfg e pre r,
  (length (rs_calls (serve cfg e pre r)) <= 1)%nat.
Proof. exact calls_at_most_one. Qed.
Print Assumptions C08_at_most_one_provider_call.

(* The monitor that judges the implementation's observations accepts the model's prediction for
   every request whose generator bookkeeping is consistent: the boolean specification used on
   observations is implied by the theorems above. *)
Theorem C08_monitor_accepts_model : forall now cfg pre r tab ref grp valid ids secrets kind csess leak,
  let e := mk_env now tab ref grp valid in
  let m := serve cfg e pre r in
  cfg_valid cfg = true ->
  sane cfg r e ids secrets kind csess = true ->
  (leak = true -> has_field (rs_body m) = true) ->
  holds_req now cfg r ids secrets kind csess (rs_status m) (rs_calls m) (rs_body m) leak false = true.
Proof. exact monitor_accepts_model. Qed.
Print Assumptions C08_monitor_accepts_model.
