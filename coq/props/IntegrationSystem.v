(* IntegrationSystem — end-to-end theorems about the WHOLE-SYSTEM integration model (theories/SystemAll.v):
   sso-proxy (ProxyAll.serve) and sso-auth (AuthAll.serve) composed, the identity provider and the upstream
   backends being the only scripted peers. Only statements here; each is closed by [exact <lemma>]. *)
From V Require Import Base Validators SystemAll SystemAll_proofs.

Theorem SYS_opens_only_issued : forall st v s,
  p_opens st v = Some s -> exists r, In r (st_p st) /\ pr_val r = v /\ pr_s r = s.
Proof. exact p_opens_issued. Qed.
Print Assumptions SYS_opens_only_issued.
