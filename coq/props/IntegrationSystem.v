(* IntegrationSystem — end-to-end theorems about the WHOLE-SYSTEM integration model (theories/SystemAll.v):
   sso-proxy (ProxyAll.serve) and sso-auth (AuthAll.serve) composed; the identity provider and the upstream
   backends are the only scripted peers. Every back-channel answer the proxy model consumes is computed by the
   authenticator model from ITS state and the IdP's answers; every sealed value / MAC either service accepts is
   one the other (or itself) issued earlier in the history.

   Quantification: ALL deployments (any upstreams / routes / allow rules / slugs / TTLs; any authenticator
   configuration; the client credentials configured at the proxy need not be the authenticator's), ALL
   histories (lists of events: any request to the proxy, any request to the authenticator — back-channel
   paths included —, clock ticks, IdP changes; induction over the event list, no bound), ALL IdP scripts;
   re_match / re_replace (Go's regexp) and lower (strings.ToLower) are universally quantified functions.
   Hypotheses, all explicit: [wf] the authenticator's cookie key and auth-code key differ; for the revocation
   theorems [wired] (the proxy addresses the authenticator by its configured host under provider slugs the
   authenticator routes) and a non-negative validity TTL.
   Only statements here; each is closed by [exact <lemma>]. *)
From V Require Import Base Validators SystemAll SystemAll_proofs.
From V Require ProxyCore ProxyCore_proofs ProxyAll ProxyAll_proofs AuthAll AuthAll_proofs ReqHeaders Hostmux Url.
From V Require Import CorrBase Corr_IntSystem Corr_IntSystem_proofs.
Require Coq.Strings.String.
Import Coq.Strings.String.StringSyntax.
Local Open Scope Z_scope.

(* Symbolic sealing: a cookie value opens under the proxy's key only if the proxy issued it. *)
Theorem SYS_opens_only_issued : forall st v s,
  p_opens st v = Some s -> exists r, In r (st_p st) /\ pr_val r = v /\ pr_s r = s.
Proof. exact p_opens_issued. Qed.
Print Assumptions SYS_opens_only_issued.

(* The provenance invariant holds along every history: every authenticator cookie descends from a login the
   IdP vouched for (same e-mail, lifetime = instant of that login + SESSION_LIFETIME); every code was minted
   for such a cookie's session and handed to a URI in a configured root domain that carried a MAC the PROXY
   computed; every proxy session descends from a redeemed code (same e-mail), is bound to the Host of its login
   callback, passed that upstream's login gate, and its validity deadline was set at most V before by a login,
   a positive answer, or an outage-grace extension at an instant the back channel answered 429 / 503. *)
Theorem SYS_invariant : forall re_match re_replace lower sd t0 evs st' tr,
  wf sd -> run re_match re_replace lower sd (init t0) evs = (st', tr) ->
  Inv re_match lower sd st' /\ forall s e o, In (s, e, o) tr -> Inv re_match lower sd s.
Proof.
  intros re_match re_replace lower sd t0 evs st' tr Hwf Hr.
  destruct (run_inv re_match re_replace lower sd Hwf evs (init t0) st' tr Hr (inv_init re_match lower sd t0)) as [H1 H2].
  split; [exact H1|]. intros s e o Hin. exact (proj1 (H2 s e o Hin)).
Qed.
Print Assumptions SYS_invariant.

(* SYS_identity_vouched.  Over all histories: whenever a backend receives a request, it is the backend of the
   upstream the Host routes to; on a skip-auth path no identity header is asserted; and whenever it carries
   X-Forwarded-Email e (at the moment the request is signed and forwarded) then [identity_chain]:
     - the presented cookie is one the proxy sealed, for e, bound to this Host, within its lifetime
       (login time <= now <= login time + L);
     - e passed THIS upstream's login gate;
     - it descends from a login at which the proxy redeemed a code c with the client credentials the
       authenticator is configured with (as the authenticator reads them off the proxy's own request);
     - c was minted EARLIER by the authenticator's /sign_in for a session of e and handed to a URI that passed
       validRedirectURI (in a configured root domain under every RFC 3986 reading) and carried a MAC computed
       by the PROXY, under a secret equal to the authenticator's, over that URI and a time at most 5 min old;
     - that session descends from an EARLIER code exchange at the IdP whose verified e-mail is e (C10's
       idp_vouched: token endpoint 200 + tokens, id_token payload / userinfo e-mail verified), let pass by the
       authenticator's own e-mail rule.
   (Composition of C01/C03/C06/C11/C13 with C07/C08/C09/C10.) *)
Theorem SYS_identity_vouched : forall re_match re_replace lower sd t0 evs st' tr,
  wf sd -> run re_match re_replace lower sd (init t0) evs = (st', tr) ->
  forall st q bk lk sc o bv, In (st, EvProxy q bk lk sc, OProxy o) tr -> P.oc_backend (po_out o) = Some bv ->
  exists u, P.route_ext re_match (P.dp_ups (sd_p sd)) (P.rq_host q) = Some u /\
    P.bk_target bv = Hostmux.target re_replace (P.rq_host q) (P.up_hm u) /\
    (P.skip_hit re_match u q = true -> ProxyAll_proofs.identity_absent (P.bk_handler bv)) /\
    (forall e, In e (ReqHeaders.h_get ReqHeaders.k_xfe (P.bk_handler bv)) ->
       P.skip_hit re_match u q = false /\ identity_chain lower sd st q u e).
Proof. exact identity_vouched. Qed.
Print Assumptions SYS_identity_vouched.

(* what [identity_chain] says, unfolded (so that the statement above can be read without the proofs file) *)
Theorem SYS_identity_chain_unfold : forall lower sd st q u e,
  identity_chain lower sd st q u e <->
  exists p c g v,
    presented_p sd st q = Some p /\ In p (st_p st) /\ PC.s_email (pr_s p) = e /\ pr_host p = P.rq_host q /\
    pr_login p <= st_now st /\ st_now st <= pr_login p + P.dp_L (sd_p sd) /\
    (exists ans, login_gate lower (Hostmux.u_policy (P.up_hm u)) e ans = true) /\
    In c (st_c st) /\ pr_code p = Some (cr_val c) /\ pr_grant p = Some g /\ B.s_email (cr_s c) = e /\
    (exists code, creds_presented sd (P.slug_of (sd_p sd) u) (P.rq_host q) code) /\
    cr_at c <= pr_login p /\ pr_login p <= B.s_refresh_dl (cr_s c) /\
    G.valid_redirect_uri (cr_uri c) (A.root_domains (sd_a sd)) = true /\
    (forall sch ui h port rest, Url.rfc_split (cr_uri c) sch ui h port rest ->
       G.in_domain (Url.rfc_hostname h) (A.d_proxy_domains (sd_a sd))) /\
    (exists m t, cr_sig c = Some m /\ In m (st_m st) /\ sd_psecret sd = A.d_client_secret (sd_a sd) /\
       cr_uri c ++ G.dec t = mr_uri m ++ G.dec (mr_ts m) /\ cr_at c * A.ns - t * A.ns <= G.ttl_ns) /\
    cr_grant c = Some g /\ nth_error (st_v st) g = Some v /\ vr_email v = e /\ vr_at v <= cr_at c /\
    ((exists ts, AuthAll_proofs.idp_vouched (vr_kind v) (vr_an v) (vr_idp_code v) ts /\ T.s_email ts = vr_email v) /\
     F.rule_passes lower (A.fcfg (sd_a sd)) (vr_email v) = true /\ vr_email v <> []).
Proof. intros. reflexivity. Qed.
Print Assumptions SYS_identity_chain_unfold.

(* SYS_revocation_propagates, at full strength, is FALSE of the faithful model: see [revocation_strict] in the
   proofs file — "after the grant is revoked at t (validate / refresh answer revoked from then on) no backend is
   reached on the authenticated path with that session's descendants after t + V, outage grace aside".
   Witness (SysEx.evs_inflight, confirmed against the real code by the driver's corpus): a code minted BEFORE
   the revocation is redeemed 200 s AFTER it (V = 60): /redeem consults neither the IdP nor the cookie, the code
   stays valid until the refresh deadline it carries, and the proxy session minted from it is served. *)
Theorem SYS_revocation_propagates_refuted : ~ revocation_strict.
Proof. exact revocation_strict_refuted. Qed.
Print Assumptions SYS_revocation_propagates_refuted.

(* ... and the strongest true statement: once grant g is revoked at t (by the IdP's operator, or through a
   sign-out the IdP confirmed), a request presenting a cookie of that lineage reaches a backend with identity
   at [now] only if
     now <= t + V, or
     the proxy login itself happened after t — the redemption of a code minted before t — and now <= login + V, or
     the validity deadline was set (or the due check was answered) at an instant t' in (t, now], now <= t' + V,
     at which the authenticator / the IdP was unavailable or the back channel answered 429 / 503 (outage grace). *)
Theorem SYS_revocation_propagates_partial : forall re_match re_replace lower sd t0 evs1 s1 tr1 evs2 s2 tr2 g t,
  wf sd -> wired re_match sd -> 0 <= P.dp_V (sd_p sd) ->
  run re_match re_replace lower sd (init t0) evs1 = (s1, tr1) -> SystemAll_proofs.revoked_at s1 g t ->
  run re_match re_replace lower sd s1 evs2 = (s2, tr2) ->
  forall st q bk lk sc o bv e p,
    In (st, EvProxy q bk lk sc, OProxy o) tr2 -> P.oc_backend (po_out o) = Some bv ->
    In e (ReqHeaders.h_get ReqHeaders.k_xfe (P.bk_handler bv)) ->
    presented_p sd st q = Some p -> pr_grant p = Some g ->
    st_now st <= t + P.dp_V (sd_p sd) \/
    (t < pr_login p /\ st_now st <= pr_login p + P.dp_V (sd_p sd)) \/
    (exists t', In t' (st_out (fst (proxy_step re_match re_replace lower sd st q bk lk sc))) /\
                t < t' /\ t' <= st_now st /\ st_now st <= t' + P.dp_V (sd_p sd)).
Proof. exact revocation_propagates. Qed.
Print Assumptions SYS_revocation_propagates_partial.

(* "grace only while the authenticator / IdP is unavailable, never when it answers revoked": authenticator
   reachable, IdP up, grant revoked — a request of that lineage that reaches a backend with identity had NO
   check due (both deadlines still ahead); a due refresh or revalidation ends the session. *)
Theorem SYS_revoked_answer_ends_session : forall re_match re_replace lower sd st q bk sc bv e p g t,
  wired re_match sd -> Inv re_match lower sd st ->
  P.oc_backend (proxy_outcome re_match re_replace lower sd st q bk LinkUp sc) = Some bv ->
  In e (ReqHeaders.h_get ReqHeaders.k_xfe (P.bk_handler bv)) ->
  presented_p sd st q = Some p -> pr_grant p = Some g -> SystemAll_proofs.revoked_at st g t -> i_down (st_idp st) = false ->
  st_now st <= PC.s_refresh_dl (pr_s p) /\ st_now st <= PC.s_valid_dl (pr_s p).
Proof. intros re_match re_replace lower sd st q bk sc bv e p g t Hw. exact (revoked_answer_ends_session re_match re_replace lower sd Hw st q bk sc bv e p g t). Qed.
Print Assumptions SYS_revoked_answer_ends_session.

(* how a grant gets revoked: the operator at the IdP ... *)
Theorem SYS_idp_revocation : forall re_match re_replace lower sd st g,
  SystemAll_proofs.revoked_at (fst (step re_match re_replace lower sd st (EvIdp (IRevoke g)))) g (st_now st).
Proof. exact idp_revoke_revokes. Qed.
Print Assumptions SYS_idp_revocation.

(* ... or SYS_signout_propagates: after a successful sign-out at the authenticator for a session (C19: the cookie
   is cleared only after the IdP confirmed the revocation of the session's own token; the IdP honours its own
   revocation), every proxy session minted from that authenticator session's grant stops being served at its
   next revalidation, i.e. at most V after the sign-out — with the same two exceptions as above (a code minted
   before the sign-out and redeemed after it; outage grace). *)
Theorem SYS_signout_propagates : forall re_match re_replace lower sd t0 evs1 s1 tr1 q0 x0 sc0 a g tok evs2 s2 tr2,
  wf sd -> wired re_match sd -> 0 <= P.dp_V (sd_p sd) ->
  run re_match re_replace lower sd (init t0) evs1 = (s1, tr1) ->
  AuthAll_proofs.has_clear (A.r_sess_ops (auth_resp lower sd s1 q0 x0 sc0)) ->
  In (A.CRevoke tok) (A.r_calls (auth_resp lower sd s1 q0 x0 sc0)) ->
  auth_pres sd s1 q0 = Some a -> ar_grant a = Some g ->
  run re_match re_replace lower sd (fst (step re_match re_replace lower sd s1 (EvAuth q0 x0 sc0))) evs2 = (s2, tr2) ->
  forall st q bk lk sc o bv e p,
    In (st, EvProxy q bk lk sc, OProxy o) tr2 -> P.oc_backend (po_out o) = Some bv ->
    In e (ReqHeaders.h_get ReqHeaders.k_xfe (P.bk_handler bv)) ->
    presented_p sd st q = Some p -> pr_grant p = Some g ->
    st_now st <= st_now s1 + P.dp_V (sd_p sd) \/
    (st_now s1 < pr_login p /\ st_now st <= pr_login p + P.dp_V (sd_p sd)) \/
    (exists t', In t' (st_out (fst (proxy_step re_match re_replace lower sd st q bk lk sc))) /\
                st_now s1 < t' /\ t' <= st_now st /\ st_now st <= t' + P.dp_V (sd_p sd)).
Proof. exact signout_propagates. Qed.
Print Assumptions SYS_signout_propagates.

(* SYS_no_cross_talk, first half, is FALSE of the faithful model: "a code minted for upstream / redirect A is
   never redeemable into a proxy session bound to host B" — [code_bound_to_host] in the proofs file.
   Witness (SysEx.evs_cross, confirmed against the real code by the driver's corpus): the authenticator's /redeem
   never looks at redirect_uri (sso.go:108 "TODO: remove ... unused by authenticator"), codes are sealed sessions
   valid under every provider slug, so a code handed to app.ex.com's callback is redeemed by the callback of
   app2.ex.com into a session bound to app2.ex.com. *)
Theorem SYS_no_cross_talk_code_refuted : ~ code_bound_to_host.
Proof. exact code_bound_to_host_refuted. Qed.
Print Assumptions SYS_no_cross_talk_code_refuted.

(* ... and what IS true (with SYS_identity_vouched: the session on B still needs the IdP-vouched e-mail to pass
   B's own login gate): a proxy session yields identity headers only on the Host of the login callback it
   descends from, at the backend of the upstream that Host routes to, whichever cookie a client presents where. *)
Theorem SYS_no_cross_talk_partial : forall re_match re_replace lower sd t0 evs st' tr,
  wf sd -> run re_match re_replace lower sd (init t0) evs = (st', tr) ->
  forall st q bk lk sc o bv p, In (st, EvProxy q bk lk sc, OProxy o) tr -> P.oc_backend (po_out o) = Some bv ->
  ReqHeaders.h_get ReqHeaders.k_xfe (P.bk_handler bv) <> [] -> presented_p sd st q = Some p ->
  P.rq_host q = pr_host p /\
  exists u, P.route_ext re_match (P.dp_ups (sd_p sd)) (pr_host p) = Some u /\
            P.bk_target bv = Hostmux.target re_replace (pr_host p) (P.up_hm u) /\
            (exists ans, login_gate lower (Hostmux.u_policy (P.up_hm u)) (PC.s_email (pr_s p)) ans = true).
Proof. exact session_host_bound. Qed.
Print Assumptions SYS_no_cross_talk_partial.

(* Non-vacuity: a concrete two-upstream deployment (SysEx) and histories that
   (1) log in through both services and reach the backend with the IdP-vouched identity;
   (2) after a revocation at the IdP lose it at the next revalidation (403, no backend);
   (3) after a confirmed sign-out at the authenticator lose it likewise;
   and the deployment satisfies [wf] and [wired]. *)
Theorem SYS_nonvacuous :
  SysEx.last_view SysEx.evs_served = ([bs "bob@ex.com"], 200%N) /\
  (SysEx.last_view SysEx.evs_revoked = ([], 403%N) /\ SystemAll_proofs.revoked_at (fst (SysEx.runex SysEx.evs_revoked)) 0 1100) /\
  (SysEx.last_view SysEx.evs_signout = ([], 403%N) /\ SystemAll_proofs.revoked_at (fst (SysEx.runex SysEx.evs_signout)) 0 1000) /\
  wf SysEx.sd /\ wired SysEx.ex_match SysEx.sd.
Proof. exact (conj ex_login_reaches_backend (conj ex_revocation_ends_it (conj ex_signout_ends_it (conj SysEx.wf_ex ex_wired)))). Qed.
Print Assumptions SYS_nonvacuous.

(* ADAPTER (back channel).  The proxy model's requests are url.Values.Encode texts; the authenticator model reads
   them with its concrete ParseForm. For byte strings the round trip is the identity: the authenticator reads off the
   proxy's redeem request exactly the client id, the client secret and the code the proxy put in, without a parse
   error — so [creds_presented] in SYS_identity_vouched says the two services are configured with the SAME id and
   secret, and [redeemed_code] is the code the browser presented. (The safety theorems above do not depend on this.) *)
Theorem SYS_adapter_redeem : forall sd slug host code,
  bytes (sd_pid sd) -> bytes (sd_psecret sd) -> bytes code -> bytes (callback_uri sd host) ->
  let r := A.inner (rq_redeem sd slug host code) B.p_redeem in
  B.presented_id r = (if B.is_nil (sd_pid sd) then [] else sd_pid sd) /\
  B.presented_secret r = (if B.is_nil (sd_psecret sd) then [] else sd_psecret sd) /\
  B.presented_code r = code /\ snd (B.compute_form r) = false.
Proof. exact redeem_request_faithful. Qed.
Print Assumptions SYS_adapter_redeem.

Theorem SYS_adapter_credentials : forall sd slug host code,
  bytes (sd_pid sd) -> bytes (sd_psecret sd) -> bytes code -> bytes (callback_uri sd host) ->
  creds_presented sd slug host code -> sd_pid sd = A.d_client_id (sd_a sd) /\ sd_psecret sd = A.d_client_secret (sd_a sd).
Proof. exact creds_presented_bytes. Qed.
Print Assumptions SYS_adapter_credentials.

(* SYS_monitor_accepts_model.  The monitor Corr_IntSystem.judge applies to the REAL services' observations —
   [holds_gen false]: every clause that is proved above, stated on observations and on the generator's own
   bookkeeping of lineages (identity only for an IdP-vouched, code-redeemed, gate-passed, host-bound, live
   session; revocation / sign-out bounded by V with the in-flight-code and outage exceptions; codes only for
   live, IdP-confirmed, unrevoked sessions and in-domain redirect URIs; session cookies only from an IdP login or
   as a re-save; token documents only for callers with the client credentials) — accepts the observation the
   model itself predicts ([model_msteps]: observations AND lineages read off the model's state), for EVERY
   deployment, history, IdP script and oracle: an alarm is never an artefact of the monitor being stricter than
   the theorems. This ([strict = false]) is the monitor the judgement uses; the two clauses [holds_gen true] adds are
   exactly the two refuted wish-list clauses (stated by none of C01-C20: observations, not violations). *)
Theorem SYS_monitor_accepts_model : forall re_match re_replace lower sd t0 evs,
  wf sd -> wired re_match sd -> 0 <= P.dp_V (sd_p sd) ->
  holds_gen re_match re_replace lower sd false (model_msteps re_match re_replace lower sd t0 evs) = true.
Proof. exact monitor_accepts_model. Qed.
Print Assumptions SYS_monitor_accepts_model.

(* ... and it is not vacuous: at full strength it accepts the model's login / revocation / sign-out histories
   (one of which reaches a backend) and rejects exactly the two witnesses of the refuted clauses, which the
   proved part accepts. *)
Theorem SYS_monitor_discriminates :
  let ms evs := model_msteps SysEx.ex_match SysEx.ex_replace lower_ascii SysEx.sd 1000 evs in
  let h strict evs := holds_gen SysEx.ex_match SysEx.ex_replace lower_ascii SysEx.sd strict (ms evs) in
  h true SysEx.evs_served = true /\ h true SysEx.evs_revoked = true /\ h true SysEx.evs_signout = true /\
  h true SysEx.evs_cross = false /\ h false SysEx.evs_cross = true /\
  h true SysEx.evs_inflight = false /\ h false SysEx.evs_inflight = true /\
  existsb (fun m => match ms_obs m with OP o => negb (nilb (op_seen o)) | _ => false end) (ms SysEx.evs_served) = true.
Proof. exact monitor_discriminates. Qed.
Print Assumptions SYS_monitor_discriminates.
