(* C06 — Proxy login callback is bound to the browser's own flow and returns same-site.
   Only statements; each is closed by [exact <lemma>] (proofs/Callback_proofs.v, ReqUri_proofs.v,
   Corr_C06_proofs.v).  Models: theories/Callback.v (OAuthStart / OAuthCallback, symbolic sealing,
   the proxy as a history machine) and theories/ReqUri.v (request-target -> recorded redirect URI). *)
From V Require Import Base Callback Callback_proofs ReqUri ReqUri_proofs CorrBase Corr_C06 Corr_C06_proofs.

(* ------------------------------------------------------------------ flow binding *)

(* The callback decision, for every request: a session is set (CbOk) exactly when state and CSRF
   cookie are two DIFFERENT strings that both spell ciphertexts under the proxy's key and open to
   the same record, redeem succeeded with a non-empty e-mail, a validator passed; the session is
   (redeemed e-mail, req.Host) and Location is the record's redirect URI.  In every other case the
   answer is an error page (CbPage), which by construction carries no session cookie. *)
Theorem C06_callback_decision : forall canon strict key r s loc,
  oauth_callback canon strict key r = CbOk s loc <-> accepts canon strict key r s loc.
Proof. exact callback_ok_iff. Qed.
Print Assumptions C06_callback_decision.

Theorem C06_no_session_otherwise : forall canon strict key r,
  (forall s loc, ~ accepts canon strict key r s loc) -> exists st, oauth_callback canon strict key r = CbPage st.
Proof. exact callback_page_otherwise. Qed.
Print Assumptions C06_no_session_otherwise.

(* Over ALL histories of the proxy (flow starts, session re-saves, callbacks — by induction over
   arbitrary event lists) in which clients present only strings they could have built (any junk,
   anything sealed under other keys, any respelling, but under the proxy's key only what the proxy
   issued): a callback sets a session only if state and cookie spell two values ISSUED BY THIS PROXY,
   are different strings (and, with canonical decoding, different ciphertexts: different nonces),
   redeem succeeded with a non-empty e-mail, a validator passed, the saved session has
   upstream = Host, both open to ONE flow record f that this proxy started, and Location = f's
   recorded URI.

   This full statement holds when the callback refuses a state record with an empty session id
   ([strict = true]: the three-line repair proposed in docs/notes/C06.md) ... *)
Theorem C06_session_only_for_own_flow : forall canon key evs r s loc,
  admissible canon true key init_world (evs ++ [ECallback r]) = true ->
  oauth_callback canon true key r = CbOk s loc ->
  let w := run canon true key init_world evs in
  exists v1 n1 f v2 n2 email,
    In f (w_flows w) /\
    cb_state r = WEnc v1 (Seal key n1 (PFlow f)) /\ cb_cookie r = Some (WEnc v2 (Seal key n2 (PFlow f))) /\
    In (Seal key n1 (PFlow f)) (w_issued w) /\ In (Seal key n2 (PFlow f)) (w_issued w) /\
    WEnc v1 (Seal key n1 (PFlow f)) <> WEnc v2 (Seal key n2 (PFlow f)) /\
    (canon = true -> v1 = 0 /\ v2 = 0 /\ n1 <> n2) /\
    cb_code r <> [] /\ cb_redeem r = RedeemOk email /\ email <> [] /\ cb_valid r = true /\
    s = {| s_email := email; s_upstream := cb_host r |} /\ loc = f_redirect f.
Proof. exact session_only_for_own_flow. Qed.
Print Assumptions C06_session_only_for_own_flow.

(* "The browser's OWN flow": both values were produced by one OAuthStart run, the one that drew the
   flow's id (in the model a start seals the cookie under nonce = id and the state under id + 1, ids
   are fresh).  The freshness of ids is what the code must provide; the correspondence monitor checks
   it on the real OAuthStart runs of every case (clause k_own_start). *)
Theorem C06_state_and_cookie_from_one_start : forall canon key evs r s loc,
  admissible canon true key init_world (evs ++ [ECallback r]) = true ->
  oauth_callback canon true key r = CbOk s loc ->
  exists f v1 n1 v2 n2,
    In f (w_flows (run canon true key init_world evs)) /\
    cb_state r = WEnc v1 (Seal key n1 (PFlow f)) /\ cb_cookie r = Some (WEnc v2 (Seal key n2 (PFlow f))) /\
    (n1 = f_sid f \/ n1 = f_sid f + 1) /\ (n2 = f_sid f \/ n2 = f_sid f + 1) /\
    (canon = true -> n1 <> n2).
Proof. exact state_and_cookie_from_one_start. Qed.
Print Assumptions C06_state_and_cookie_from_one_start.

(* ... and is FALSE of the faithful model of the unchanged tree ([strict = false]; known finding
   C06-K2): two sealed SESSIONS of this proxy, which open "as" the empty record, pass as state and
   CSRF cookie.  What does hold today, for every history: own flow, or that confusion with an empty
   Location. *)
Theorem C06_session_only_for_own_flow_partial : forall canon strict key evs r s loc,
  admissible canon strict key init_world (evs ++ [ECallback r]) = true ->
  oauth_callback canon strict key r = CbOk s loc ->
  let w := run canon strict key init_world evs in
  exists v1 n1 p1 v2 n2 p2 email,
    cb_state r = WEnc v1 (Seal key n1 p1) /\ cb_cookie r = Some (WEnc v2 (Seal key n2 p2)) /\
    In (Seal key n1 p1) (w_issued w) /\ In (Seal key n2 p2) (w_issued w) /\
    WEnc v1 (Seal key n1 p1) <> WEnc v2 (Seal key n2 p2) /\
    (canon = true -> v1 = 0 /\ v2 = 0 /\ n1 <> n2) /\
    cb_code r <> [] /\ cb_redeem r = RedeemOk email /\ email <> [] /\ cb_valid r = true /\
    s = {| s_email := email; s_upstream := cb_host r |} /\
    own_flow_or_confusion strict w p1 p2 loc.
Proof. exact session_only_for_own_flow_partial. Qed.
Print Assumptions C06_session_only_for_own_flow_partial.

Theorem C06_session_only_for_own_flow_refuted :
  exists canon key evs r s loc,
    admissible canon false key init_world (evs ++ [ECallback r]) = true /\
    oauth_callback canon false key r = CbOk s loc /\
    ~ exists f v n, In f (w_flows (run canon false key init_world evs)) /\ cb_state r = WEnc v (Seal key n (PFlow f)).
Proof. exact session_only_for_own_flow_refuted. Qed.
Print Assumptions C06_session_only_for_own_flow_refuted.

(* Flows started by different requests are different records (fresh ids) even for the same URL,
   and flow A's state with flow B's cookie is always answered with an error page. *)
Theorem C06_cross_flow_rejected : forall canon strict key evs i j fa fb r v1 n1 v2 n2,
  let w := run canon strict key init_world evs in
  nth_error (w_flows w) i = Some fa -> nth_error (w_flows w) j = Some fb -> i <> j ->
  cb_state r = WEnc v1 (Seal key n1 (PFlow fa)) ->
  cb_cookie r = Some (WEnc v2 (Seal key n2 (PFlow fb))) ->
  exists st, oauth_callback canon strict key r = CbPage st.
Proof. exact cross_flow_rejected. Qed.
Print Assumptions C06_cross_flow_rejected.

(* "different strings" means "different ciphertexts" when decoding is canonical ... *)
Theorem C06_distinct_ciphertexts : forall strict key r s loc,
  oauth_callback true strict key r = CbOk s loc ->
  exists c1 c2, cb_state r = WEnc 0 c1 /\ cb_cookie r = Some (WEnc 0 c2) /\ c1 <> c2.
Proof. exact distinct_ciphertexts. Qed.
Print Assumptions C06_distinct_ciphertexts.

(* ... and does not with today's non-strict base64 (DESIGN §7-D1; known finding C06-K1): one
   ciphertext, spelled twice, passes the inequality test. *)
Theorem C06_distinct_ciphertexts_refuted :
  exists key c r s loc,
    oauth_callback false false key r = CbOk s loc /\ cb_state r = WEnc 1 c /\ cb_cookie r = Some (WEnc 0 c).
Proof. exact distinct_ciphertexts_refuted. Qed.
Print Assumptions C06_distinct_ciphertexts_refuted.

(* ------------------------------------------------------------------ same-site *)

(* For EVERY byte string t beginning with "/" that the chain net/http -> health check -> host router
   -> gorilla (UseEncodedPath, path cleaning) passes to Proxy: it is routed under the Host header, a
   configured host, and the URI OAuthStart records begins with "/", its second byte is neither "/"
   nor "\", and it contains no control byte. *)
Theorem C06_same_site : forall hosts hh t h rec,
  has_prefix t [47] = true -> route hosts hh t = RProxy h rec ->
  h = hh /\ mem_str hh hosts = true /\ same_site_rel rec = true.
Proof. exact route_same_site. Qed.
Print Assumptions C06_same_site.

(* ... and it is the same path after %-decoding and the same query — byte for byte, except that the
   JSON codec inside the sealed state replaces bytes that are not valid UTF-8 by U+FFFD
   ([utf8_coerce]; the identity on valid UTF-8). *)
Theorem C06_same_path_query : forall hosts hh t h rec,
  has_prefix t [47] = true -> bytes t -> route hosts hh t = RProxy h rec ->
  let '(tp, tq) := cut_at 63 t in let '(rp, rq) := cut_at 63 rec in
  rq = option_map utf8_coerce tq /\ unescape rp = unescape tp /\ unescape tp <> None.
Proof. exact route_same_path_query. Qed.
Print Assumptions C06_same_path_query.

(* Absolute-form targets (scheme://name[:port]...): what reaches Proxy is routed under the host the
   target names, that host is a configured upstream host, and the recorded URI is
   scheme "://" that-host followed by a same-site relative part.
   _partial: authorities with user-info, IP literals or %-escapes are outside the model (PUnmodelled);
   the correspondence monitor still judges them on the real code. *)
Theorem C06_same_site_absolute_partial : forall hosts hh t u h rec,
  parse_request_uri t = PUrl u -> u_scheme u <> [] -> route hosts hh t = RProxy h rec ->
  h = u_host u /\ mem_str h hosts = true /\ simple_authority h = true /\
  exists tail, rec = u_scheme u ++ [58; 47; 47] ++ h ++ tail /\ same_site_rel tail = true.
Proof. exact route_same_site_absolute. Qed.
Print Assumptions C06_same_site_absolute_partial.

(* The 301 that gorilla's path cleaning answers to an origin-form target (e.g. "//evil.com") is
   same-site as well. *)
Theorem C06_clean_redirect_same_site : forall hosts hh t loc,
  has_prefix t [47] = true -> route hosts hh t = RCleanRedirect loc -> same_site_rel loc = true.
Proof. exact clean_redirect_same_site. Qed.
Print Assumptions C06_clean_redirect_same_site.

(* the two string lemmas the above rests on, over all byte strings *)
Theorem C06_clean_no_double_slash : forall p, nds (clean_path p) = true.
Proof. exact clean_path_no_double_slash. Qed.
Print Assumptions C06_clean_no_double_slash.

Theorem C06_escape_no_backslash : forall s, ~ In 92 (escape s).
Proof. exact escape_no_backslash. Qed.
Print Assumptions C06_escape_no_backslash.

(* Composition: in every admissible history whose flows were started by origin-form requests, the
   Location of an accepted callback is same-site relative (or empty, in the type-confusion case). *)
Theorem C06_returns_same_site : forall hosts hh canon strict key evs r s loc,
  (forall u, In (EStart u) evs -> exists t h, has_prefix t [47] = true /\ route hosts hh t = RProxy h u) ->
  admissible canon strict key init_world (evs ++ [ECallback r]) = true ->
  oauth_callback canon strict key r = CbOk s loc ->
  same_site_rel loc = true \/ loc = [].
Proof. exact returns_same_site. Qed.
Print Assumptions C06_returns_same_site.

(* ------------------------------------------------------------------ monitor <-> model *)
(* The monitors used by Corr_C06.judge on the implementation's observations accept every observation
   the model predicts: judgement 0, or 101/102 exactly on the signatures of the known findings. *)
Theorem C06_monitor_accepts_model_target : forall hosts hh t o,
  target_mismatch hosts hh t o = false -> route hosts hh t <> RUnmodelled ->
  target_holds hosts hh t o = true.
Proof. exact target_model_holds. Qed.
Print Assumptions C06_monitor_accepts_model_target.

Theorem C06_monitor_accepts_model_flow : forall canon strict starts issued r redir o,
  wf_inputs starts issued redir (cb_host r) ->
  flow_mismatch canon strict r redir o = false ->
  let j := judge (CFlow canon strict starts issued r redir o) in
  j = 0 \/ (j = 101 /\ canon = false) \/ (j = 102 /\ strict = false).
Proof. exact flow_model_judged. Qed.
Print Assumptions C06_monitor_accepts_model_flow.
