(* C16 — Request coalescing never changes an answer.
   Statements only; each is closed by [exact <lemma>]. Generic layer: every theorem quantifies
   over ALL event lists accepted by the LTS of singleflight.Do ([reach tr s]), i.e. over all
   interleavings of any number of callers over any number of keys, for any result type R. *)
From V Require Import Base GoQuote GoQuote_proofs Singleflight Singleflight_proofs CorrBase Corr_C16 Corr_C16_proofs.

(* For each key at most one execution is in flight (fn running, or finished and not yet cleaned
   up): executions of one key never overlap. *)
Theorem C16_one_at_a_time : forall (R : Type) (tr : list (event R)) s t1 t2 cl1 cl2,
  reach tr s -> leads s t1 -> leads s t2 ->
  callof s t1 = Some cl1 -> callof s t2 = Some cl2 -> c_key cl1 = c_key cl2 -> t1 = t2.
Proof. exact @one_at_a_time. Qed.
Print Assumptions C16_one_at_a_time.

(* A caller arriving while an execution of its key is in flight never runs its own fn: it joins
   that execution (and is counted). A fresh caller can always enter. *)
Theorem C16_enter_joins_inflight : forall (R : Type) (tr : list (event R)) s t1 cl1 t s',
  reach tr s -> leads s t1 -> callof s t1 = Some cl1 ->
  step s (Enter t (c_key cl1)) = Some s' ->
  thread s' t = Some (Following t1) /\
  exists cl', callof s' t1 = Some cl' /\ c_dups cl' = S (c_dups cl1) /\ c_result cl' = c_result cl1.
Proof. exact @enter_joins_inflight. Qed.
Print Assumptions C16_enter_joins_inflight.

Theorem C16_enter_enabled : forall (R : Type) (tr : list (event R)) s t k,
  reach tr s -> thread s t = None -> exists s', step s (Enter t k) = Some s'.
Proof. exact @enter_enabled. Qed.
Print Assumptions C16_enter_enabled.

(* A caller that joined call c returns exactly the result c's leader stored — the unique
   FnReturn of that leader in the history — with count 0; the leader returns the same result. *)
Theorem C16_joined_get_leader_result : forall (R : Type) (tr : list (event R)) s t c r n,
  reach tr s -> thread s t = Some (Returned c r n) -> c <> t ->
  n = 0%nat /\ In (FnReturn c r) tr /\ (forall r', In (FnReturn c r') tr -> r' = r) /\
  (forall c' r' n', thread s c = Some (Returned c' r' n') -> c' = c /\ r' = r).
Proof. exact @joined_get_leader_result. Qed.
Print Assumptions C16_joined_get_leader_result.

Theorem C16_leader_gets_own_result : forall (R : Type) (tr : list (event R)) s t r n,
  reach tr s -> thread s t = Some (Returned t r n) ->
  In (FnReturn t r) tr /\ forall r', In (FnReturn t r') tr -> r' = r.
Proof. exact @leader_gets_own_result. Qed.
Print Assumptions C16_leader_gets_own_result.

(* The count told to the leader is the number of callers that joined its call. *)
Theorem C16_leader_count : forall (R : Type) (tr : list (event R)) s t r n,
  reach tr s -> thread s t = Some (Returned t r n) ->
  exists js, n = length js /\ NoDup js /\ forall t', In t' js <-> joined s t' t.
Proof. exact @leader_count. Qed.
Print Assumptions C16_leader_count.

(* Once the leader has cleaned up, the next caller of that key executes afresh (new call object,
   empty result slot, zero count); more generally whenever no execution of k is in flight. *)
Theorem C16_fresh_after_cleanup : forall (R : Type) (tr : list (event R)) t s cl t',
  reach (tr ++ [Cleanup t]) s -> callof s t = Some cl -> thread s t' = None ->
  exists s', step s (Enter t' (c_key cl)) = Some s' /\ thread s' t' = Some Leading /\
             callof s' t' = Some (new_call (c_key cl)) /\ t' <> t.
Proof. exact @fresh_after_cleanup. Qed.
Print Assumptions C16_fresh_after_cleanup.

Theorem C16_fresh_when_not_inflight : forall (R : Type) (tr : list (event R)) s k t,
  reach tr s -> (forall t1 cl1, leads s t1 -> callof s t1 = Some cl1 -> c_key cl1 <> k) ->
  thread s t = None ->
  exists s', step s (Enter t k) = Some s' /\ thread s' t = Some Leading /\ callof s' t = Some (new_call k).
Proof. exact @fresh_when_not_inflight. Qed.
Print Assumptions C16_fresh_when_not_inflight.

(* Two callers share a call only if they entered with equal keys. *)
Theorem C16_distinct_keys_never_merge : forall (R : Type) (tr : list (event R)) s t1 t2 c k1 k2,
  reach tr s -> in_call s t1 c -> in_call s t2 c ->
  In (Enter t1 k1) tr -> In (Enter t2 k2) tr -> k1 = k2.
Proof. exact @distinct_keys_never_merge. Qed.
Print Assumptions C16_distinct_keys_never_merge.

(* Refinement: on every accepted event list, what a returned caller got in the model (did its fn
   run, which result, which count) is what the abstract coalescing specification — the monitor
   applied to the implementation's observations — demands. *)
Theorem C16_refines_coalescing_spec : forall (R : Type) (tr : list (event R)) s t,
  reach tr s -> model_outcome s t <> None -> spec_outcome tr t = model_outcome s t.
Proof. exact @model_refines_spec. Qed.
Print Assumptions C16_refines_coalescing_spec.

(* ---------------- wrapper layer (both services) ---------------- *)

(* Go's %q (strconv.Quote; a []string printed as the quoted elements between [ and ]) is
   self-delimiting and injective on byte strings, for EVERY IsPrint table: this is what makes the
   repaired keys unambiguous. *)
Theorem C16_quote_self_delimiting : forall (isprint : N -> bool) a b x y,
  bytes a -> bytes b -> go_quote isprint a ++ x = go_quote isprint b ++ y -> a = b /\ x = y.
Proof. exact go_quote_cut. Qed.
Print Assumptions C16_quote_self_delimiting.

Theorem C16_quoted_list_self_delimiting : forall (isprint : N -> bool) l1 l2 x y,
  all_bytes l1 -> all_bytes l2 -> go_qlist isprint l1 ++ x = go_qlist isprint l2 ++ y -> l1 = l2 /\ x = y.
Proof. exact go_qlist_cut. Qed.
Print Assumptions C16_quoted_list_self_delimiting.

(* KEYS ARE INJECTIVE, without any guard, for all e-mails, tokens and group lists (byte strings):
   for well-formed questions of one service, equal composite keys imply the same method, the same
   subject — the token; for Revoke the access AND the refresh token; for the group questions the
   e-mail and the SORTED group list, i.e. the same groups in any order (with multiplicity) — and,
   for the proxy's ValidateSessionState / RefreshSession, the same sorted allowed groups.
   (Before 4af0640 / 8276927 / 7e98525 this needed a guard and was refuted without it:
   known findings C16-K2 and C16-K3, now fixed.) *)
Theorem C16_keys_injective : forall q1 q2,
  wf_question q1 = true -> wf_question q2 = true -> q_bytes q1 -> q_bytes q2 ->
  service_of (q_endpoint q1) = service_of (q_endpoint q2) ->
  wrapper_key q1 = wrapper_key q2 ->
  q_endpoint q1 = q_endpoint q2 /\ subject_of q1 = subject_of q2 /\ allowed_of q1 = allowed_of q2.
Proof. exact keys_injective. Qed.
Print Assumptions C16_keys_injective.

(* ... and exactly those: questions with the same method, subject and allowed groups share a key
   (so "the same set of groups in any order" is meant to merge, and does). *)
Theorem C16_keys_complete : forall q1 q2,
  wf_question q1 = true -> wf_question q2 = true ->
  q_endpoint q1 = q_endpoint q2 -> subject_of q1 = subject_of q2 -> allowed_of q1 = allowed_of q2 ->
  wrapper_key q1 = wrapper_key q2.
Proof. exact keys_complete. Qed.
Print Assumptions C16_keys_complete.

(* regression: the pairs that used to collide have different keys now.
   (historical: C16_keys_injective_unguarded_refuted, C16_profile_groups_guarded) *)
Theorem C16_old_collisions_now_distinct :
  wrapper_key (QGroups AGroupMembership [bA] [[bB; colon; bC]]) <> wrapper_key (QGroups AGroupMembership [bA; colon; bB] [[bC]]) /\
  wrapper_key (QGroups PUserGroups [bA] [[bB; comma; bC]]) <> wrapper_key (QGroups PUserGroups [bA] [[bB]; [bC]]) /\
  wrapper_key (QGroups AGroupMembership [bA] []) <> wrapper_key (QGroups AGroupMembership [bA] [[]]).
Proof. exact old_collisions_now_distinct. Qed.
Print Assumptions C16_old_collisions_now_distinct.

(* Callers that share an execution asked the same method about the same subject and the same
   allowed groups. *)
Theorem C16_merged_same_subject : forall tr w t1 t2 c q1 q2,
  wreach tr w -> in_call (w_g w) t1 c -> in_call (w_g w) t2 c ->
  In (WEnter t1 q1) tr -> In (WEnter t2 q2) tr ->
  wf_question q1 = true -> wf_question q2 = true -> q_bytes q1 -> q_bytes q2 ->
  service_of (q_endpoint q1) = service_of (q_endpoint q2) ->
  q_endpoint q1 = q_endpoint q2 /\ subject_of q1 = subject_of q2 /\ allowed_of q1 = allowed_of q2.
Proof. exact merged_same_subject. Qed.
Print Assumptions C16_merged_same_subject.

(* "A merged caller ends up with the same session updates as the caller whose call ran":
   FALSE on today's code (known finding C16-K1) ...
   C16_follower_session : same_updates_claim  — not provable; refuted: *)
Theorem C16_follower_session_refuted : ~ same_updates_claim.
Proof. exact follower_session_refuted. Qed.
Print Assumptions C16_follower_session_refuted.

(* ... with a concrete run for every session-keyed method of both services: the leader's record
   has the new token / deadline / groups / reset grace start, the merged caller got `true` and
   keeps its stale record. *)
Theorem C16_follower_session_witness : forall e, endpoint_kind e = KSession ->
  exists w, wreach (w_trace e) w /\
    thread (w_g w) 1%nat = Some (Returned 1%nat (VBool true, 0) 1%nat) /\
    thread (w_g w) 2%nat = Some (Returned 1%nat (VBool true, 0) 0%nat) /\
    wsession w 1%nat = Some (apply_update w_update w_session) /\
    wsession w 2%nat = Some w_session /\
    apply_update w_update w_session <> w_session.
Proof. exact follower_session_refuted_at. Qed.
Print Assumptions C16_follower_session_witness.

(* What IS true: the merged caller gets the same (value, error) as the leader, and ... *)
Theorem C16_follower_verdict_partial : forall tr w t c r n,
  wreach tr w -> thread (w_g w) t = Some (Returned c r n) -> c <> t ->
  n = 0%nat /\ (exists u, In (WFnReturn c r u) tr) /\
  (forall r' u', In (WFnReturn c r' u') tr -> r' = r) /\
  (forall c' r' n', thread (w_g w) c = Some (Returned c' r' n') -> c' = c /\ r' = r) /\
  (forall q q', In (WEnter t q) tr -> In (WEnter c q') tr -> wrapper_key q = wrapper_key q').
Proof. exact follower_verdict. Qed.
Print Assumptions C16_follower_verdict_partial.

(* ... the exact gap: its record is left as it entered, the leader's carries the update. *)
Theorem C16_follower_session_gap : forall tr w t c q qc s0 r n u,
  wreach tr w -> In (WEnter t q) tr -> In (WEnter c qc) tr ->
  q_session q = Some s0 -> q_session qc = Some s0 ->
  thread (w_g w) t = Some (Returned c r n) -> c <> t -> In (WFnReturn c r u) tr ->
  wsession w t = Some s0 /\ wsession w c = Some (apply_update u s0).
Proof. exact follower_session_gap. Qed.
Print Assumptions C16_follower_session_gap.

(* The monitor used on the implementation's observations accepts the wrapper model's own
   prediction: subject clause (no guard), session clause for the caller whose call ran. *)
Theorem C16_monitor_subject_accepts_model : forall tr w t svc,
  wreach tr w ->
  (forall q, In q (questions tr) -> wf_question q = true /\ q_bytes q /\ service_of (q_endpoint q) = svc) ->
  thread (w_g w) t <> None -> subject_clause tr t = true.
Proof. exact monitor_subject_accepts_model. Qed.
Print Assumptions C16_monitor_subject_accepts_model.

Theorem C16_monitor_session_accepts_leader : forall tr w t r n q s0,
  wreach tr w -> thread (w_g w) t = Some (Returned t r n) ->
  In (WEnter t q) tr -> q_session q = Some s0 -> session_clause tr t (wsession w t) = true.
Proof. exact monitor_session_accepts_leader. Qed.
Print Assumptions C16_monitor_session_accepts_leader.

(* Attribution (Corr_C16.judge): on every run of the wrapper model the subject clause holds (above);
   a failing session clause occurs only for a merged follower of a session-keyed call (C16-K1) ... *)

Theorem C16_monitor_session_failure_explained : forall tr w t c r n,
  wreach tr w -> thread (w_g w) t = Some (Returned c r n) ->
  session_clause tr t (wsession w t) = true \/ (is_follower tr t = true /\ has_session_question tr t = true).
Proof. exact monitor_session_failure_explained. Qed.
Print Assumptions C16_monitor_session_failure_explained.

(* ... so a case whose observation equals the model's prediction is attributed to C16-K1 or holds,
   while a failing clause without that signature — any merge of different subjects, for one —
   keeps it a VIOLATION. *)
Theorem C16_monitor_failures_explained : forall tr w t c r n svc,
  wreach tr w ->
  (forall q, In q (questions tr) -> wf_question q = true /\ q_bytes q /\ service_of (q_endpoint q) = svc) ->
  thread (w_g w) t = Some (Returned c r n) ->
  clause_failures_explained tr t (wsession w t) = true.
Proof. exact monitor_failures_explained. Qed.
Print Assumptions C16_monitor_failures_explained.

(* ---------------- several wrapper objects; the execution log ---------------- *)

(* A deployment is a family of wrapper objects, each with its own group (proxy.New: one per
   upstream; auth: one per provider). Each object's state is a run of the single-wrapper LTS on
   exactly the events that happened at that object, so every theorem above holds per object ... *)
Theorem C16_wrappers_independent : forall tr m,
  mreach tr m -> forall a, wrun winit (project a tr) = Some (component m a).
Proof. exact mreach_project. Qed.
Print Assumptions C16_wrappers_independent.

(* ... and an object knows only the callers that called IT: callers of distinct wrapper objects
   never share a call. *)
Theorem C16_distinct_wrappers_never_share : forall tr m a t,
  mreach tr m -> thread (w_g (component m a)) t <> None -> exists q, In (a, WEnter t q) tr.
Proof. exact wrapper_knows_only_its_callers. Qed.
Print Assumptions C16_distinct_wrappers_never_share.

(* Since 8276927 the proxy's ValidateSessionState / RefreshSession keys contain the sorted allowed
   groups: questions that differ in the group set asked about never share a key
   (was C16_allowed_groups_not_in_key_refuted, known finding C16-K3, now fixed) ... *)
Theorem C16_allowed_groups_in_key : forall e s1 s2 al1 al2,
  e = PValidate \/ e = PRefresh ->
  q_bytes (QSession e s1 al1) -> q_bytes (QSession e s2 al2) ->
  wrapper_key (QSession e s1 al1) = wrapper_key (QSession e s2 al2) -> sort_strs al1 = sort_strs al2.
Proof. exact allowed_groups_in_key. Qed.
Print Assumptions C16_allowed_groups_in_key.

(* ... so in every run of a deployment, callers that share an execution (necessarily at one wrapper
   object) asked the same method about the same subject INCLUDING the allowed groups. *)
Theorem C16_merged_same_full_subject : forall tr m a t1 t2 c q1 q2,
  mreach tr m ->
  in_call (w_g (component m a)) t1 c -> in_call (w_g (component m a)) t2 c ->
  In (a, WEnter t1 q1) tr -> In (a, WEnter t2 q2) tr ->
  wf_question q1 = true -> wf_question q2 = true -> q_bytes q1 -> q_bytes q2 ->
  service_of (q_endpoint q1) = service_of (q_endpoint q2) ->
  q_endpoint q1 = q_endpoint q2 /\ subject_of q1 = subject_of q2 /\ allowed_of q1 = allowed_of q2.
Proof. exact merged_same_full_subject. Qed.
Print Assumptions C16_merged_same_full_subject.

(* One at a time, on the execution log: on every accepted event list, the executions (begin =
   a caller creates a call and runs fn, end = fn returns) of one key never overlap; this is the
   monitor's execution clause — evaluated on the inner providers' own begin/end log — applied to
   the model's prediction. Per (wrapper object, key) for a deployment. *)
Theorem C16_log_one_at_a_time : forall (R : Type) (tr : list (event R)) s l,
  run_log init [] tr = Some (s, l) -> exec_ok (key_of tr) l = true.
Proof. exact @model_log_one_at_a_time. Qed.
Print Assumptions C16_log_one_at_a_time.

Theorem C16_wrapper_log_one_at_a_time : forall tr m a,
  mreach tr m ->
  exists l, run_log init [] (map erase (project a tr)) = Some (w_g (component m a), l) /\
            exec_ok (key_of (map erase (project a tr))) l = true.
Proof.
  intros tr m a H. destruct (wrapper_log_exists tr m a H) as [l Hl]. exists l. split; [exact Hl|].
  exact (wrapper_log_one_at_a_time tr m a _ l H Hl).
Qed.
Print Assumptions C16_wrapper_log_one_at_a_time.
