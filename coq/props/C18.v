(* C18 — Every response is hardened: security headers, HTTPS upgrade, cookie flags.
   This file contains only statements; each is closed by [exact <lemma>].

   T, H, D, TD are the tables the translator extracts from the Go source on every run
   (gen/Gen_Headers.v): T = proxy securityHeaders, H = the HSTS pair requireHTTPS sets,
   D / TD = keys ModifyResponse deletes from the upstream's headers / announced trailers. *)
From V Require Import Base RespHeaders RespHeaders_proofs Gen_Headers RespHeaders_gen_proofs
  CorrBase Corr_C18 Corr_C18_proofs.
Require Coq.Strings.String.
Import Coq.Strings.String.StringSyntax.

(* The generated tables have the shape the theorems rely on: the table contains the three headers
   the property names, ModifyResponse deletes all three from upstream responses, http.Error's
   "nosniff" is the table's value, the HSTS key is Strict-Transport-Security and distinct. *)
Theorem C18_tables_ok : proxy_tables_ok = true /\ auth_table_ok = true.
Proof. exact (conj proxy_tables_ok_true auth_table_ok_true). Qed.
Print Assumptions C18_tables_ok.

(* ... and the generated tables are PROTECTIVE ("hardened" is about the values too): nosniff;
   X-Frame-Options DENY or SAMEORIGIN; X-XSS-Protection starting with 1; HSTS max-age of at least six
   months; for sso-auth also a Content-Security-Policy with default-src and without "*"/unsafe-*, and a
   Referrer-Policy that is not unsafe-url / no-referrer-when-downgrade. A weakened table in the source
   regenerates Gen_Headers.v and breaks this obligation; a strengthened one (DENY, longer max-age, an
   extra header) does not. *)
Theorem C18_tables_protective : proxy_tables_protective = true /\ auth_table_protective = true.
Proof. exact (conj proxy_tables_protective_true auth_table_protective_true). Qed.
Print Assumptions C18_tables_protective.

(* For every outcome class the proxy produces itself for a configured upstream (sign-in redirect,
   401/403/500 pages, XHR JSON, callback outcomes, sign-out, certs, robots, favicon 404,
   /oauth2/auth, clean-path redirect, 502, 503, and the https redirect), every configuration,
   request and cookie list: each of the three headers has exactly one value — the table's, or
   the override if the upstream's configuration has one (http.Error on /oauth2/auth re-sets
   X-Content-Type-Options to the table's value even when overridden). *)
Theorem C18_three_headers_local : forall cfg q c cookies user loc k,
  In k three ->
  match proxy_handle T H D TD cfg q (OLocal c cookies user loc) with
  | NoResponse => False
  | Resp s h =>
      exists tv, tbl_lookup k T = Some tv /\
        (tbl_lookup k (c_overrides cfg) = None -> hget k h = [VStr tv]) /\
        (forall ov, tbl_lookup k (c_overrides cfg) = Some ov ->
           hget k h = [VStr ov] \/ (is_auth401 c = true /\ k = k_xcto /\ hget k h = [VStr tv] /\ s = 401))
  end.
Proof. exact three_headers_local. Qed.
Print Assumptions C18_three_headers_local.

(* C18_three_headers at full strength ("and for every forwarded response, whatever the upstream
   sent") is FALSE of the faithful model of today's tree — see the two refutations below. Proved:
   it holds for every outcome including every forwarded response with ANY upstream header list
   (duplicated, case-varied, empty, folded into Connection, malformed), provided that
   (a) without TimeoutHandler the upstream sends no 1xx response before its final one, and
   (b) with TimeoutHandler no announced trailer is named like the header (or ModifyResponse
       deletes the key from the trailers too). *)
Theorem C18_three_headers_partial : forall cfg q o k,
  In k three -> today_benign cfg k o ->
  match proxy_handle T H D TD cfg q o with
  | NoResponse => True
  | Resp s h =>
      exists tv, tbl_lookup k T = Some tv /\
        (tbl_lookup k (c_overrides cfg) = None -> hget k h = [VStr tv]) /\
        (forall ov, tbl_lookup k (c_overrides cfg) = Some ov ->
           hget k h = [VStr ov] \/ (outcome_is_auth401 o = true /\ k = k_xcto /\ hget k h = [VStr tv] /\ s = 401))
  end.
Proof. exact three_headers_today. Qed.
Print Assumptions C18_three_headers_partial.

(* finding K4: under http.TimeoutHandler an announced trailer "X-Frame-Options: ALLOWALL"
   replaces the proxy's header (ModifyResponse deletes the key from resp.Header only) *)
Theorem C18_three_headers_refuted_trailer :
  exists cfg q o h, c_replace cfg = true /\
    proxy_handle T H D_today TD_today cfg q o = Resp 200 h /\
    hget k_xfo h = [VStr (bs "ALLOWALL")] /\ tbl_lookup k_xfo (c_overrides cfg) = None.
Proof.
  exists (cfg_w true), q_w, (OForward [] None u_trailer).
  destruct three_refuted_trailer as [h [P1 [P2 P3]]]. exists h. exact (conj eq_refl (conj P1 (conj P2 P3))).
Qed.
Print Assumptions C18_three_headers_refuted_trailer.

(* finding K3: WHATEVER ModifyResponse deletes, without TimeoutHandler a single 1xx response
   from the upstream makes httputil.ReverseProxy clear the real writer's header map: the final
   response carries none of the four headers *)
Theorem C18_three_headers_refuted_1xx : forall deleted td,
  exists cfg q o h, proxy_handle T H deleted td cfg q o = Resp 200 h /\
    hget k_xcto h = [] /\ hget k_xfo h = [] /\ hget k_xxp h = [] /\ hget hsts_k h = [] /\ c_secure cfg = true.
Proof. exact three_refuted_1xx. Qed.
Print Assumptions C18_three_headers_refuted_1xx.

(* the repaired shape for K4: for ANY deletion lists containing the key, no trailer condition *)
Theorem C18_three_headers_repaired : forall deleted td cfg q o k,
  In k three -> mem_str k (map canon deleted) = true -> mem_str k (map canon td) = true ->
  (forall cs us u, o = OForward cs us u -> c_replace cfg = false -> u_n1xx u = 0%nat) ->
  match proxy_handle T H deleted td cfg q o with
  | NoResponse => True
  | Resp s h =>
      hget k h = match effective T cfg k with Some v => [VStr v] | None => [] end \/
      (outcome_is_auth401 o = true /\ k = k_xcto /\ hget k h = [VStr v_nosniff] /\ s = 401)
  end.
Proof. exact three_headers_repaired. Qed.
Print Assumptions C18_three_headers_repaired.

(* With secure cookies a request that is neither https nor X-Forwarded-Proto: https never reaches
   the router (the response does not depend on what the router would do: no upstream call); it is
   a 301 whose Location is https://<host><path>?<query> ... *)
Theorem C18_https_redirect : forall cfg q,
  c_secure cfg = true -> needs_redirect q = true ->
  forall o, exists h,
    proxy_handle T H D TD cfg q o = Resp 301 h /\
    h = fold_left (apply_op cfg (q_host q)) (redirect_ops q) (chain_headers T H cfg) /\
    hget k_location h = [VStr (location_of q)] /\ hget hsts_k h = [VStr (snd H)].
Proof. exact https_redirect_gen. Qed.
Print Assumptions C18_https_redirect.

(* ... where the authority decodes to exactly the request host and contains no '/', '?', '#',
   '@' or '\', the path decodes to exactly the request's decoded path (with a '/' put in front
   if it has none) and contains no '?' or '#', and the query is the request's with non-ASCII
   bytes percent-encoded. *)
Theorem C18_redirect_target : forall q,
  q_host q <> [] -> Forall (fun c => c < 256) (q_host q) -> Forall (fun c => c < 256) (q_path q) ->
  exists Hs S P Q,
    location_of q = bs "https://" ++ Hs ++ S ++ P ++ Q /\
    unescape Hs = Some (q_host q) /\ Forall (fun x => mem_byte x authority_delims = false) Hs /\
    unescape P = Some (q_path q) /\ Forall (fun x => mem_byte x path_delims = false) P /\
    ((S = [] /\ (P = [] \/ exists P', P = 47 :: P')) \/ S = [47]) /\
    Q = (if is_nil (q_rawquery q) then [] else 63 :: hex_escape_non_ascii (q_rawquery q)).
Proof. exact redirect_location. Qed.
Print Assumptions C18_redirect_target.

(* Every cookie in every response (whatever the outcome, whatever the upstream sent) is one the
   proxy made: Path=/, the configured Secure and HttpOnly, the Domain attribute computed from the
   request host (port stripped) or the configured domain, an Expires attribute, and the session
   or CSRF cookie name ... *)
Theorem C18_cookie_flags : forall cfg q o,
  match proxy_handle T H D TD cfg q o with
  | NoResponse => True
  | Resp _ h => hall (cookie_good cfg (q_host q)) h
  end.
Proof. exact (cookie_flags T H D TD). Qed.
Print Assumptions C18_cookie_flags.

(* ... and on every response the proxy produces itself the Set-Cookie list is exactly the
   handler's cookies, in order. *)
Theorem C18_cookies_exact : forall cfg q c cookies user loc,
  cookie_name_valid (c_cookie_name cfg) = true ->
  tbl_lookup k_set_cookie (c_overrides cfg) = None ->
  (c_secure cfg && needs_redirect q) = false ->
  match proxy_handle T H D TD cfg q (OLocal c cookies user loc) with
  | NoResponse => False
  | Resp _ h => hget k_set_cookie h = map (fun op => VCookie (cookie_of_op cfg (q_host q) op)) cookies
  end.
Proof. exact local_cookies_gen. Qed.
Print Assumptions C18_cookies_exact.

(* sso-auth: whatever a handler of the service mux does (Set headers outside the table, add
   cookies, http.Error), the response carries every header of the generated table with exactly
   the table's value; the table has the six documented names. *)
Theorem C18_auth_headers : forall ops k v,
  forallb aop_ok ops = true -> tbl_lookup k AT = Some v ->
  hget k (auth_handle AT ops) = [VStr v].
Proof. exact auth_headers_gen. Qed.
Print Assumptions C18_auth_headers.

(* The sso-auth PROCESS (cmd/sso-auth: logging > SetSecurityHeaders > TimeoutHandler > mux; repaired by
   d58c694, formerly finding K5): every response carries every header of the generated table with exactly
   its value - also the 503 that http.TimeoutHandler itself writes when a provider call outlasts
   server.timeout.request (fired = true). *)
Theorem C18_auth_process_headers : forall fired ops k v,
  forallb aop_ok ops = true -> tbl_lookup k AT = Some v ->
  hget k (auth_process AT fired ops) = [VStr v].
Proof. exact auth_process_headers. Qed.
Print Assumptions C18_auth_process_headers.

(* HSTS cannot be weakened by an upstream — for the REPAIRED shape (ModifyResponse also deletes
   Strict-Transport-Security from the upstream's headers and trailers): with secure cookies every
   response carries exactly the proxy's value (no 1xx without TimeoutHandler: finding K3). *)
Theorem C18_hsts_not_weakened : forall deleted td cfg q o,
  mem_str hsts_k (map canon deleted) = true -> mem_str hsts_k (map canon td) = true ->
  c_secure cfg = true ->
  (forall cs us u, o = OForward cs us u -> c_replace cfg = false -> u_n1xx u = 0%nat) ->
  match proxy_handle T H deleted td cfg q o with
  | NoResponse => True
  | Resp _ h => hget hsts_k h = [VStr (snd H)]
  end.
Proof. exact hsts_repaired. Qed.
Print Assumptions C18_hsts_not_weakened.

(* FALSE today (findings K1, K2): the upstream's "Strict-Transport-Security: max-age=0" replaces
   the proxy's under http.TimeoutHandler and is appended to it otherwise. *)
Theorem C18_hsts_not_weakened_refuted :
  (exists cfg q o h, c_secure cfg = true /\ c_replace cfg = true /\
     proxy_handle T H D_today TD_today cfg q o = Resp 200 h /\ hget hsts_k h = [VStr (bs "max-age=0")]) /\
  (exists cfg q o h, c_secure cfg = true /\ c_replace cfg = false /\
     proxy_handle T H D_today TD_today cfg q o = Resp 200 h /\
     hget hsts_k h = [VStr (snd H); VStr (bs "max-age=0")]).
Proof.
  split.
  - exists (cfg_w true), q_w, (OForward [] None u_hsts). destruct hsts_refuted_replace as [P0 [h [P1 P2]]].
    exists h. exact (conj P0 (conj eq_refl (conj P1 P2))).
  - exists (cfg_w false), q_w, (OForward [] None u_hsts). destruct hsts_refuted_append as [P0 [h [P1 P2]]].
    exists h. exact (conj P0 (conj eq_refl (conj P1 P2))).
Qed.
Print Assumptions C18_hsts_not_weakened_refuted.

(* Observation (not a violation): on the repaired code an upstream's trailers named like protected
   headers still reach the client, in both modes — as chunked TRAILER fields only; the response
   header fields carry exactly the proxy's values. *)
Theorem C18_trailers_are_not_headers : forall replace,
  exists h, proxy_handle T H D_rep TD_rep (cfg_w replace) q_w (OForward [] None u_trailers2) = Resp 200 h /\
    hget k_xfo h = match tbl_lookup k_xfo T with Some v => [VStr v] | None => [] end /\
    hget hsts_k h = [VStr (snd H)] /\
    proxy_trailers T H D_rep TD_rep (cfg_w replace) q_w (OForward [] None u_trailers2) k_xfo = [VStr (bs "ALLOWALL")] /\
    proxy_trailers T H D_rep TD_rep (cfg_w replace) q_w (OForward [] None u_trailers2) hsts_k = [VStr (bs "max-age=0")].
Proof. exact trailers_are_not_headers. Qed.
Print Assumptions C18_trailers_are_not_headers.

(* What is true today: HSTS is exactly the proxy's on every response the proxy produces itself
   and on forwarded responses whose upstream sends no such header or announced trailer. *)
Theorem C18_hsts_not_weakened_partial : forall cfg q o,
  c_secure cfg = true ->
  match o with
  | OLocal _ _ _ _ => True
  | OForward _ _ u =>
      (mem_str hsts_k (map canon D) = true \/ line_hits hsts_k (u_lines u) = false) /\
      (c_replace cfg = false -> u_n1xx u = 0%nat) /\
      (c_replace cfg = true -> mem_str hsts_k (map canon TD) = true \/ line_hits hsts_k (u_trailers u) = false)
  end ->
  match proxy_handle T H D TD cfg q o with
  | NoResponse => True
  | Resp _ h => hget hsts_k h = [VStr (snd H)]
  end.
Proof. exact hsts_today_partial. Qed.
Print Assumptions C18_hsts_not_weakened_partial.

(* The monitor the check applies to the real proxy's responses accepts the model's own
   prediction whenever the hypotheses of the theorems above hold (ties the boolean
   specification in corr/Corr_C18.v to the theorems). *)
Theorem C18_monitor_accepts_model : forall cfg q o,
  monitor_guard cfg q o = true ->
  match model cfg q o with
  | NoResponse => True
  | Resp s h =>
      holds_proxy cfg q true s (forwarded_call cfg q o) (proj_hdr h) (hget k_set_cookie h) = true
  end.
Proof. exact monitor_accepts_model. Qed.
Print Assumptions C18_monitor_accepts_model.

(* ... and likewise for sso-auth, at handler level and for the whole process (timeout 503 included). *)
Theorem C18_auth_monitor_accepts_model : forall fired ops,
  forallb aop_ok ops = true ->
  holds_auth (proj_hdr (auth_handle AT ops)) = true /\ holds_auth (proj_hdr (auth_process AT fired ops)) = true.
Proof. exact auth_monitor_accepts_model. Qed.
Print Assumptions C18_auth_monitor_accepts_model.
