(* C05 — Outage grace is bounded: only 429/503, only grace TTL from the first failure. *)
From V Require Import Base Validators ProxyCore ProxyCore_proofs ProxyWorld ProxyWorld_proofs.
Open Scope Z_scope.

(* Grace is granted only for 429 and 503 ... *)
Theorem C05_only_429_503 : forall code, unavailable code = true <-> code = 429 \/ code = 503.
Proof. exact unavailable_iff. Qed.
Print Assumptions C05_only_429_503.

(* ... i.e. a due check that the authenticator did not confirm is passed only when the failing
   answer is an outage answer (a 429/503 status on the failing call) AND the grace period counted
   from the stamp has not elapsed; transport errors, other statuses and malformed bodies refuse
   (the C04_revocation theorems). *)
Theorem C05_grace_needs_outage : forall lower now c u host s a,
  ao_err (authenticate lower now c u host (Sealed s) a) = None ->
  (s_refresh_dl s < now ->
     refresh_confirmed (p_groups (u_rules u)) a \/
     (refresh_outage (p_groups (u_rules u)) a /\ outage_grace now c s)) /\
  (now <= s_refresh_dl s -> s_valid_dl s < now ->
     validate_confirmed (p_groups (u_rules u)) a \/
     (validate_outage (p_groups (u_rules u)) a /\ outage_grace now c s)).
Proof.
  intros lower now c u host s a H.
  destruct (authenticate_sound lower now c u host (Sealed s) a H) as [s0 [E Hok]]. inversion E; subst s0.
  destruct Hok as [_ [_ [_ [Hr [Hv _]]]]]. split; [intros Hd; exact (proj2 (Hr Hd)) | exact Hv].
Qed.
Print Assumptions C05_grace_needs_outage.

(* For ARBITRARY linear browser histories: whenever a request is served under grace, the start of
   the current outage — derived from the OBSERVED trace alone: the time of the first grace-served
   request since the last fully successful check — satisfies now < start + G, and now is within the
   session lifetime. (The invariant behind it: the stamp in the cookie equals that trace-derived start.) *)
Theorem C05_bounded : forall lower c pol_of host st bs b,
  binv st ->
  let st' := brun lower c pol_of host st bs in
  let now := b_now st' + Z.max 0 (b_dt b) in
  grace_served (bresponse lower c pol_of host st' b) = true ->
  exists g s, b_outage (bnext lower c pol_of host st' b) = Some g /\ b_cookie st' = Some s /\
    g = (match b_outage st' with Some g0 => g0 | None => now end) /\
    now < g + c_G c /\ now <= s_lifetime_dl s.
Proof. exact grace_bounded. Qed.
Print Assumptions C05_bounded.

Theorem C05_stamp_is_trace_derived : forall lower c pol_of host bs st,
  binv st -> binv (brun lower c pol_of host st bs).
Proof. intros. apply binv_run. assumption. Qed.
Print Assumptions C05_stamp_is_trace_derived.

(* One successful check ends the episode: the outage start is forgotten, so a later outage
   starts a fresh grace period. *)
Theorem C05_success_resets : forall lower c pol_of host st b,
  binv st ->
  full_success (bresponse lower c pol_of host st b) = true ->
  b_outage (bnext lower c pol_of host st b) = None /\
  exists s', b_cookie (bnext lower c pol_of host st b) = Some s' /\ s_grace s' = None.
Proof. exact success_resets. Qed.
Print Assumptions C05_success_resets.

(* Grace never extends the lifetime: the bound carried by the browser's cookie never moves. *)
Theorem C05_no_extension_of_lifetime : forall lower c pol_of host bs st s,
  b_cookie st = Some s ->
  match b_cookie (brun lower c pol_of host st bs) with
  | Some s' => s_lifetime_dl s' = s_lifetime_dl s | None => True end.
Proof. exact browser_lifetime_fixed. Qed.
Print Assumptions C05_no_extension_of_lifetime.

(* Information, outside the property's quantifier (one browser, requests one at a time): replaying
   the same pre-outage cookie obtains a fresh grace period each time; only the lifetime bounds it. *)
From V Require Import ProxyExamples.
Theorem C05_replay_restarts_grace_note :
  let evs := [ex_login; Tick 700; req (CkIssued 0) outage_ans; Tick 4000] in
  served (respond_at [ex_login; Tick 700] (CkIssued 0) outage_ans) = true /\
  served (respond_at evs (CkIssued 0) outage_ans) = true /\
  served (respond_at evs (CkIssued 1) outage_ans) = false.
Proof. exact replay_restarts_grace. Qed.
Print Assumptions C05_replay_restarts_grace_note.

(* The monitor that judges the implementation's fault-sequence histories demands no more than these
   theorems: started from the trace-derived outage of any browser state satisfying the invariant, it
   accepts the observations the model predicts along EVERY linear history (the liveness clause "an
   existing session keeps working during the grace period" included). *)
From V Require Import CorrProxy Corr_C01 Corr_C01_proofs Corr_C05 Corr_C05_proofs.
Theorem C05_monitor_accepts_model : forall lower c pol_of host bs st,
  binv st -> c05_walk lower c (pol_of host) (b_outage st) (bobs lower c pol_of host st bs) = true.
Proof. exact c05_monitor_accepts_model. Qed.
Print Assumptions C05_monitor_accepts_model.
