(* C11 — Allow rules mean what the docs say: any-of, exact address, whole domain, group.
   This file contains only statements; each is closed by [exact <lemma>]. *)
From V Require Import Base Validators Validators_proofs CorrBase Corr_C11 Corr_C11_proofs.

(* An address rule set admits exactly the non-empty e-mails equal, after case folding, to a
   listed address, or any non-empty e-mail when the set is the lone "*". For every folding. *)
Theorem C11_address_exact : forall (lower : str -> str) rules email,
  address_validate lower (new_address_validator lower rules) email = true <->
  email <> [] /\ ((exists x, rules = [x] /\ lower x = star) \/ In (lower email) (map lower rules)).
Proof. exact address_exact. Qed.
Print Assumptions C11_address_exact.

(* A domain rule matches the WHOLE domain: the part of the folded e-mail after its last '@'
   equals the folded rule (no look-alike suffix), for all strings. Guard: a configured domain
   contains no '@'. *)
Theorem C11_domain_whole : forall (lower : str -> str) rules email,
  (forall d, In d rules -> d <> star -> ~ In at_sign (lower d)) ->
  domain_validate lower (new_domain_validator lower rules) email = true <->
  email <> [] /\ (rules = [star] \/ exists d, In d rules /\
     ((d = star /\ has_suffix (lower email) star = true) \/
      (d <> star /\ after_last_at (lower email) = Some (lower d)))).
Proof. exact domain_whole. Qed.
Print Assumptions C11_domain_whole.

Theorem C11_lookalike_rejected : forall (lower : str -> str) d email,
  d <> star -> ~ In at_sign (lower d) ->
  after_last_at (lower email) <> Some (lower d) ->
  domain_validate lower (new_domain_validator lower [d]) email = false.
Proof. exact domain_lookalike_rejected. Qed.
Print Assumptions C11_lookalike_rejected.

Theorem C11_empty_email_denied : forall (lower : str -> str) p ans,
  login_admit lower p [] ans = false /\
  (forall v, address_validate lower v [] = false) /\ (forall v, domain_validate lower v [] = false).
Proof. intros; split; [reflexivity | split; [exact (empty_email_address lower) | exact (empty_email_domain lower)]]. Qed.
Print Assumptions C11_empty_email_denied.

Theorem C11_empty_rules_deny : forall (lower : str -> str) email ans,
  login_gate lower {| p_addresses := []; p_domains := []; p_groups := [] |} email ans = false.
Proof. exact empty_rules_deny. Qed.
Print Assumptions C11_empty_rules_deny.

(* Admission at login is any-of over the configured rule kinds ... *)
Theorem C11_login_any_of : forall (lower : str -> str) p email ans,
  login_gate lower p email ans = true <->
  exists v, In v (validators_of lower p) /\ run_validator lower email ans v = true.
Proof. exact login_any_of. Qed.
Print Assumptions C11_login_any_of.

(* ... and equals the documented disjunction (the boolean specification the monitor applies
   to the implementation's observations). *)
Theorem C11_login_is_documented_rule : forall (lower : str -> str) p email ans,
  dom_guard lower (p_domains p) = true ->
  login_admit lower p email ans = spec_admit lower p email ans.
Proof. exact spec_admit_model. Qed.
Print Assumptions C11_login_is_documented_rule.

(* "Same verdict at login and on every later request": FALSE of the faithful model
   (known findings C11-K1, C11-K2) ... *)
Theorem C11_same_verdict_refuted_request :
  exists p email ans, login_gate lower_ascii p email ans = true /\ request_gate lower_ascii p email = false.
Proof. do 3 eexists. exact same_verdict_refuted_addr_dom. Qed.
Print Assumptions C11_same_verdict_refuted_request.

Theorem C11_same_verdict_refuted_revalidation :
  exists p email ans, login_gate lower_ascii p email ans = true /\ revalidation_gate p ans = false.
Proof. do 3 eexists. exact same_verdict_refuted_addr_group. Qed.
Print Assumptions C11_same_verdict_refuted_revalidation.

(* ... and proved for every policy with exactly one rule kind (every documented example). *)
Theorem C11_same_verdict_single_kind_partial : forall (lower : str -> str) l email ans, l <> [] ->
  (let p := {| p_addresses := l; p_domains := []; p_groups := [] |} in
   login_gate lower p email ans = request_gate lower p email /\ revalidation_gate p ans = true) /\
  (let p := {| p_addresses := []; p_domains := l; p_groups := [] |} in
   login_gate lower p email ans = request_gate lower p email /\ revalidation_gate p ans = true) /\
  (let p := {| p_addresses := []; p_domains := []; p_groups := l |} in
   login_gate lower p email ans = revalidation_gate p ans /\ request_gate lower p email = true).
Proof.
  intros lower l email ans H. split; [exact (same_verdict_addresses_only lower l email ans H)|].
  split; [exact (same_verdict_domains_only lower l email ans H) | exact (same_verdict_groups_only lower l email ans H)].
Qed.
Print Assumptions C11_same_verdict_single_kind_partial.
