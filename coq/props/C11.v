(* C11 — Allow rules mean what the docs say: any-of, exact address, whole domain, group.
   This file contains only statements; each is closed by [exact <lemma>]. *)
From V Require Import Base Validators Validators_proofs CorrBase Corr_C11 Corr_C11_proofs.

(* An address rule set admits exactly the non-empty e-mails equal, after case folding, to a
   listed address, or any non-empty e-mail when the set is the lone "*". For every folding. *)
Theorem C11_address_exact : forall (lower : str -> str) rules email,
  address_validate lower (new_address_validator lower rules) email = true <->
  email <> [] /\ ((exists x, rules = [x] /\ lower x = star) \/ In (lower email) (map lower rules)).
Proof. exact address_exact. Qed.
Print Assumptions C11_address_exact.

(* A domain rule matches the WHOLE domain: the part of the folded e-mail after its last '@'
   equals the folded rule (no look-alike suffix), for all strings. Guard: a configured domain
   contains no '@'. *)
Theorem C11_domain_whole : forall (lower : str -> str) rules email,
  (forall d, In d rules -> d <> star -> ~ In at_sign (lower d)) ->
  domain_validate lower (new_domain_validator lower rules) email = true <->
  email <> [] /\ (rules = [star] \/ exists d, In d rules /\
     ((d = star /\ has_suffix (lower email) star = true) \/
      (d <> star /\ after_last_at (lower email) = Some (lower d)))).
Proof. exact domain_whole. Qed.
Print Assumptions C11_domain_whole.

Theorem C11_lookalike_rejected : forall (lower : str -> str) d email,
  d <> star -> ~ In at_sign (lower d) ->
  after_last_at (lower email) <> Some (lower d) ->
  domain_validate lower (new_domain_validator lower [d]) email = false.
Proof. exact domain_lookalike_rejected. Qed.
Print Assumptions C11_lookalike_rejected.

Theorem C11_empty_email_denied : forall (lower : str -> str) p ans,
  login_admit lower p [] ans = false /\
  (forall v, address_validate lower v [] = false) /\ (forall v, domain_validate lower v [] = false).
Proof. intros; split; [reflexivity | split; [exact (empty_email_address lower) | exact (empty_email_domain lower)]]. Qed.
Print Assumptions C11_empty_email_denied.

Theorem C11_empty_rules_deny : forall (lower : str -> str) email ans,
  login_gate lower {| p_addresses := []; p_domains := []; p_groups := [] |} email ans = false.
Proof. exact empty_rules_deny. Qed.
Print Assumptions C11_empty_rules_deny.

(* Admission at login is any-of over the configured rule kinds ... *)
Theorem C11_login_any_of : forall (lower : str -> str) p email ans,
  login_gate lower p email ans = true <->
  exists v, In v (validators_of lower p) /\ run_validator lower email ans v = true.
Proof. exact login_any_of. Qed.
Print Assumptions C11_login_any_of.

(* ... and equals the documented disjunction (the boolean specification the monitor applies
   to the implementation's observations). *)
Theorem C11_login_is_documented_rule : forall (lower : str -> str) p email ans,
  dom_guard lower (p_domains p) = true ->
  login_admit lower p email ans = spec_admit lower p email ans.
Proof. exact spec_admit_model. Qed.
Print Assumptions C11_login_is_documented_rule.

(* "Same verdict at login and on every later request": FALSE of the faithful model
   (known findings C11-K1, C11-K2) ... *)
Theorem C11_same_verdict_refuted_request :
  exists p email ans, login_gate lower_ascii p email ans = true /\ request_gate lower_ascii p email = false.
Proof. do 3 eexists. exact same_verdict_refuted_addr_dom. Qed.
Print Assumptions C11_same_verdict_refuted_request.

Theorem C11_same_verdict_refuted_revalidation :
  exists p email ans, login_gate lower_ascii p email ans = true /\ revalidation_gate p ans = false.
Proof. do 3 eexists. exact same_verdict_refuted_addr_group. Qed.
Print Assumptions C11_same_verdict_refuted_revalidation.

(* ... and proved for every policy with exactly one rule kind (every documented example). *)
Theorem C11_same_verdict_single_kind_partial : forall (lower : str -> str) l email ans, l <> [] ->
  (let p := {| p_addresses := l; p_domains := []; p_groups := [] |} in
   login_gate lower p email ans = request_gate lower p email /\ revalidation_gate p ans = true) /\
  (let p := {| p_addresses := []; p_domains := l; p_groups := [] |} in
   login_gate lower p email ans = request_gate lower p email /\ revalidation_gate p ans = true) /\
  (let p := {| p_addresses := []; p_domains := []; p_groups := l |} in
   login_gate lower p email ans = revalidation_gate p ans /\ request_gate lower p email = true).
Proof.
  intros lower l email ans H. split; [exact (same_verdict_addresses_only lower l email ans H)|].
  split; [exact (same_verdict_domains_only lower l email ans H) | exact (same_verdict_groups_only lower l email ans H)].
Qed.
Print Assumptions C11_same_verdict_single_kind_partial.

(* For EVERY policy (mixed rule kinds included): the two later gates together are exactly ALL-OF over
   the configured validators, while login is ANY-OF (C11_login_any_of) ... *)
Theorem C11_later_is_all_of : forall (lower : str -> str) p email ans,
  request_gate lower p email && revalidation_gate p ans =
  forallb (run_validator lower email ans) (validators_of lower p).
Proof. exact later_is_all_of. Qed.
Print Assumptions C11_later_is_all_of.

(* ... hence every divergence of the known findings C11-K1/K2 FAILS CLOSED: whoever passes both later
   gates under a policy with at least one rule would also have been admitted at login on the same
   facts — no session is ever served later that the login gate would have refused. *)
Theorem C11_later_verdict_implies_login : forall (lower : str -> str) p email ans,
  (p_addresses p <> [] \/ p_domains p <> [] \/ p_groups p <> []) ->
  request_gate lower p email = true -> revalidation_gate p ans = true ->
  login_gate lower p email ans = true.
Proof.
  intros lower p email ans H. apply later_implies_login. apply validators_nonempty_iff. exact H.
Qed.
Print Assumptions C11_later_verdict_implies_login.

(* Exact characterisation of the clause at full strength: login and later verdicts coincide on
   (p, email, answer) iff the configured validators are unanimous there. Single-kind policies are the
   special case of one validator (C11_same_verdict_single_kind_partial); the refutation witnesses are
   two-validator policies on which the validators disagree. *)
Theorem C11_same_verdict_iff_unanimous : forall (lower : str -> str) p email ans,
  (p_addresses p <> [] \/ p_domains p <> [] \/ p_groups p <> []) ->
  (login_gate lower p email ans = request_gate lower p email && revalidation_gate p ans <->
   forall v w, In v (validators_of lower p) -> In w (validators_of lower p) ->
     run_validator lower email ans v = run_validator lower email ans w).
Proof.
  intros lower p email ans H. apply same_verdict_iff_unanimous. apply validators_nonempty_iff. exact H.
Qed.
Print Assumptions C11_same_verdict_iff_unanimous.

(* non-vacuity: a mixed policy whose three validators all pass — premises of the two theorems hold *)
Example C11_later_nonvacuous :
  let p := {| p_addresses := [bob_b]; p_domains := [[98;46;99;111;109]]; p_groups := [g1] |} in
  request_gate lower_ascii p bob_b = true /\ revalidation_gate p (GroupsOk [g1]) = true /\
  login_gate lower_ascii p bob_b (GroupsOk [g1]) = true.
Proof. vm_compute. repeat split; reflexivity. Qed.
