(* C07 — Authenticator redirects and hands codes only to signed in-domain fresh URIs.
   This file contains only statements; each is closed by [exact <lemma>].
   Model: theories/Url.v (net/url slice + independent RFC 3986 reading), theories/AuthGates.v. *)
From V Require Import Base Url Url_proofs AuthGates AuthGates_proofs CorrBase Corr_C07 Corr_C07_proofs.

(* ---- 1. the parser theorem -------------------------------------------------------------- *)

(* validRedirectURI accepted a string  ==>  the host that EVERY reading of that string according
   to RFC 3986 (scheme ":" "//" [userinfo "@"] host [":" port] then "/", "?", "#" or end; the
   relation rfc_split) assigns to it — brackets off, percent-decoded — is a configured root
   domain or ends in "." ++ one. For all strings and all configured domain lists. *)
Theorem C07_host_in_domain : forall uri cfg sch ui h port rest,
  valid_redirect_uri uri (norm_domains cfg) = true ->
  rfc_split uri sch ui h port rest ->
  in_domain (rfc_hostname h) cfg.
Proof. exact host_in_domain. Qed.
Print Assumptions C07_host_in_domain.

(* conforming readers agree on every component, in particular on the host *)
Theorem C07_rfc_reading_unique : forall u s1 ui1 h1 p1 r1 s2 ui2 h2 p2 r2,
  rfc_split u s1 ui1 h1 p1 r1 -> rfc_split u s2 ui2 h2 p2 r2 ->
  s1 = s2 /\ ui1 = ui2 /\ h1 = h2 /\ p1 = p2 /\ r1 = r2.
Proof. exact rfc_split_unique. Qed.
Print Assumptions C07_rfc_reading_unique.

(* the executable reader used by the correspondence monitor on observed Location headers
   computes exactly that relation *)
Theorem C07_rfc_read_exact : forall u sch ui h port rest,
  rfc_split u sch ui h port rest <->
  rfc_read u = Some {| r_scheme := sch; r_userinfo := ui; r_host := h; r_port := port; r_rest := rest |}.
Proof.
  intros u sch ui h port rest. split; [exact (rfc_read_complete u sch ui h port rest)|].
  intros H. exact (rfc_read_sound u _ H).
Qed.
Print Assumptions C07_rfc_read_exact.

(* Go's url.Parse / URL.Hostname() (the model of go1.23.5's code) and the RFC reading never
   disagree: whenever Parse succeeds with a non-empty Host and a reading exists, Hostname() is
   the reading's host *)
Theorem C07_go_hostname_is_rfc_host : forall u url sch ui h port rest,
  go_parse u = Some url -> u_host url <> [] -> rfc_split u sch ui h port rest ->
  hostname url = rfc_hostname h.
Proof. exact go_rfc_agree. Qed.
Print Assumptions C07_go_hostname_is_rfc_host.

(* browsers (WHATWG) read a backslash in an http(s) URL as a slash: an accepted URI has none in
   its authority, so that difference cannot move the authority boundary *)
Theorem C07_no_backslash_in_authority : forall uri cfg sch ui h port rest,
  valid_redirect_uri uri (norm_domains cfg) = true -> rfc_split uri sch ui h port rest ->
  ~ In c_bslash (opt_userinfo ui ++ h ++ opt_port port).
Proof. exact accepted_no_backslash. Qed.
Print Assumptions C07_no_backslash_in_authority.

(* the hypotheses are satisfiable: a proxy callback URI with userinfo and port is accepted and
   has a reading whose host is app.example.com *)
Example C07_host_in_domain_nonvacuous :
  let uri := [104;116;116;112;115;58;47;47;117;64;97;112;112;46;101;120;97;109;112;108;101;46;99;111;109;58;52;52;51;47;99;98] in
  valid_redirect_uri uri (norm_domains [[101;120;97;109;112;108;101;46;99;111;109]]) = true /\
  rfc_split uri (Some [104;116;116;112;115]) (Some [117]) [97;112;112;46;101;120;97;109;112;108;101;46;99;111;109]
            (Some [52;52;51]) [47;99;98].
Proof.
  split; [vm_compute; reflexivity|]. apply C07_rfc_read_exact. vm_compute. reflexivity.
Qed.

(* ---- 2. decision soundness over the route table ------------------------------------------ *)

(* every 3xx whose Location derives from a caller-supplied URI passed validRedirectURI for
   exactly that URI — at every endpoint, for every request *)
Theorem C07_no_redirect_out_of_domain : forall c now ep q src hw,
  serve c now ep q = ORedirect src hw -> valid_redirect_uri src (root_domains c) = true.
Proof. exact redirect_validated. Qed.
Print Assumptions C07_no_redirect_out_of_domain.

(* ... hence its host, under every RFC reading, is in a configured domain *)
Theorem C07_redirect_host_in_domain : forall c now ep q src hw sch ui h port rest,
  serve c now ep q = ORedirect src hw -> rfc_split src sch ui h port rest ->
  in_domain (rfc_hostname h) (c_domains c).
Proof. exact redirect_host_in_domain. Qed.
Print Assumptions C07_redirect_host_in_domain.

(* a code is attached only by GET /sign_in behind client-id, redirect and signature gates *)
Theorem C07_code_only_at_sign_in : forall c now ep q src,
  serve c now ep q = ORedirect src WithCode ->
  ep = EpSignIn /\ src = q_uri q /\ q_meth q = GET /\ q_client_id q = c_client_id c /\
  valid_redirect_uri src (root_domains c) = true /\
  valid_signature now src (q_sig q) (q_ts q) (c_secret c) = true.
Proof. exact code_gated. Qed.
Print Assumptions C07_code_only_at_sign_in.

(* the Location actually written for a code redirect: URL.String() of the re-parsed redirect with
   the configured scheme is, up to the end of the authority, [authority_string (c_scheme c) u]
   (all ASCII, so http.Redirect leaves it alone); whatever path / query / fragment follows, every
   RFC reading of the emitted text names an in-domain host *)
Theorem C07_code_location_in_domain : forall c now ep q src,
  serve c now ep q = ORedirect src WithCode ->
  forallb byte_ok src = true -> (c_scheme c = [] \/ scheme_ok (c_scheme c)) ->
  exists u, go_parse src = Some u /\
    forall tail s' ui' h' p' r', rest_ok tail ->
      rfc_split (authority_string (c_scheme c) u ++ tail) s' ui' h' p' r' ->
      in_domain (rfc_hostname h') (c_domains c).
Proof. exact code_location_in_domain. Qed.
Print Assumptions C07_code_location_in_domain.

Theorem C07_code_location_prefix : forall c src u,
  go_parse src = Some u -> forallb byte_ok src = true -> forallb ascii (c_scheme c) = true ->
  location_prefix c (ORedirect src WithCode) = Some (authority_string (c_scheme c) u).
Proof. exact code_location_prefix. Qed.
Print Assumptions C07_code_location_prefix.

(* the signature gate: accepted  ==>  all fields present, ts is a base-10 int64 t, the decoded
   sig IS the MAC under the client secret of  uri ++ decimal(t), and now - t <= 5 min
   (the age test is one-sided, as in the code: a future t passes) *)
Theorem C07_signature_sound : forall now uri sg ts secret,
  valid_signature now uri sg ts secret = true ->
  uri <> [] /\ ts <> [] /\ secret <> [] /\ go_parse uri <> None /\
  exists t, parse_int ts = Some t /\ sg = SigTag (Mac secret (uri ++ dec t)) /\ (now - t * ns <= ttl_ns)%Z.
Proof. exact valid_signature_sound. Qed.
Print Assumptions C07_signature_sound.

(* code redirect / sign-out redirect / login start at the provider  ==>  validSignature held
   ==>  some (u0, t0) the proxy MAC'd under the client secret has the same signed text
   u0 ++ dec t0 = u ++ dec t, with now - t <= 300 s.  [issued_only] is the ideal-MAC
   hypothesis on the presented value. *)
Theorem C07_code_needs_signature : forall c now ep q issued,
  issued_only (c_secret c) issued (q_sig q) ->
  (forall src, serve c now ep q = ORedirect src WithCode ->
     valid_signature now src (q_sig q) (q_ts q) (c_secret c) = true /\ signed_fresh now issued src (q_ts q)) /\
  (forall src hw, ep = EpSignOut -> serve c now ep q = ORedirect src hw ->
     valid_signature now src (q_sig q) (q_ts q) (c_secret c) = true /\ signed_fresh now issued src (q_ts q)) /\
  (forall a, serve c now ep q = OIdP a ->
     exists b, q_nested q = Some b /\
       valid_signature now b (q_sig q) (q_ts q) (c_secret c) = true /\ signed_fresh now issued b (q_ts q)).
Proof. exact code_needs_signature. Qed.
Print Assumptions C07_code_needs_signature.

(* a login is started at the provider only for validated outer and nested URIs *)
Theorem C07_idp_start_gated : forall c now ep q a,
  serve c now ep q = OIdP a ->
  ep = EpStart /\ q_outer q = Some a /\ valid_redirect_uri a (root_domains c) = true /\
  exists b, q_nested q = Some b /\ valid_redirect_uri b (root_domains c) = true /\
            valid_signature now b (q_sig q) (q_ts q) (c_secret c) = true.
Proof. exact idp_start_gated. Qed.
Print Assumptions C07_idp_start_gated.

(* the callback forwards the URI recovered from the state untouched, after re-validating it
   and matching the nonce against the CSRF cookie *)
Theorem C07_callback_revalidates : forall c now q src hw,
  serve c now EpCallback q = ORedirect src hw ->
  hw = Verbatim /\ (exists nonce, q_cb_state q = StPair nonce src /\ q_cb_csrf q = Some nonce) /\
  valid_redirect_uri src (root_domains c) = true.
Proof. exact callback_gated. Qed.
Print Assumptions C07_callback_revalidates.

(* non-vacuity: a signed fresh in-domain request with a live session does get a code *)
Example C07_code_nonvacuous :
  let uri := [104;116;116;112;115;58;47;47;97;46;101;120;46;99;111;109;47] in      (* https://a.ex.com/ *)
  let c := {| c_domains := [[101;120;46;99;111;109]]; c_secret := [115]; c_client_id := [105]; c_scheme := [104;116;116;112;115] |} in
  let q := {| q_meth := GET; q_form_ok := true; q_client_id := [105]; q_uri := uri;
              q_sig := SigTag (Mac [115] (uri ++ dec 1000)); q_ts := [49;48;48;48]; q_state := [120];
              q_session := SessGood; q_provider_valid := true; q_revoke_ok := true; q_query_ok := true;
              q_outer := None; q_nested := None; q_cb_error := false; q_cb_code_empty := false;
              q_cb_redeem_ok := true; q_cb_state := StBad; q_cb_csrf := None; q_cb_user_ok := true |} in
  serve c (1100 * ns)%Z EpSignIn q = ORedirect uri WithCode /\
  issued_only (c_secret c) [(uri, 1000%Z)] (q_sig q).
Proof.
  split; [vm_compute; reflexivity|]. intros m H. inversion H; subst. eexists _, _. split; [left; reflexivity | reflexivity].
Qed.

(* ---- 3. does the signed text determine (uri, ts)? ---------------------------------------- *)

(* purely textual: signed URI not ending in a digit, non-negative times ==> a different
   presented pair extends the URI by leading digits of the signed time and presents less than
   half of it *)
Theorem C07_concat_cases : forall u0 t0 u t,
  ends_nondigit u0 -> (0 <= t0)%Z -> (0 <= t)%Z ->
  u0 ++ dec t0 = u ++ dec t ->
  (u = u0 /\ t = t0) \/
  (exists l, l <> [] /\ u = u0 ++ l /\ forallb is_digit l = true /\ (2 * t < t0)%Z).
Proof. exact concat_cases. Qed.
Print Assumptions C07_concat_cases.

(* with the freshness test of the gate (now - t <= 300 s), a proxy clock at most [skew] s ahead
   and now >= 600 s + skew, the signed pair is exactly the presented one *)
Theorem C07_signed_exactly : forall u0 t0 u t now skew,
  ends_nondigit u0 -> (0 <= t0)%Z -> (t0 * ns <= now + skew * ns)%Z -> (0 <= skew)%Z ->
  ((600 + skew) * ns <= now)%Z ->
  (- two63 <= t)%Z -> (now - t * ns <= ttl_ns)%Z ->
  u0 ++ dec t0 = u ++ dec t ->
  u = u0 /\ t = t0.
Proof. exact signed_exactly. Qed.
Print Assumptions C07_signed_exactly.

(* information, not a violation: the collision exists (i) even for a signed URI that does not
   end in a digit — the presented time is then stale — and (ii) with a FUTURE presented time
   when the signed URI ends in a digit, which the one-sided age test lets through *)
Theorem C07_concat_ambiguity :
  (exists u0 t0 u t, ends_nondigit u0 /\ (0 <= t0)%Z /\ (0 <= t)%Z /\ u0 ++ dec t0 = u ++ dec t /\ u <> u0) /\
  (exists u0 t0 u t, (0 <= t0)%Z /\ (t0 < t)%Z /\ u0 ++ dec t0 = u ++ dec t /\ u <> u0).
Proof. exact concat_ambiguity. Qed.
Print Assumptions C07_concat_ambiguity.

(* the guard holds for the two shapes the proxy signs *)
Example C07_proxy_shapes_end_nondigit : forall hostpart,
  ends_nondigit (hostpart ++ [47;111;97;117;116;104;50;47;99;97;108;108;98;97;99;107]) /\   (* /oauth2/callback *)
  ends_nondigit (hostpart ++ [47]).
Proof.
  intros hp. split.
  - exists (hp ++ [47;111;97;117;116;104;50;47;99;97;108;108;98;97;99]), 107. split; [rewrite <- app_assoc; reflexivity | reflexivity].
  - exists hp, 47. split; reflexivity.
Qed.

(* ---- 4. the monitor applied to observations follows from the above ------------------------ *)
Theorem C07_monitor_redirect_ok : forall uri cfgd,
  valid_redirect_uri uri (norm_domains cfgd) = true -> rfc_in_domain uri cfgd = true.
Proof. exact redir_monitor_ok. Qed.
Print Assumptions C07_monitor_redirect_ok.

Theorem C07_monitor_signature_ok : forall now uri sg ts secret,
  valid_signature now uri sg ts secret = true -> sig_spec now uri sg ts secret = true.
Proof. exact sig_monitor_ok. Qed.
Print Assumptions C07_monitor_signature_ok.

(* ---- 5. the request on the wire: ParseForm precedence ------------------------------------- *)
(* [serve_wire] = [serve] after reading the parameters the way net/http does: Form.Get is the first
   body value when the body is read (POST + urlencoded), else the first query value. A code or
   sign-out redirect goes to exactly that value, and BOTH gates judged that very value, with sig
   and ts read the same way — whatever else the client put in the query or the body. *)
Theorem C07_wire_redirect_reads_form : forall c now ep w src hw,
  serve_wire c now ep w = ORedirect src hw -> (ep = EpSignIn \/ ep = EpSignOut) ->
  src = form_get w k_redirect_uri /\
  valid_redirect_uri src (root_domains c) = true /\
  valid_signature now src (sig_lookup (w_sigtab w) (form_get w k_sig)) (form_get w k_ts) (c_secret c) = true.
Proof. exact wire_redirect_reads_form. Qed.
Print Assumptions C07_wire_redirect_reads_form.

(* ... so the target is a presented value that a presented (sig, ts) pair vouches for *)
Theorem C07_wire_redirect_presented : forall c now ep w src hw,
  serve_wire c now ep w = ORedirect src hw -> (ep = EpSignIn \/ ep = EpSignOut) ->
  In src (presented w k_redirect_uri) /\
  exists s t, In s (presented w k_sig) /\ In t (presented w k_ts) /\
              valid_signature now src (sig_lookup (w_sigtab w) s) t (c_secret c) = true.
Proof. exact wire_redirect_presented. Qed.
Print Assumptions C07_wire_redirect_presented.

(* non-vacuity, and the precedence itself: POST /sign_out with a signed in-domain link in the query
   and an attacker URI in a urlencoded body is judged on the BODY value (400); with the signed link
   in the body it is redirected there *)
Example C07_wire_body_wins :
  let good := [104;116;116;112;115;58;47;47;97;46;101;120;46;99;111;109;47] in             (* https://a.ex.com/ *)
  let evil := [104;116;116;112;115;58;47;47;120;46;110;101;116;47] in                      (* https://x.net/ *)
  let c := {| c_domains := [[101;120;46;99;111;109]]; c_secret := [115]; c_client_id := [105]; c_scheme := [104;116;116;112;115] |} in
  let w q b := {| w_meth := POST; w_form_ok := true; w_ctype := CtUrlencoded;
                  w_query := q; w_body := b;
                  w_sigtab := [([83], SigTag (Mac [115] (good ++ dec 1000)))]; w_statetab := []; w_starttab := []; w_qoktab := [];
                  w_session := SessNone; w_provider_valid := true; w_revoke_ok := true;
                  w_cb_redeem_ok := true; w_cb_csrf := None; w_cb_user_ok := true |} in
  let signed := [(k_redirect_uri, good); (k_sig, [83]); (k_ts, [49;48;48;48])] in
  serve_wire c (1100 * ns)%Z EpSignOut (w signed [(k_redirect_uri, evil)]) = OErr 400 /\
  serve_wire c (1100 * ns)%Z EpSignOut (w [(k_redirect_uri, evil)] signed) = ORedirect good Verbatim.
Proof. split; vm_compute; reflexivity. Qed.

(* the answer depends on the clock only through the one-sided freshness test: if the service read
   its clock anywhere in [lo, hi] during the request, it answered as the model does for one of the
   two ends (case CServeT of the correspondence: sequences that re-present a link on the same
   instance after its five minutes have passed, with small real-time margins) *)
Theorem C07_clock_bracket : forall c lo mid hi ep w,
  (lo <= mid)%Z -> (mid <= hi)%Z ->
  serve_wire c mid ep w = serve_wire c lo ep w \/ serve_wire c mid ep w = serve_wire c hi ep w.
Proof. intros c lo mid hi ep w. exact (serve_clock_bracket c lo mid hi ep (request_of_wire ep w)). Qed.
Print Assumptions C07_clock_bracket.

(* the outermost handler the binary installs (NewAuthenticatorMux: /ping, host router, path router)
   adds no redirect of its own: a 3xx or a login start comes from a route of the authenticator, for
   a request whose Host header is exactly the configured one *)
Theorem C07_outer_adds_no_redirect : forall c sh rh p now w o,
  outer_serve c sh rh p now w = o ->
  (exists src hw, o = ORedirect src hw) \/ (exists a, o = OIdP a) ->
  exists ep, p = OpRoute ep /\ rh = sh /\ serve_wire c now ep w = o.
Proof. exact outer_redirect_from_route. Qed.
Print Assumptions C07_outer_adds_no_redirect.

(* ---- 6. the monitor on wire requests accepts the model's predictions ----------------------- *)
Theorem C07_monitor_serve_ok : forall c now ep w,
  (forall src hw, ep = EpSignOut -> serve_wire c now ep w = ORedirect src hw -> forallb (fun b => b <? 128) src = true ->
     serve_holds c now ep w 302 (Some (hex_escape_non_ascii src)) None = true) /\
  (forall src hw, ep = EpCallback -> serve_wire c now ep w = ORedirect src hw -> forallb (fun b => b <? 128) src = true ->
     serve_holds c now ep w 302 (Some (hex_escape_non_ascii src)) None = true) /\
  (forall a loc, serve_wire c now ep w = OIdP a -> serve_holds c now ep w 302 loc (Some a) = true) /\
  (forall src, serve_wire c now ep w = ORedirect src WithCode ->
     ep = EpSignIn /\ In src (presented w k_redirect_uri) /\
     rfc_in_domain src (c_domains c) = true /\ signed_among c now w src = true).
Proof.
  intros c now ep w. split; [|split; [|split]].
  - intros src hw -> H A. exact (serve_holds_wire_sign_out c now w src hw H A).
  - intros src hw -> H A. exact (serve_holds_wire_callback c now w src hw H A).
  - intros a loc. exact (serve_holds_wire_idp c now ep w a loc).
  - intros src. exact (serve_wire_code_clauses c now ep w src).
Qed.
Print Assumptions C07_monitor_serve_ok.
