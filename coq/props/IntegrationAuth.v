(* IntegrationAuth — end-to-end theorems about the INTEGRATION model of sso-auth
   (theories/AuthAll.v: serve : deployment -> request -> oracles -> provider answers -> time ->
   response, the whole request path of every endpoint), obtained by composing the per-property
   theorems C07, C08, C09, C10, C18, C19, C20 through adapters that are proved faithful.
   This file contains only statements; each is closed by [exact <lemma>].
   [lower] is strings.ToLower (any function). Time is nanoseconds (now_ns); sessions compare
   against whole seconds (now_ns / ns). *)
From V Require Import Base AuthAll AuthAll_proofs Gen_AuthBackRoutes.
From V Require Import CorrBase Corr_IntAuth Corr_IntAuth_proofs.

(* The route table of the model IS the table in the Go source of newMux (all eight routes: path,
   methods, middleware chain IN ORDER, handler; nothing else), and route paths are distinct. *)
Theorem INT_routes_from_source :
  translate_all auth_routes_src = Some all_routes /\ NoDup (map rt_path all_routes).
Proof. exact (conj source_table_is_all_routes route_paths_distinct). Qed.
Print Assumptions INT_routes_from_source.

(* Host check and slug-prefix routing (mux.go): a response went through setHeaders of an authenticator
   exactly when the request names this deployment's host, is not /ping, has a clean path and a
   registered provider slug as path prefix; everything else — another Host (421), an unknown
   path (404), gorilla's clean-path 301, /ping, /robots.txt, /static/ — has no effect at all: no
   handler, no cookie, no IdP call, no redirect to a caller-supplied place, no data in the body.
   Inside an authenticator an unknown route is 404 (or the clean-path 301), equally without effect. *)
Theorem INT_routing :
  forall (lower : str -> str) (d : deployment) (q : request) (o : oracles) (an : answers) (now_ns : Z),
  let resp := serve lower d q o an now_ns in
  (r_secured resp = true <-> (exists (slug : str) (k : akind) (rest : str), routed d q slug k rest)) /\
  (r_secured resp = false -> no_effect resp) /\
  (q_path q <> p_ping -> q_host q <> d_host d -> r_status resp = 421 /\ no_effect resp) /\
  (forall (slug : str) (k : akind) (rest : str),
   routed d q slug k rest ->
   ~ In rest (map rt_path all_routes) -> no_effect resp /\ (r_status resp = 301 \/ r_status resp = 404)).
Proof. exact routing_end_to_end. Qed.
Print Assumptions INT_routing.

(* A response — of ANY request to ANY host / path / method, with any cookies, provider answers,
   oracle behaviour and time — whose Location carries code= :
   the route is GET /<slug>/sign_in of a registered provider behind the gates of newMux in their
   order (C08's client id, C07's redirect and signature gates, now CONCRETE functions of the
   request bytes); redirect_uri's host is in a root domain under every RFC 3986 reading (C07), and
   so is the host of the Location text actually written; the signature is the MAC under the client
   secret of redirect_uri ++ decimal(ts), at most 5 minutes old (and issued by the proxy, under the
   ideal-MAC hypothesis); the cookie opens under the COOKIE key to a session within its lifetime
   whose e-mail passes the rule and which the IdP confirmed in THIS request (refresh answered 200
   with a token document, or the access token validated) (C09); the code seals exactly that session
   under the AUTH-CODE key: presented at /redeem with the client credentials within its deadlines
   it yields that session's e-mail and tokens (C08).
   Guards, all explicit: the AEAD oracle o_open is consulted as is (what a string opens to is the
   driver's / the cipher's business: symbolic crypto); byte_ok / scheme_ok only for the clause
   about the written Location; issued_only only for the provenance clause. *)
Theorem INT_code_end_to_end :
  forall (lower : str -> str) (d : deployment) (q : request) (o : oracles) (an : answers) 
    (now_ns : Z) (src : str) (s : F.session),
  r_loc (serve lower d q o an now_ns) = LCode src s ->
  let resp := serve lower d q o an now_ns in
  let r := inner q p_sign_in in
  let now_s := (now_ns / ns)%Z in
  exists (slug : str) (k : akind),
    routed d q slug k p_sign_in /\
    sign_in_gates_pass d o now_ns q /\
    src = redirect_value r /\
    B.form_get k_state (the_form r) <> [] /\
    (forall (sch ui : option str) (h : str) (port : option str) (rest : str),
     Url.rfc_split src sch ui h port rest -> G.in_domain (Url.rfc_hostname h) (d_proxy_domains d)) /\
    (forallb Url.byte_ok src = true ->
     d_scheme d = [] \/ Url.scheme_ok (d_scheme d) ->
     exists u : Url.url,
       Url.go_parse src = Some u /\
       (forall (tail : str) (s' ui' : option str) (h' : str) (p' : option str) (r' : str),
        Url.rest_ok tail ->
        Url.rfc_split (Url.authority_string (d_scheme d) u ++ tail) s' ui' h' p' r' ->
        G.in_domain (Url.rfc_hostname h') (d_proxy_domains d))) /\
    (exists t : Z,
       G.parse_int (ts_value r) = Some t /\
       sigval_of o (sig_value r) = G.SigTag (G.Mac (d_client_secret d) (src ++ G.dec t)) /\
       (now_ns - t * ns <= G.ttl_ns)%Z) /\
    (forall issued : list (str * Z),
     G.issued_only (d_client_secret d) issued (sigval_of o (sig_value r)) ->
     G.signed_fresh now_ns issued src (ts_value r)) /\
    (exists (c : str) (s0 : F.session),
       lookup slug (q_sess q) = Some c /\
       o_open o c = Some (d_cookie_key d, to_back s0) /\
       (now_s <= F.s_lifetime s0)%Z /\
       F.rule_passes lower (fcfg d) (F.s_email s0) = true /\
       F.s_email s = F.s_email s0 /\
       F.s_lifetime s = F.s_lifetime s0 /\
       F.s_rtok s = F.s_rtok s0 /\
       r_sess_ops resp = [F.OpSet s] /\
       (exists calls : list F.idp_call,
          r_calls resp = map CIdp calls /\
          (FP.refreshed_ok now_s s0 (an_refresh an) s calls \/
           FP.validated_ok (fkind k) now_s s0 (an_validate an) s calls))) /\
    r_status resp = 302 /\
    (forall (q' : request) (o' : oracles) (an' : answers) (now_ns' : Z) (slug' : str) (k' : akind) (c : str),
     routed d q' slug' k' B.p_redeem ->
     redeem_request_ok d q' ->
     B.presented_code (inner q' B.p_redeem) = c ->
     o_open o' c = Some (d_code_key d, to_back s) ->
     (now_ns' / ns <= F.s_refresh s)%Z ->
     (now_ns' / ns <= F.s_lifetime s)%Z ->
     let resp' := serve lower d q' o' an' now_ns' in
     r_status resp' = 200 /\
     r_body resp' = BJson (session_json (to_back s) (now_ns' / ns)) /\ r_calls resp' = []).
Proof. exact code_end_to_end. Qed.
Print Assumptions INT_code_end_to_end.

(* A session cookie is SET (any request whatsoever) only
   - by GET /<slug>/callback, when the state parameter base64-decodes (concrete decoder) to
     nonce ":" redirect with a colon-free nonce EQUAL to the browser's CSRF cookie, the redirect
     re-validated by the concrete validRedirectURI (host in a root domain under every RFC reading),
     no error parameter, and the provider's Redeem (IdToken's model, C10) returned a session whose
     e-mail the IdP vouched for: token endpoint 200 + JSON carrying the tokens, e-mail = the verified
     e-mail of the id_token payload (Google) / of the userinfo answer (Okta); that e-mail passes the
     rule; lifetime = now + SESSION_LIFETIME; the CSRF cookie is cleared; 302 to that redirect; or
   - by /<slug>/sign_in as a re-save of the session the browser presented (same owner, refresh
     token and lifetime; the very same session unless a refresh was due). *)
Theorem INT_login_end_to_end :
  forall (lower : str -> str) (d : deployment) (q : request) (o : oracles) (an : answers) 
    (now_ns : Z) (s : F.session),
  let resp := serve lower d q o an now_ns in
  In (F.OpSet s) (r_sess_ops resp) ->
  exists (slug : str) (k : akind),
    routed d q slug k p_callback /\
    (let r := inner q p_callback in
     let code := B.form_get B.k_code (the_form r) in
     B.rq_method r = B.m_get /\
     (exists (nonce redirect : list N) (ts : T.session),
        S.b64_decode (B.form_get k_state (the_form r)) = Some (nonce ++ F.colon :: redirect) /\
        ~ In F.colon nonce /\
        lookup slug (q_csrf q) = Some nonce /\
        G.valid_redirect_uri redirect (root_domains d) = true /\
        (forall (sch ui : option str) (h : str) (port : option str) (rest : str),
         Url.rfc_split redirect sch ui h port rest -> G.in_domain (Url.rfc_hostname h) (d_proxy_domains d)) /\
        B.form_get k_error (the_form r) = [] /\
        T.redeem true (tprov k) (an_payload an) code (an_tok an) (an_ui an) = T.Session ts /\
        idp_vouched k an code ts /\
        F.rule_passes lower (fcfg d) (T.s_email ts) = true /\
        s =
        F.redeemed_session (fcfg d) (now_ns / ns) (T.s_email ts) (T.s_access ts) (T.s_refresh ts)
          (T.s_expires_in ts) /\
        r_loc resp = LVerbatim redirect /\
        r_status resp = 302 /\
        r_sess_ops resp = [F.OpSet s] /\
        r_csrf_ops resp = [{| F.sc_value := []; F.sc_expired := true |}] /\
        r_calls resp = [CIdp (F.CallRedeem code)])) \/
    routed d q slug k p_sign_in /\
    (exists (c : str) (s0 : F.session),
       lookup slug (q_sess q) = Some c /\
       o_open o c = Some (d_cookie_key d, to_back s0) /\
       (now_ns / ns <= F.s_lifetime s0)%Z /\
       F.s_email s = F.s_email s0 /\
       F.s_rtok s = F.s_rtok s0 /\
       F.s_lifetime s = F.s_lifetime s0 /\ ((now_ns / ns <= F.s_refresh s0)%Z -> s = s0)).
Proof. exact login_end_to_end. Qed.
Print Assumptions INT_login_end_to_end.

(* Back channel, headers, bodies — for every request:
   (a) a back-channel handler (Redeem / Refresh / GetProfile / ValidateToken) runs only on its own
       route with the allowed method for a caller who presented the configured client id and
       secret (C08), which then occur among the values the caller sent; a JSON document in a body
       comes only from such a handler; without the credentials: 405 / 500 (bare mux, unparsable
       form) / 401, no IdP call, no cookie effect, an error body; /redeem answers 200 only for a
       string that opens under the auth-code key to a session within both deadlines and then
       echoes exactly it;
   (b) every response from inside an authenticator carries every header of the generated security
       table with exactly the table's value, whatever the handler did (C18);
   (c) a response >= 400 from inside an authenticator has one of five body kinds: the error.html
       page, the JSON error document (both proved inert for every message text:
       INT_error_bodies_inert), http.Error's text/plain, an empty body, or the sign-out page
       with the constant error message. *)
Theorem INT_backchannel :
  forall (lower : str -> str) (d : deployment) (q : request) (o : oracles) (an : answers) (now_ns : Z),
  let resp := serve lower d q o an now_ns in
  (forall h : B.handler,
   r_ran resp = Some (HBack h) ->
   exists (slug : str) (k : akind),
     routed d q slug k (rt_path (rt_back h)) /\
     (let r := inner q (rt_path (rt_back h)) in
      mem_str (B.rq_method r) (rt_methods (rt_back h)) = true /\
      B.presented_id r = d_client_id d /\
      B.presented_secret r = d_client_secret d /\
      (d_client_id d <> [] ->
       d_client_secret d <> [] ->
       In (d_client_id d) (B.id_values r) /\ In (d_client_secret d) (B.secret_values r)))) /\
  (forall b : B.body, r_body resp = BJson b -> exists h : B.handler, r_ran resp = Some (HBack h)) /\
  (forall (slug : str) (k : akind) (h : B.handler),
   routed d q slug k (rt_path (rt_back h)) ->
   r_ran resp = None ->
   r_calls resp = [] /\
   r_sess_ops resp = [] /\
   r_body resp = err_body (inner q (rt_path (rt_back h))) (r_status resp) /\
   (r_status resp = 405 \/
    r_status resp = 500 /\ d_pre d = false \/
    r_status resp = 401 /\
    (B.presented_id (inner q (rt_path (rt_back h))) <> d_client_id d \/
     B.presented_secret (inner q (rt_path (rt_back h))) <> d_client_secret d))) /\
  (forall (slug : str) (k : akind),
   routed d q slug k B.p_redeem ->
   r_status resp = 200 ->
   exists s : B.session,
     o_open o (B.presented_code (inner q B.p_redeem)) = Some (d_code_key d, s) /\
     (now_ns / ns <= B.s_refresh_dl s)%Z /\
     (now_ns / ns <= B.s_lifetime_dl s)%Z /\
     r_body resp = BJson (session_json s (now_ns / ns)) /\ r_calls resp = []) /\
  (forall (slug : str) (k : akind) (rest : str),
   routed d q slug k rest ->
   forall key v : str, H.tbl_lookup key HP.AT = Some v -> H.hget key (headers_of resp) = [H.VStr v]) /\
  (r_secured resp = true ->
   400 <= r_status resp ->
   r_body resp = BErrPage (r_status resp) \/
   r_body resp = BErrJson (r_status resp) \/
   r_body resp = BPlain \/
   r_body resp = BEmpty \/ (exists e u sg t : str, r_body resp = BSignOutPage e u sg t true)).
Proof. exact backchannel_end_to_end. Qed.
Print Assumptions INT_backchannel.

Theorem INT_security_headers :
  forall (r : response) (k v : str),
  r_secured r = true -> H.tbl_lookup k HP.AT = Some v -> H.hget k (headers_of r) = [H.VStr v].
Proof. exact security_headers_int. Qed.
Print Assumptions INT_security_headers.

(* C20 for the two error bodies of ErrorResponse, for EVERY title and message text: the rendered
   error.html pages of one status code all have the same tag skeleton and end in the data state;
   the JSON document is one well-formed object {"error": <JSON string>}. *)
Theorem INT_error_bodies_inert :
  (forall (code : N) (t1 m1 t2 m2 : str),
   match
     Html.render_page Gen_Templates.auth_templates Html_pages_proofs.n_error (error_page_data code t1 m1)
   with
   | Some r1 =>
       match
         Html.render_page Gen_Templates.auth_templates Html_pages_proofs.n_error (error_page_data code t2 m2)
       with
       | Some r2 =>
           Html.skeleton r1 = Html.skeleton r2 /\
           Html.final_state r1 = Html.SData /\ Html.final_state r2 = Html.SData
       | None => False
       end
   | None =>
       match
         Html.render_page Gen_Templates.auth_templates Html_pages_proofs.n_error (error_page_data code t2 m2)
       with
       | Some _ => False
       | None => True
       end
   end) /\ (forall msg : str, Json.json_error_doc_ok (Json.auth_error_json msg) = true).
Proof. exact error_bodies_inert. Qed.
Print Assumptions INT_error_bodies_inert.

(* C19 through the real gate order, for every request: a token reaches the IdP's revoke endpoint
   only from POST /<slug>/sign_out behind both concrete gates, and it is the presented session's
   own token; the cookie is cleared only on such a POST together with the redirect back, and for a
   loadable session only after the IdP confirmed the revocation (failure: 500 page, cookie kept);
   GET is passive; without valid gates nothing happens; the redirect target is the validated,
   signed, fresh URI whose host is in a root domain under every RFC reading. *)
Theorem INT_signout :
  forall (lower : str -> str) (d : deployment) (q : request) (o : oracles) (an : answers) (now_ns : Z),
  let resp := serve lower d q o an now_ns in
  (forall tok : str,
   In (CRevoke tok) (r_calls resp) -> exists (slug : str) (k : akind), routed d q slug k p_sign_out) /\
  (forall (slug : str) (k : akind),
   routed d q slug k p_sign_out ->
   let r := inner q p_sign_out in
   let ack := acookie_of (cookie_of d o (lookup slug (q_sess q))) in
   let uri := redirect_value r in
   (AuthAll_proofs.has_clear (r_sess_ops resp) ->
    B.rq_method r = B.m_post /\
    sign_out_gates_pass d o now_ns q /\
    r_loc resp = LVerbatim uri /\
    r_status resp = 302 /\
    (ack = S.ACJunk /\ r_calls resp = [] \/
     (exists s : S.asession,
        ack = S.ACSealed s /\
        r_calls resp = [CRevoke (S.revoke_token (sprov k) s)] /\ S.revoke_ok (sprov k) (an_revoke an) = true))) /\
   (forall tok : str,
    In (CRevoke tok) (r_calls resp) ->
    exists s : S.asession,
      ack = S.ACSealed s /\
      tok = S.revoke_token (sprov k) s /\ B.rq_method r = B.m_post /\ sign_out_gates_pass d o now_ns q) /\
   (B.rq_method r = B.m_get -> r_sess_ops resp = [] /\ r_calls resp = []) /\
   (forall s : S.asession,
    ack = S.ACSealed s ->
    B.rq_method r = B.m_post ->
    sign_out_gates_pass d o now_ns q ->
    r_calls resp = [CRevoke (S.revoke_token (sprov k) s)] /\
    (S.revoke_ok (sprov k) (an_revoke an) = false ->
     r_status resp = 500 /\ r_sess_ops resp = [] /\ r_loc resp = LNone) /\
    (S.revoke_ok (sprov k) (an_revoke an) = true -> r_loc resp = LVerbatim uri /\ r_sess_ops resp = [F.OpClear])) /\
   (~ sign_out_gates_pass d o now_ns q ->
    r_sess_ops resp = [] /\ r_calls resp = [] /\ r_loc resp = LNone /\ r_ran resp = None) /\
   (forall src : str,
    r_loc resp = LVerbatim src ->
    src = uri /\
    sign_out_gates_pass d o now_ns q /\
    (forall (sch ui : option str) (h : str) (port : option str) (rest : str),
     Url.rfc_split src sch ui h port rest -> G.in_domain (Url.rfc_hostname h) (d_proxy_domains d)) /\
    (exists t : Z,
       G.parse_int (ts_value r) = Some t /\
       sigval_of o (sig_value r) = G.SigTag (G.Mac (d_client_secret d) (src ++ G.dec t)) /\
       (now_ns - t * ns <= G.ttl_ns)%Z))).
Proof. exact signout_end_to_end. Qed.
Print Assumptions INT_signout.

(* A login is started at the identity provider only by GET /<slug>/start, for an outer and a nested
   URI that both pass the concrete validRedirectURI, the nested one signed and fresh; the state
   handed to the IdP is nonce ":" outer, and that nonce is the CSRF cookie this response sets. *)
Theorem INT_start :
  forall (lower : str -> str) (d : deployment) (q : request) (o : oracles) (an : answers) 
    (now_ns : Z) (st : str),
  let resp := serve lower d q o an now_ns in
  r_loc resp = LIdP st ->
  exists (slug : str) (k : akind),
    routed d q slug k p_start /\
    (let r := inner q p_start in
     let raw := B.form_get k_redirect_uri (B.url_query r) in
     B.rq_method r = B.m_get /\
     (exists a b nraw nsig nts : str,
        o_parse_string o raw = Some a /\
        o_nested o raw = (nraw, nsig, nts) /\
        o_parse_string o nraw = Some b /\
        G.valid_redirect_uri a (root_domains d) = true /\
        G.valid_redirect_uri b (root_domains d) = true /\
        (forall (sch ui : option str) (h : str) (port : option str) (rest : str),
         Url.rfc_split a sch ui h port rest -> G.in_domain (Url.rfc_hostname h) (d_proxy_domains d)) /\
        (forall (sch ui : option str) (h : str) (port : option str) (rest : str),
         Url.rfc_split b sch ui h port rest -> G.in_domain (Url.rfc_hostname h) (d_proxy_domains d)) /\
        (exists t : Z,
           G.parse_int nts = Some t /\
           sigval_of o nsig = G.SigTag (G.Mac (d_client_secret d) (b ++ G.dec t)) /\
           (now_ns - t * ns <= G.ttl_ns)%Z) /\
        st = an_nonce an ++ F.colon :: a /\
        r_csrf_ops resp = [{| F.sc_value := an_nonce an; F.sc_expired := false |}] /\
        r_status resp = 302 /\ r_sess_ops resp = [] /\ r_calls resp = [])).
Proof. exact start_end_to_end. Qed.
Print Assumptions INT_start.

(* Every redirect to a caller-supplied URI — verbatim (/sign_out, /callback) or with a code
   (/sign_in) — at any endpoint, for any request: that URI passed the concrete validRedirectURI,
   so its host, under every RFC 3986 reading, is in a configured root domain. *)
Theorem INT_redirects_in_domain :
  forall (lower : str -> str) (d : deployment) (q : request) (o : oracles) (an : answers) 
    (now_ns : Z) (src : str),
  let resp := serve lower d q o an now_ns in
  r_loc resp = LVerbatim src \/ (exists s : F.session, r_loc resp = LCode src s) ->
  G.valid_redirect_uri src (root_domains d) = true /\
  (forall (sch ui : option str) (h : str) (port : option str) (rest : str),
   Url.rfc_split src sch ui h port rest -> G.in_domain (Url.rfc_hostname h) (d_proxy_domains d)).
Proof. exact redirects_in_domain. Qed.
Print Assumptions INT_redirects_in_domain.

(* ADAPTER (C08): on the four back-channel paths the integration model IS AuthBack.serve (route
   table, both gates, form-state threading, handlers) read through [of_back] — with the provider
   interface answers computed from the IdP's HTTP answers by AuthFlow's provider model. *)
Theorem INT_adapter_back :
  forall (lower : str -> str) (d : deployment) (o : oracles) (now_ns : Z) (slug : str) 
    (p : akind) (q : request) (an : answers) (h : B.handler),
  serve_auth lower d slug p q (rt_path (rt_back h)) o an now_ns =
  of_back d o now_ns p an (inner q (rt_path (rt_back h)))
    (B.serve (bcfg d) (benv d p o an (now_ns / ns)) (d_pre d) (inner q (rt_path (rt_back h)))).
Proof. exact back_adapter_serve. Qed.
Print Assumptions INT_adapter_back.

(* ADAPTER (C09): the /sign_in route IS AuthFlow.sign_in_route with its four oracle booleans
   REPLACED by concrete functions of the request (method test, AuthBack's presented_id against the
   configured id, AuthGates' valid_redirect_uri and valid_signature on the parsed form), read
   through [of_flow_sign_in]. Two things AuthFlow leaves out appear explicitly: the 500 of the first
   gate on an unparsable form (bare mux), and the 500 when the redirect's own query does not parse. *)
Theorem INT_adapter_sign_in :
  forall (lower : str -> str) (d : deployment) (o : oracles) (now_ns : Z) (slug : str) 
    (p : akind) (q : request) (an : answers) (r : B.request),
  serve_route lower d slug p q o an now_ns rt_sign_in r (B.init_state (d_pre d) r) =
  (if method_ok [B.m_get] r && init_err d r
   then gate_err r 500
   else
    of_flow_sign_in r (o_query_ok o (redirect_value r)) (redirect_value r)
      (if gates_all d o now_ns r then Some HSignIn else None)
      (F.sign_in_route lower (fcfg d) (fkind p) (now_ns / ns) (si_request_of d o now_ns r)
         (cookie_of d o (lookup slug (q_sess q))) (an_refresh an) (an_validate an))).
Proof. exact sign_in_adapter. Qed.
Print Assumptions INT_adapter_sign_in.

Theorem INT_adapter_start :
  forall (lower : str -> str) (d : deployment) (o : oracles) (now_ns : Z) (slug : str) 
    (p : akind) (q : request) (an : answers) (r : B.request),
  serve_route lower d slug p q o an now_ns rt_start r (B.init_state (d_pre d) r) =
  of_flow_start r (if method_ok [B.m_get] r then Some HStart else None)
    (F.oauth_start (an_nonce an)
       (let sr := start_request_of d o now_ns r in
        {|
          F.st_get := method_ok [B.m_get] r;
          F.st_outer_ok := F.st_outer_ok sr;
          F.st_inner_ok := F.st_inner_ok sr;
          F.st_sig_ok := F.st_sig_ok sr;
          F.st_redirect := F.st_redirect sr
        |})).
Proof. exact start_adapter. Qed.
Print Assumptions INT_adapter_start.

(* ADAPTER (C09/C10): /callback IS AuthFlow.oauth_callback with cb_state computed by SignOut's
   concrete base64 decoder, cb_redirect_ok := AuthGates' valid_redirect_uri, and the redeem reply
   computed by IdToken.redeem from the IdP's token / userinfo answers. *)
Theorem INT_adapter_callback :
  forall (lower : str -> str) (d : deployment) (o : oracles) (now_ns : Z) (slug : str) 
    (p : akind) (q : request) (an : answers) (r : B.request),
  serve_route lower d slug p q o an now_ns rt_callback r (B.init_state (d_pre d) r) =
  (if method_ok [B.m_get] r && init_err d r
   then err_with r 500 [] [] [] (Some HCallback)
   else
    of_flow_callback r (if method_ok [B.m_get] r then Some HCallback else None)
      (F.oauth_callback lower (fcfg d) (now_ns / ns) (cb_request_full d slug q r)
         (rd_of p an (B.form_get B.k_code (the_form r))))).
Proof. exact callback_adapter. Qed.
Print Assumptions INT_adapter_callback.

(* ADAPTER (C07): AuthGates' route view, with its request record COMPUTED from the concrete request
   (gview, gview_start, gview_cb), sends the browser where the integration model sends it: same code redirect (same
   source URI), same verbatim redirect, same IdP redirect (same carried URI), and the same status
   whenever a gate refuses. So every C07 theorem about AuthGates.serve speaks about this model. *)
Theorem INT_adapter_gates_sign_in :
  forall (lower : str -> str) (d : deployment) (o : oracles) (now_ns : Z) (slug : str) 
    (p : akind) (q : request) (an : answers) (r : B.request),
  loc_agrees
    (G.serve (gcfg d) now_ns G.EpSignIn (gview d o p an r (gsess_sign_in lower d o now_ns slug p q an)))
    (serve_route lower d slug p q o an now_ns rt_sign_in r (B.init_state (d_pre d) r)).
Proof. exact gates_view_sign_in. Qed.
Print Assumptions INT_adapter_gates_sign_in.

Theorem INT_adapter_gates_sign_out :
  forall (lower : str -> str) (d : deployment) (o : oracles) (now_ns : Z) (slug : str) 
    (p : akind) (q : request) (an : answers) (r : B.request),
  loc_agrees (G.serve (gcfg d) now_ns G.EpSignOut (gview d o p an r (gsess_sign_out d o slug q)))
    (serve_route lower d slug p q o an now_ns rt_sign_out r (B.init_state (d_pre d) r)).
Proof. exact gates_view_sign_out. Qed.
Print Assumptions INT_adapter_gates_sign_out.

Theorem INT_adapter_gates_start :
  forall (lower : str -> str) (d : deployment) (o : oracles) (now_ns : Z) (slug : str) 
    (p : akind) (q : request) (an : answers) (r : B.request),
  loc_agrees (G.serve (gcfg d) now_ns G.EpStart (gview_start o r))
    (serve_route lower d slug p q o an now_ns rt_start r (B.init_state (d_pre d) r)).
Proof. exact gates_view_start. Qed.
Print Assumptions INT_adapter_gates_start.

Theorem INT_adapter_gates_callback :
  forall (lower : str -> str) (d : deployment) (o : oracles) (now_ns : Z) (slug : str) 
    (p : akind) (q : request) (an : answers) (r : B.request),
  loc_agrees (G.serve (gcfg d) now_ns G.EpCallback (gview_cb lower d slug p q an r))
    (serve_route lower d slug p q o an now_ns rt_callback r (B.init_state (d_pre d) r)).
Proof. exact gates_view_callback. Qed.
Print Assumptions INT_adapter_gates_callback.

(* ADAPTER (C19): behind its gates SignOut.auth_sign_out IS the integrated sign-out handler, for every
   MAC function and every gate-passing request with the same form values, cookie and IdP answer. *)
Theorem INT_adapter_signout_C19 :
  forall (mac : str -> str -> str) (secret : str) (now' : Z) (d : deployment) (slug : str) 
    (p : akind) (q : request) (o : oracles) (an : answers) (r : B.request) (parses dom : bool),
  let qa :=
    {|
      S.q_method := smethod (B.rq_method r);
      S.q_uri := redirect_value r;
      S.q_sig := sig_value r;
      S.q_ts := ts_value r;
      S.q_parses := parses;
      S.q_in_domain := dom;
      S.q_cookie := acookie_of (cookie_of d o (lookup slug (q_sess q)));
      S.q_idp := an_revoke an
    |} in
  SP.gates_pass mac secret now' qa = true ->
  smethod (B.rq_method r) <> S.MOther ->
  S.auth_sign_out mac secret (sprov p) now' qa = aresp_of (h_sign_out d slug p q o an r (Some (the_form r))).
Proof. exact signout_handler_is_C19. Qed.
Print Assumptions INT_adapter_signout_C19.

(* the hypotheses are satisfiable: a signed fresh in-domain /sign_in request with a live cookie
   gets a code, the back channel redeems that code, a valid POST /sign_out revokes and clears,
   another Host gets 421 *)
Theorem INT_nonvacuous :
  (let r := serve lower_ascii Ex.d Ex.q_sign_in Ex.o Ex.an (1100 * ns)%Z in
   r_status r = 302 /\ r_loc r = LCode Ex.uri (to_flow Ex.sess) /\ r_sess_ops r = [F.OpSet (to_flow Ex.sess)] /\
   r_calls r = [CIdp (F.CallValidate [116])]) /\
  (let r := serve lower_ascii Ex.d Ex.q_redeem Ex.o Ex.an (1200 * ns)%Z in
   r_status r = 200 /\ r_body r = BJson (session_json Ex.sess 1200)) /\
  (let r := serve lower_ascii Ex.d Ex.q_sign_out Ex.o Ex.an (1100 * ns)%Z in
   r_status r = 302 /\ r_loc r = LVerbatim Ex.uri /\ r_sess_ops r = [F.OpClear] /\ r_calls r = [CRevoke [116]]) /\
  (let r := serve lower_ascii Ex.d Ex.q_other_host Ex.o Ex.an (1100 * ns)%Z in
   r_status r = 421 /\ r_secured r = false /\ r_loc r = LNone) /\
  routed Ex.d Ex.q_sign_in [103] AGoogle p_sign_in.
Proof. exact nonvacuous. Qed.
Print Assumptions INT_nonvacuous.

(* The monitor of the correspondence driver (Corr_IntAuth.holds: the composite clauses above stated
   on OBSERVATIONS and on the generator's own bookkeeping, independently of the model's code path)
   accepts the model's own response for every deployment, request, oracle behaviour, provider
   answers and time, whenever the bookkeeping is consistent with the request ([sane]) and the
   configured e-mail domains carry no '@' (C11's guard): a monitor alarm is never an artefact of
   the monitor being stricter than the theorems. Guards inside [sane]: ASCII redirect URIs for the
   clauses that re-read the written Location, a non-empty server nonce, a valid ASCII scheme. *)
Theorem INT_monitor_accepts_model : forall (lower : str -> str) d q o an now_ns g,
  rule_guard lower d = true -> sane d q o an g ->
  holds lower d now_ns an g (obs_of d (g_state g) (serve lower d q o an now_ns)) = true.
Proof. exact monitor_accepts_model. Qed.
Print Assumptions INT_monitor_accepts_model.

Theorem INT_monitor_nonvacuous :
  sane Ex.d Ex.q_sign_in Ex.o Ex.an ex_ghost /\
  rule_guard lower_ascii Ex.d = true /\
  holds lower_ascii Ex.d (1100 * ns)%Z Ex.an ex_ghost
        (obs_of Ex.d (g_state ex_ghost) (serve lower_ascii Ex.d Ex.q_sign_in Ex.o Ex.an (1100 * ns)%Z)) = true.
Proof. exact sane_nonvacuous. Qed.
Print Assumptions INT_monitor_nonvacuous.
