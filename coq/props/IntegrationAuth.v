(* IntegrationAuth — end-to-end theorems about the integration model of sso-auth (AuthAll.v).
   This file contains only statements; each is closed by [exact <lemma>]. *)
From V Require Import Base AuthAll AuthAll_proofs Gen_AuthBackRoutes.

Theorem INT_routes_from_source : translate_all auth_routes_src = Some all_routes.
Proof. exact source_table_is_all_routes. Qed.
Print Assumptions INT_routes_from_source.
