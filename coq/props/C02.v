(* C02 — Sealed cookies, state tokens and auth codes are unforgeable and round-trip.
   Statements only; each is closed by [exact <lemma>].

   Reading guide. [ideal_aead K] is the Dolev-Yao abstraction of AES-CMAC-SIV (Aead.v): a free
   constructor [seal] and an [open] that succeeds exactly on what [seal] built; it is a structure the
   theorems quantify over (and [free_aead] inhabits it), not an axiom. [codec]/[uncodec] stand for
   gzip.json / gunzip.json: any pair with [uncodec (codec v) = Some v]. Everything else — nonce
   placement, the `len <= 16` check, base64url with Go's two decoder laxities — is concrete.
   [dec_mode] selects the decoder: [lax_mode] is what aead.go uses today ([repo_mode]), [strict_mode] is
   RawURLEncoding.Strict() plus refusing CR/LF. *)
From V Require Import Base B64 B64_proofs Aead Aead_proofs CorrBase Corr_C02 Corr_C02_proofs.

(* ---------------------------------------------------------------------------------------------- *)
(* base64url as Go implements it                                                                   *)

(* decode (encode b) = b for all byte lists, for both decoders *)
Theorem C02_b64_roundtrip : forall strict b,
  bytes_ok b -> go_b64url_decode strict (b64url_encode b) = Some b.
Proof. exact b64_roundtrip. Qed.
Print Assumptions C02_b64_roundtrip.

Theorem C02_b64_encode_inj : forall a b,
  bytes_ok a -> bytes_ok b -> b64url_encode a = b64url_encode b -> a = b.
Proof. exact b64_encode_inj. Qed.
Print Assumptions C02_b64_encode_inj.

(* Canonicity, full strength: with the strict decoder and CR/LF refused, the ONLY string that decodes
   to b is the encoding of b. *)
Theorem C02_b64_canonical_strict : forall s b,
  has_crlf s = false -> go_b64url_decode true s = Some b -> s = b64url_encode b.
Proof. exact b64_canonical_strict. Qed.
Print Assumptions C02_b64_canonical_strict.

(* Strict() alone still skips CR/LF: canonical only after removing them *)
Theorem C02_b64_canonical_strict_crlf : forall s b,
  go_b64url_decode true s = Some b -> strip_crlf s = b64url_encode b.
Proof. exact b64_canonical_strict_crlf. Qed.
Print Assumptions C02_b64_canonical_strict_crlf.

(* Canonicity for the decoder /repo uses today,
     forall s b, go_b64url_decode false s = Some b -> s = b64url_encode b,
   is FALSE: *)
Theorem C02_b64_canonical_refuted :
  (exists s b, go_b64url_decode false s = Some b /\ has_crlf s = false /\ s <> b64url_encode b) /\
  (exists s b, go_b64url_decode true s = Some b /\ s <> b64url_encode b).
Proof. exact (conj b64_canonical_refuted_bits b64_canonical_refuted_crlf). Qed.
Print Assumptions C02_b64_canonical_refuted.

(* ... the strongest true statements: an accepted string IS the canonical encoding once CR/LF are
   dropped and the ignored low bits of the last character are cleared ([normalize]); and it is literally
   canonical when it has no CR/LF and its length is a multiple of 4 *)
Theorem C02_b64_canonical_partial : forall strict s b,
  go_b64url_decode strict s = Some b -> normalize s = Some (b64url_encode b).
Proof. exact b64_canonical_partial. Qed.
Print Assumptions C02_b64_canonical_partial.

Theorem C02_b64_canonical_len4_partial : forall strict s b,
  has_crlf s = false -> (length s mod 4 = 0)%nat ->
  go_b64url_decode strict s = Some b -> s = b64url_encode b.
Proof. exact b64_canonical_len4. Qed.
Print Assumptions C02_b64_canonical_len4_partial.

(* ---------------------------------------------------------------------------------------------- *)
(* sealing                                                                                          *)

(* Sealing then opening returns exactly the original value (every decoder mode). *)
Theorem C02_roundtrip : forall (K V : Type) (A : ideal_aead K) (codec : V -> str) (uncodec : str -> option V),
  (forall v, uncodec (codec v) = Some v) ->
  forall m k n v, length n = 16%nat -> bytes_ok (encrypt (seal A) k n (codec v)) ->
  unmarshal (open A) uncodec m k (marshal (seal A) codec k n v) = Some v.
Proof. exact @roundtrip. Qed.
Print Assumptions C02_roundtrip.

(* Nothing opens that was not sealed under the same key: the presented string decodes to a complete
   joined form Seal(k, n, p) ++ n with a 16-byte nonce, p decodes to the returned value, and if p was
   produced by Marshal from a value v' then v' is the returned value. *)
Theorem C02_reject_unsealed : forall (K V : Type) (A : ideal_aead K) (codec : V -> str) (uncodec : str -> option V),
  (forall v, uncodec (codec v) = Some v) ->
  forall m k s v, unmarshal (open A) uncodec m k s = Some v ->
  exists n p, length n = 16%nat /\ decode_value m s = Some (encrypt (seal A) k n p) /\
              uncodec p = Some v /\ (forall v', p = codec v' -> v' = v).
Proof. exact @reject_unsealed. Qed.
Print Assumptions C02_reject_unsealed.

Theorem C02_reject_unsealed_exact : forall (K V : Type) (A : ideal_aead K) (codec : V -> str) (uncodec : str -> option V),
  (forall v, uncodec (codec v) = Some v) -> (forall p w, uncodec p = Some w -> p = codec w) ->
  forall m k s v, unmarshal (open A) uncodec m k s = Some v ->
  exists n, length n = 16%nat /\ decode_value m s = Some (encrypt (seal A) k n (codec v)).
Proof. intros K V A codec uncodec H1 H2 m k s v. exact (reject_unsealed_exact A codec uncodec H1 m k s v H2). Qed.
Print Assumptions C02_reject_unsealed_exact.

(* A value sealed under one key is rejected under every other key. *)
Theorem C02_wrong_key : forall (K V : Type) (A : ideal_aead K) (codec : V -> str) (uncodec : str -> option V),
  forall m k k' n v, k' <> k -> length n = 16%nat -> bytes_ok (encrypt (seal A) k n (codec v)) ->
  unmarshal (open A) uncodec m k' (marshal (seal A) codec k n v) = None.
Proof. exact @wrong_key. Qed.
Print Assumptions C02_wrong_key.

(* Any decoded form other than the genuine one opens only if it is, in its entirety, another genuine
   seal under the same key (other nonce or other plaintext); truncation, extension and a changed byte
   are instances; 16 bytes or fewer never open. *)
Theorem C02_modified : forall (K : Type) (A : ideal_aead K) k n p j' p',
  j' <> encrypt (seal A) k n p -> decrypt (open A) k j' = Some p' -> another_seal A k n p j' p'.
Proof. exact @modified. Qed.
Print Assumptions C02_modified.

Theorem C02_truncate : forall (K : Type) (A : ideal_aead K) k n p i p',
  (i < length (encrypt (seal A) k n p))%nat ->
  decrypt (open A) k (firstn i (encrypt (seal A) k n p)) = Some p' ->
  another_seal A k n p (firstn i (encrypt (seal A) k n p)) p'.
Proof. exact @truncate. Qed.
Print Assumptions C02_truncate.

Theorem C02_extend : forall (K : Type) (A : ideal_aead K) k n p x p',
  x <> [] -> decrypt (open A) k (encrypt (seal A) k n p ++ x) = Some p' ->
  another_seal A k n p (encrypt (seal A) k n p ++ x) p'.
Proof. exact @extend. Qed.
Print Assumptions C02_extend.

Theorem C02_flip : forall (K : Type) (A : ideal_aead K) k n p i x p',
  (i < length (encrypt (seal A) k n p))%nat -> nth i (encrypt (seal A) k n p) 0 <> x ->
  decrypt (open A) k (set_nth i x (encrypt (seal A) k n p)) = Some p' ->
  another_seal A k n p (set_nth i x (encrypt (seal A) k n p)) p'.
Proof. exact @flip. Qed.
Print Assumptions C02_flip.

Theorem C02_too_short : forall (K : Type) (A : ideal_aead K) k j,
  (length j <= 16)%nat -> decrypt (open A) k j = None.
Proof. exact @too_short. Qed.
Print Assumptions C02_too_short.

(* Sealing is injective in (key, nonce, value); sealing the same value with two nonces gives two
   different strings (that the nonces differ is crypto/rand's job). *)
Theorem C02_marshal_inj : forall (K V : Type) (A : ideal_aead K) (codec : V -> str) (uncodec : str -> option V),
  (forall v, uncodec (codec v) = Some v) ->
  forall k n v k' n' v', length n = length n' ->
  bytes_ok (encrypt (seal A) k n (codec v)) -> bytes_ok (encrypt (seal A) k' n' (codec v')) ->
  marshal (seal A) codec k n v = marshal (seal A) codec k' n' v' -> k = k' /\ n = n' /\ v = v'.
Proof. exact @marshal_inj. Qed.
Print Assumptions C02_marshal_inj.

Theorem C02_fresh : forall (K V : Type) (A : ideal_aead K) (codec : V -> str) (uncodec : str -> option V),
  (forall v, uncodec (codec v) = Some v) ->
  forall k n1 n2 v, length n1 = length n2 ->
  bytes_ok (encrypt (seal A) k n1 (codec v)) -> bytes_ok (encrypt (seal A) k n2 (codec v)) ->
  n1 <> n2 -> marshal (seal A) codec k n1 v <> marshal (seal A) codec k n2 v.
Proof. exact @fresh. Qed.
Print Assumptions C02_fresh.

(* "Any OTHER string is rejected" (canonicity of the sealed form):
     forall m k s v, unmarshal m k s = Some v -> exists n p, s = b64url_encode (encrypt k n p) /\ ...
   Proved in full for the strict mode: *)
Theorem C02_canonical_strict : forall (K V : Type) (A : ideal_aead K) (codec : V -> str) (uncodec : str -> option V),
  (forall v, uncodec (codec v) = Some v) ->
  forall m k s v, m_strict m = true -> m_nocrlf m = true -> unmarshal (open A) uncodec m k s = Some v ->
  exists n p, length n = 16%nat /\ s = b64url_encode (encrypt (seal A) k n p) /\ uncodec p = Some v /\
              (forall v', p = codec v' -> v' = v).
Proof. exact @canonical_strict. Qed.
Print Assumptions C02_canonical_strict.

(* ... and FALSE for the mode /repo uses today (known findings C02-K1, C02-K2): on the free instance
   two strings different from the genuine sealed string open to its value, one differing only in the
   unused bits of the last character, one with a line feed inserted. *)
Theorem C02_canonical_refuted :
  exists (k : N) (n v s1 s2 : str),
    w_unm repo_mode k (w_mar k n v) = Some v /\
    s1 <> w_mar k n v /\ has_crlf s1 = false /\ w_unm lax_mode k s1 = Some v /\
    s2 <> w_mar k n v /\ w_unm lax_mode k s2 = Some v.
Proof. exact canonical_refuted. Qed.
Print Assumptions C02_canonical_refuted.

(* CR or LF inserted anywhere never changes the verdict while CR/LF are not refused (all ideal AEADs,
   all strings): the defect is universal, not an artefact of the witness. *)
Theorem C02_crlf_malleable : forall (K V : Type) (A : ideal_aead K) (uncodec : str -> option V) m k c a b,
  m_nocrlf m = false -> is_crlf c = true ->
  unmarshal (open A) uncodec m k (a ++ c :: b) = unmarshal (open A) uncodec m k (a ++ b).
Proof. exact @crlf_malleable. Qed.
Print Assumptions C02_crlf_malleable.

(* The strongest true statements for every mode. *)
Theorem C02_canonical_partial : forall (K V : Type) (A : ideal_aead K) (codec : V -> str) (uncodec : str -> option V),
  (forall v, uncodec (codec v) = Some v) ->
  forall m k s v, unmarshal (open A) uncodec m k s = Some v ->
  exists n p, length n = 16%nat /\ normalize s = Some (b64url_encode (encrypt (seal A) k n p)) /\ uncodec p = Some v.
Proof. exact @canonical_partial. Qed.
Print Assumptions C02_canonical_partial.

Theorem C02_canonical_len4_partial : forall (K V : Type) (A : ideal_aead K) (codec : V -> str) (uncodec : str -> option V),
  (forall v, uncodec (codec v) = Some v) ->
  forall m k s v, has_crlf s = false -> (length s mod 4 = 0)%nat -> unmarshal (open A) uncodec m k s = Some v ->
  exists n p, length n = 16%nat /\ s = b64url_encode (encrypt (seal A) k n p) /\ uncodec p = Some v.
Proof. exact @canonical_len4. Qed.
Print Assumptions C02_canonical_len4_partial.

(* "Does not reveal the plaintext" is carried only this far: the sealed string is a function of
   (seal k n (codec v), n) and of nothing else; confidentiality of seal itself is an assumption. *)
Theorem C02_opaque_partial : forall (K V : Type) (A : ideal_aead K) (codec : V -> str),
  exists f : str -> str -> str, forall k n v, marshal (seal A) codec k n v = f (seal A k n (codec v)) n.
Proof. exact @opaque_partial. Qed.
Print Assumptions C02_opaque_partial.

(* The hypotheses are satisfiable: an ideal AEAD exists (the term algebra written as bytes). *)
Theorem C02_ideal_aead_inhabited : exists A : ideal_aead N, seal A = free_seal /\ open A = free_open.
Proof. exists free_aead. split; reflexivity. Qed.
Print Assumptions C02_ideal_aead_inhabited.

(* ---------------------------------------------------------------------------------------------- *)
(* the monitor applied to implementation observations accepts the model's own prediction            *)

Theorem C02_monitor_accepts_model : forall gs, forallb genuine_ok gs = true ->
  forall m pk p store, nodup_texts gs = true ->
  let s := presented gs p in
  let mo := model_unmarshal m gs pk s in
  store_agrees store mo = true ->
  let r := judge_seal m gs pk p mo store in
  r = 0 \/ (r = 101 /\ has_crlf s = false /\ m_strict m = false)
        \/ (r = 102 /\ has_crlf s = true /\ m_nocrlf m = false).
Proof. exact judge_model_ok. Qed.
Print Assumptions C02_monitor_accepts_model.

Theorem C02_monitor_accepts_strict_model : forall gs, forallb genuine_ok gs = true ->
  forall m pk p store, m_strict m = true -> m_nocrlf m = true -> nodup_texts gs = true ->
  store_agrees store (model_unmarshal m gs pk (presented gs p)) = true ->
  judge_seal m gs pk p (model_unmarshal m gs pk (presented gs p)) store = 0.
Proof. exact judge_model_strict. Qed.
Print Assumptions C02_monitor_accepts_strict_model.

(* ---------------------------------------------------------------------------------------------- *)
(* the cookie path: CookieStore.LoadSession behind net/http's Cookie header parsing                 *)

(* The value handed to Unmarshal is, byte for byte, a contiguous piece of one Cookie header line and
   consists of valid cookie-value bytes: nothing is percent-decoded, case-folded or joined. *)
Theorem C02_cookie_value_verbatim : forall name lines cv,
  cookie_lookup name lines = Some cv ->
  (exists line, In line lines /\ sub cv line) /\ forallb valid_cookie_value_byte cv = true.
Proof. exact cookie_lookup_sub. Qed.
Print Assumptions C02_cookie_value_verbatim.

(* LoadSession returns a session only if a Cookie line literally contains a string sealed under the
   store's key, and then returns what was sealed (strict mode = the code after fix 1bef7bb). *)
Theorem C02_load_session_canonical : forall (K V : Type) (A : ideal_aead K) (codec : V -> str) (uncodec : str -> option V),
  (forall v, uncodec (codec v) = Some v) ->
  forall m k name lines v, m_strict m = true -> m_nocrlf m = true ->
  load_session (open A) uncodec m k name lines = LSession v ->
  exists n p line, length n = 16%nat /\ In line lines /\
    sub (b64url_encode (encrypt (seal A) k n p)) line /\ uncodec p = Some v /\
    (forall v', p = codec v' -> v' = v).
Proof. exact @load_session_canonical. Qed.
Print Assumptions C02_load_session_canonical.

Theorem C02_monitor_accepts_cookie_model : forall gs m pk lines,
  forallb genuine_ok gs = true -> nodup_texts gs = true ->
  let r := judge_cookie m gs pk lines (model_store m gs pk lines) in
  r = 0 \/ (r = 101 /\ m_strict m = false) \/ (r = 102 /\ m_nocrlf m = false).
Proof. exact judge_cookie_model_ok. Qed.
Print Assumptions C02_monitor_accepts_cookie_model.
