(* Corr_C14.v — comparison and monitor for C14 (upstream configuration resolves fail-closed and
   field by field). No proofs here.

   The monitor ([holds]) is the property stated on what the real SetUpstreamConfigs returned:
     (a) fail-closed clauses checked directly on every observed upstream tuple;
     (b) the field-by-field clause: every observed field equals the FIRST STATED value along the
         chain  extra route > cluster block > default block > deployment default  ([fs] below),
         header maps key by key. This is written from the documentation's promise, not from
         mergo: it does not know about pointers, overwrite flags or merge directions.
   The model's prediction ([set_upstream_configs]) is used only for [mismatch] and for the
   attribution of known finding 1 (cluster `options:` replaces the default block's options). *)
From V Require Export Base CorrBase Config.
From V Require Validators Corr_C11.

(* ---- oracles from the tables carried by the case ---- *)
Fixpoint tab_get (t : list (str * bool)) (s : str) : option bool :=
  match t with [] => None | (a, b) :: t' => if str_eqb s a then Some b else tab_get t' s end.
(* the tables list only the strings a library REFUSES (plus any the harness cares to add):
   a string that is not listed is accepted. A forgotten entry can only show up as a mismatch. *)
Definition tab_fun (t : list (str * bool)) (s : str) : bool :=
  match tab_get t s with Some b => b | None => true end.
(* (scheme, host) that net/url yields for a from/to value completed with the configured scheme;
   an unlisted value has none (the harness lists every from/to value of the document) *)
Fixpoint parts_get (t : list (str * (str * str))) (s : str) : str * str :=
  match t with [] => ([], []) | (a, b) :: t' => if str_eqb s a then b else parts_get t' s end.
Definition lit_http : str := [104;116;116;112].
Record tables := MT { t_scheme : str; t_urls : list (str * bool); t_res : list (str * bool);
                      t_digs : list (str * bool); t_parts : list (str * (str * str)) }.
Definition oracle_of (T : tables) : oracle :=
  MOr (tab_fun (t_urls T)) (tab_fun (t_res T)) (tab_fun (t_digs T)) (parts_get (t_parts T)) (t_scheme T).
Definition no_tables : tables := MT lit_http [] [] [] [].


Inductive ccase :=
| CLoad (E : env) (T : tables) (d : doc) (obs : option (list upstream))
| CAdmit (ids : list (str * list str)) (pols : list Validators.policy) (adm : list (list N))
| CTmpl (tv : smap) (toks : list token) (obs : str)
| CBad (refused : bool).      (* YAML outside the documented shape (type errors): must be refused *)

(* The shard files name the case type [case]. *)
Definition case := ccase.

(* ---- literal helpers used by the generated shards (monomorphic constants: no implicit
   arguments to infer, which makes coqc several times faster on large case literals) ---- *)
Require Coq.Strings.Byte.
Inductive blit := BL (l : list Coq.Init.Byte.byte).
Definition blit_of (l : list Coq.Init.Byte.byte) : blit := BL l.
Definition blit_to (b : blit) : list Coq.Init.Byte.byte := match b with BL l => l end.
Declare Scope blit_scope.
Delimit Scope blit_scope with blit.
Bind Scope blit_scope with blit.
String Notation blit blit_of blit_to : blit_scope.
Definition s_ (b : blit) : str := map Coq.Strings.Byte.to_N (blit_to b).   (* a printable-ASCII string *)

Definition sn : list str := [].
Definition sc (a : str) (l : list str) : list str := a :: l.
Definition kn : smap := [].
Definition kc (k v : str) (m : smap) : smap := (k, v) :: m.
Definition rn : list routecfg := [].
Definition rc (a : routecfg) (l : list routecfg) : list routecfg := a :: l.
Definition cn : list (str * option block) := [].
Definition cc (k : str) (b : option block) (l : list (str * option block)) := (k, b) :: l.
Definition vn : doc := [].
Definition vc (a : service) (l : doc) : doc := a :: l.
Definition un : list upstream := [].
Definition uc (a : upstream) (l : list upstream) : list upstream := a :: l.
Definition bn : list (str * bool) := [].
Definition bc (k : str) (b : bool) (l : list (str * bool)) := (k, b) :: l.
Definition tn : list token := [].
Definition tc (a : token) (l : list token) : list token := a :: l.
Definition so (o : opts) : option opts := Some o.
Definition no : option opts := None.
Definition sb (b : block) : option block := Some b.
Definition nb : option block := None.
Definition su (l : list upstream) : option (list upstream) := Some l.
Definition nu : option (list upstream) := None.
Definition zs (n : N) : Z := (Z.of_N n * 1000000000)%Z.                        (* seconds -> ns *)
Definition zn (n : N) : Z := Z.of_N n.
Definition pn : list (str * (str * str)) := [].
Definition pc (k sch host : str) (l : list (str * (str * str))) := (k, (sch, host)) :: l.
Definition idn : list (str * list str) := [].
Definition idc (e : str) (g : list str) (l : list (str * list str)) := (e, g) :: l.
Definition poln : list Validators.policy := [].
Definition polc (a d g : list str) (l : list Validators.policy) := Validators.Build_policy a d g :: l.
Definition nn : list N := [].
Definition nc (a : N) (l : list N) : list N := a :: l.
Definition rown : list (list N) := [].
Definition rowc (r : list N) (l : list (list N)) := r :: l.
Definition case_nil : list case := [].
Definition case_cons (c : case) (l : list case) : list case := c :: l.

(* ---- first stated value along a chain of layers (most specific first) ---- *)
Definition fs {A} (emp : A -> bool) (zero : A) (layers : list A) : A :=
  match filter (fun x => negb (emp x)) layers with x :: _ => x | [] => zero end.

(* header maps, key by key: the first non-empty value stated for the key; "" when the key is
   only ever stated with an empty value; absent when no layer states it *)
Definition spec_map_get (k : str) (layers : list smap) : option str :=
  let vals := flat_map (fun m => match map_get k m with Some v => [v] | None => [] end) layers in
  match filter (fun v => negb (is_nil v)) vals with
  | v :: _ => Some v
  | [] => match vals with [] => None | _ :: _ => Some [] end
  end.

Definition opt_list {A} (o : option A) : list A := match o with Some a => [a] | None => [] end.

(* what the documentation promises for one route, given the chain of route blocks that apply
   (most specific first) and the deployment defaults *)
Record expected := MX {
  x_service : str; x_from : str; x_to : str; x_type : str;
  x_route : list str;           (* what net/url makes of the stated from/to (see [spec_route_parts]) *)
  x_olayers : list opts;        (* option blocks stated along the chain, most specific first *)
  x_defaults : opts;
  x_d6 : bool }.                (* both the default and the cluster block carry `options:` *)

(* a valid route: for the simple type (the default) both ends are the URLs net/url reads from the
   stated values completed with the configured scheme — in particular the HOST is the stated one;
   for the rewrite type the target template carries the configured scheme *)
Definition spec_route_parts (O : oracle) (from to type : str) : list str :=
  if is_nil type || str_eqb type lit_simple then
    [fst (url_parts O from); snd (url_parts O from); fst (url_parts O to); snd (url_parts O to)]
  else [[]; []; cfg_scheme O; []].

Definition expect (O : oracle) (name : str) (chain : list routecfg) (defaults : opts) (d6 : bool) : expected :=
  let from := fs emp_list [] (map rc_from chain) in
  let to := fs emp_list [] (map rc_to chain) in
  let type := fs emp_list [] (map rc_type chain) in
  MX name from to type (spec_route_parts O from to type)
     (flat_map (fun r => opt_list (rc_options r)) chain) defaults d6.

Definition opt_str_eqb := option_eqb str_eqb.
Definition is_some {A} (o : option A) : bool := match o with Some _ => true | None => false end.

Definition map_matches (obs : smap) (layers : list smap) : bool :=
  forallb (fun k => opt_str_eqb (map_get k obs) (spec_map_get k layers))
          (map fst obs ++ flat_map (map fst) layers).

Definition Z_eqb := Z.eqb.

Definition matches (tv : smap) (x : expected) (u : upstream) : bool :=
  let L := x_olayers x in
  let D := x_defaults x in
  let f {A} (emp : A -> bool) (zero : A) (p : opts -> A) := fs emp zero (map p L ++ [p D]) in
  str_eqb (u_service u) (x_service x) && str_eqb (u_from u) (x_from x) &&
  str_eqb (u_to u) (x_to x) && str_eqb (u_type u) (x_type x) && strs_eqb (u_route u) (x_route x) &&
  strs_eqb (u_groups u) (f emp_list [] o_groups) &&
  strs_eqb (u_domains u) (f emp_list [] o_domains) &&
  strs_eqb (u_addresses u) (f emp_list [] o_addresses) &&
  strs_eqb (u_skip u) (f emp_list [] o_skip_auth_regex) &&
  Z_eqb (u_timeout u) (f emp_Z 0%Z o_timeout) &&
  Z_eqb (u_reset_deadline u) (f emp_Z 0%Z o_reset_deadline) &&
  Z_eqb (u_flush_interval u) (f emp_Z 0%Z o_flush_interval) &&
  bool_eqb (u_tls_skip u) (f emp_bool false o_tls_skip) &&
  bool_eqb (u_preserve_host u) (f emp_bool false o_preserve_host) &&
  bool_eqb (u_skip_signing u) (f emp_bool false o_skip_signing) &&
  str_eqb (u_provider_slug u) (f emp_list [] o_provider_slug) &&
  str_eqb (u_cookie_name u) (f emp_list [] o_cookie_name) &&
  map_matches (u_header_overrides u) (map o_header_overrides L) &&
  map_matches (u_inject_headers u) (map o_inject_headers L) &&
  bool_eqb (u_hmac u) (is_some (map_get (x_service x ++ lit_signing_key) tv)).

(* the services the selected cluster configures: name, cluster block, default block *)
Record sel := MSel { sl_name : str; sl_c : block; sl_d : block }.

Definition block_or_empty (b : option (option block)) : block :=
  match b with Some (Some b) => b | _ => empty_block end.

Fixpoint spec_selected (cluster : str) (d : doc) : list sel :=
  match d with
  | [] => []
  | s :: d' =>
      let db := assoc_block lit_default (s_clusters s) in
      let cb := assoc_block cluster (s_clusters s) in
      if is_some db || is_some cb
      then MSel (clean_ws (s_name s)) (block_or_empty cb) (block_or_empty db) :: spec_selected cluster d'
      else spec_selected cluster d'
  end.

Definition sel_d6 (t : sel) : bool :=
  is_some (rc_options (b_route (sl_c t))) && is_some (rc_options (b_route (sl_d t))).

Definition sel_extras (t : sel) : list routecfg := fs emp_list [] [b_extra (sl_c t); b_extra (sl_d t)].

Definition spec_expected (O : oracle) (E : env) (d : doc) : list expected :=
  let S := spec_selected (e_cluster E) d in
  map (fun t => expect O (sl_name t) [b_route (sl_c t); b_route (sl_d t)] (e_defaults E) (sel_d6 t)) S ++
  flat_map (fun t => map (fun e => expect O (sl_name t) [e; b_route (sl_c t); b_route (sl_d t)]
                                          (e_defaults E) (sel_d6 t)) (sel_extras t)) S.

Fixpoint forall2b {A B} (f : A -> B -> bool) (a : list A) (b : list B) : bool :=
  match a, b with
  | [], [] => true
  | x :: a', y :: b' => f x y && forall2b f a' b'
  | _, _ => false
  end.

(* ---- (a) fail-closed clauses on one observed upstream ---- *)
Definition fail_closed_b (O : oracle) (u : upstream) : bool :=
  negb (is_nil (u_service u)) && negb (is_nil (u_from u)) && negb (is_nil (u_to u)) &&
  (((u_kind u =? 0) && (is_nil (u_type u) || str_eqb (u_type u) lit_simple) &&
    url_ok O (u_from u) && url_ok O (u_to u)) ||
   ((u_kind u =? 1) && str_eqb (u_type u) lit_rewrite && re_ok O (u_from u))) &&
  forallb (re_ok O) (u_skip u) &&
  negb (is_nil (u_groups u ++ u_domains u ++ u_addresses u)) &&
  negb (u_skip_preflight u) && negb (u_pass_token u).

(* ---- equality of observable tuples (maps as finite maps) ---- *)
Definition smap_eqb (a b : smap) : bool :=
  forallb (fun k => opt_str_eqb (map_get k a) (map_get k b)) (map fst a ++ map fst b).

Definition upstream_eqb (a b : upstream) : bool :=
  str_eqb (u_service a) (u_service b) && str_eqb (u_from a) (u_from b) && str_eqb (u_to a) (u_to b) &&
  str_eqb (u_type a) (u_type b) && (u_kind a =? u_kind b) &&
  strs_eqb (u_groups a) (u_groups b) && strs_eqb (u_domains a) (u_domains b) &&
  strs_eqb (u_addresses a) (u_addresses b) && strs_eqb (u_skip a) (u_skip b) &&
  Z_eqb (u_timeout a) (u_timeout b) && Z_eqb (u_reset_deadline a) (u_reset_deadline b) &&
  Z_eqb (u_flush_interval a) (u_flush_interval b) &&
  smap_eqb (u_header_overrides a) (u_header_overrides b) &&
  smap_eqb (u_inject_headers a) (u_inject_headers b) &&
  bool_eqb (u_tls_skip a) (u_tls_skip b) && bool_eqb (u_preserve_host a) (u_preserve_host b) &&
  bool_eqb (u_skip_signing a) (u_skip_signing b) && bool_eqb (u_skip_preflight a) (u_skip_preflight b) &&
  bool_eqb (u_pass_token a) (u_pass_token b) && str_eqb (u_provider_slug a) (u_provider_slug b) &&
  str_eqb (u_cookie_name a) (u_cookie_name b) && bool_eqb (u_hmac a) (u_hmac b) &&
  strs_eqb (u_route a) (u_route b).

Definition result_matches (m : result (list upstream)) (obs : option (list upstream)) : bool :=
  match m, obs with
  | Err _, None => true
  | Ok a, Some b => forall2b upstream_eqb a b
  | _, _ => false
  end.

(* ---- guards the harness must respect (a violated guard is reported as a mismatch) ---- *)
Definition keys_nodup (m : smap) : bool :=
  (fix go (l : list str) : bool := match l with [] => true | k :: l' => negb (mem_str k l') && go l' end) (map fst m).

Definition opts_wf (o : opts) : bool := keys_nodup (o_header_overrides o) && keys_nodup (o_inject_headers o).
Definition route_wf (r : routecfg) : bool := match rc_options r with Some o => opts_wf o | None => true end.
Definition block_wf (b : block) : bool := route_wf (b_route b) && forallb route_wf (b_extra b).
Definition doc_wf (d : doc) : bool :=
  forallb (fun s => forallb (fun kb => match snd kb with Some b => block_wf b | None => true end) (s_clusters s)) d.
Definition env_wf (E : env) : bool :=
  is_nil (o_header_overrides (e_defaults E)) && is_nil (o_inject_headers (e_defaults E)).

(* ---- templates ---- *)
Definition brace_free (s : str) : bool := forallb (fun c => negb (c =? lbrace) && negb (c =? rbrace)) s.
Definition tok_wf (t : token) : bool := match t with TLit s => brace_free s | TVar n => brace_free n end.
Definition tv_wf (tv : smap) : bool := forallb (fun kv => brace_free (fst kv) && brace_free (snd kv)) tv.
Fixpoint tails (s : str) : list str := match s with [] => [] | _ :: s' => s :: tails s' end.
Definition occurs_b (pat s : str) : bool := existsb (fun t => has_prefix t pat) (tails s).

Definition model_result (c : case) : result (list upstream) :=
  match c with
  | CLoad E T d _ => set_upstream_configs (oracle_of T) E d
  | CAdmit _ _ _ => Ok []
  | CTmpl _ _ _ => Ok []
  | CBad _ => Err 0
  end.

Definition judge (c : case) : N :=
  match c with
  | CLoad E T d obs =>
      let O := oracle_of T in
      let d' := subst_doc (e_tvars E) d in
      let m := set_upstream_configs O E d in
      let guards := doc_wf d' && env_wf E in
      let mismatch := negb guards || negb (result_matches m obs) in
      match obs with
      | None => code mismatch true 0          (* refusing to start is always fail-closed *)
      | Some ups =>
          let fc := forallb (fail_closed_b O) ups in
          let X := spec_expected O E d' in
          let fbf := forall2b (matches (e_tvars E)) X ups in
          let only_d6 := forall2b (fun x u => matches (e_tvars E) x u || x_d6 x) X ups in
          let known : N := if fc && negb fbf && only_d6 then 1 else 0 in
          code mismatch (fc && fbf) known
      end
  | CAdmit ids pols adm =>
      (* the validators proxy.New built for each upstream, asked through the real login callback:
         model = Validators.login_admit on the upstream's resolved rule lists (C11's model of
         proxy.New + OAuthCallback); monitor = the documented any-of rule on those lists: an
         identity is admitted iff one of the upstream's OWN rules admits it *)
      let row (f : Validators.policy -> str -> list str -> bool) (p : Validators.policy) :=
        map (fun id => if f p (fst id) (snd id) then 1 else 0) ids in
      let m := map (row (fun p e g => Validators.login_admit lower_ascii p e (Validators.GroupsOk g))) pols in
      let sp := map (row (fun p e g => Corr_C11.spec_admit lower_ascii p e (Validators.GroupsOk g))) pols in
      let guard := forallb (fun p => Corr_C11.dom_guard lower_ascii (Validators.p_domains p)) pols in
      code (negb (list_eqb (list_eqb N.eqb) m adm)) (negb guard || list_eqb (list_eqb N.eqb) sp adm) 0
  | CTmpl tv toks obs =>
      let m := subst_all tv (render toks) in
      let guard := forallb tok_wf toks && tv_wf tv in
      let spec := render (tsubst tv toks) in
      code (negb (str_eqb m obs))
           (negb guard || (str_eqb obs spec && forallb (fun kv => negb (occurs_b (placeholder (fst kv)) obs)) tv)) 0
  | CBad refused => code (negb refused) refused 0
  end.

Definition classify (c : case) : N :=
  match c with
  | CLoad E T d obs =>
      match obs with
      | None => match set_upstream_configs (oracle_of T) E d with Err e => 10 + e | Ok _ => 19 end
      | Some [] => 0
      | Some ups =>
          let d' := subst_doc (e_tvars E) d in
          let S := spec_selected (e_cluster E) d' in
          let X := spec_expected (oracle_of T) E d' in
          if negb (forall2b (matches (e_tvars E)) X ups) then 40
          else 20 + (if Nat.ltb (length S) (length ups) then 1 else 0) + (if existsb sel_d6 S then 2 else 0)
                  + (if is_nil (e_tvars E) then 0 else 4)
      end
  | CAdmit ids pols adm => 70 + (if existsb (existsb (N.eqb 1)) adm then 1 else 0)
  | CTmpl tv toks obs => 50 + (if str_eqb obs (render toks) then 0 else 1)
  | CBad refused => 60
  end.
