(* Corr_C17.v — comparison and monitor for C17 (group caches).
   A case is one schedule as the driver realised it against the real FillCache / LocalCache /
   GroupCache / GoogleProvider / AmazonCognitoProvider: the events in the order in which they
   happened, each with what was observed (return value, fill concurrency counter, and a snapshot of
   the FillCache maps read through the add-only shim).  [judge] replays the schedule in the model
   and compares (mismatch), and evaluates the property on the observations alone (holds). *)
From V Require Export Base CorrBase Caches.

Inductive oout :=
| Seen (o : output)
| Hidden.          (* the value exists but cannot be observed (Update's result inside a loop goroutine) *)

Record obs := Ob {
  o_out : oout;
  o_conc : N;                        (* fill begin: fills of that group running inside the directory, this one included; else 0 *)
  o_cache : list (str * list str);   (* FillCache.cache after the event (keys sorted, members sorted) *)
  o_infl : list str;                 (* FillCache.inflight after the event *)
  o_loops : list str                 (* FillCache.refreshLoopGroups after the event *)
}.

(* A storm: 2-8 goroutines call RefreshLoop for the SAME group at the same moment (directly, or through
   the Google / Cognito membership code for an uncached group) with a millisecond start-up jitter, the
   directory answering at once.  The order of events is the scheduler's, so nothing is replayed in
   the model; only invariants are judged, per group, over the time before Stop. *)
Record storm_obs := SO {
  so_group : str;
  so_callers : N;                    (* goroutines released together *)
  so_trues : N;                      (* RefreshLoop calls that answered "started" (0 when called through a provider) *)
  so_fills : N;                      (* fill-function calls for the group until every loop had exited *)
  so_maxconc : N;                    (* most fills of the group ever running at once inside the directory *)
  so_periods : option N              (* None: refresh period 1 h (first fill only);
                                        Some p: p whole refresh periods of wall time elapsed from release to exit *)
}.

Record case := Case {
  c_kind : N;                        (* 0 Google+FillCache, 1 Cognito+FillCache, 2 GroupCache+LocalCache *)
  c_groups : list str;               (* universe of group names of the scenario *)
  c_hung : bool;                     (* a wait exceeded the per-case deadline *)
  c_steps : list (event * obs);
  c_storm : list storm_obs           (* [] for a forced schedule *)
}.

(* ---------- boolean equalities ---------- *)

Definition opt_strs_eqb := option_eqb strs_eqb.

Definition output_eqb (a b : output) : bool :=
  match a, b with
  | ORefused, ORefused => true
  | OUnit, OUnit => true
  | OPanic, OPanic => true
  | OBool x, OBool y => bool_eqb x y
  | OGet x, OGet y => opt_strs_eqb x y
  | OAns r d st, OAns r' d' st' => opt_strs_eqb r r' && bool_eqb d d' && strs_eqb st st'
  | _, _ => false
  end.

Definition oout_matches (model : output) (o : oout) : bool :=
  match o with Hidden => true | Seen x => output_eqb model x end.

Definition snapshot_matches (groups : list str) (s : fc) (o : obs) : bool :=
  forallb (fun g => opt_strs_eqb (lookup g (fc_cache s)) (lookup g (o_cache o)) &&
                    bool_eqb (mem_str g (fc_inflight s)) (mem_str g (o_infl o)) &&
                    bool_eqb (mem_str g (fc_loops s)) (mem_str g (o_loops o))) groups.

(* model vs. implementation, step by step *)
Fixpoint mismatches (groups : list str) (w : world) (steps : list (event * obs)) : bool :=
  match steps with
  | [] => false
  | (e, o) :: rest =>
      let '(w1, out) := step w e in
      negb (oout_matches out (o_out o) && snapshot_matches groups (w_fc w1) o) || mismatches groups w1 rest
  end.

(* ---------- the property on observations ---------- *)

Definition justified_b (dir : list dir_ev) (u g : str) : bool :=
  existsb (fun d => match d with
                    | DFill g' (FOk ms) => str_eqb g g' && mem_str u ms
                    | DDirect u' _ (DOk r) => str_eqb u u' && mem_str g r
                    | _ => false
                    end) dir.

Definition fill_said (dir : list dir_ev) (g : str) (ms : list str) : bool :=
  existsb (fun d => match d with DFill g' (FOk ms') => str_eqb g g' && strs_eqb ms ms' | _ => false end) dir.

Definition perm_b (a b : list str) : bool :=
  Nat.eqb (length a) (length b) && forallb (fun x => Nat.eqb (count_str x a) (count_str x b)) (a ++ b).

Fixpoint nodup_b (l : list str) : bool :=
  match l with [] => true | x :: l' => negb (mem_str x l') && nodup_b l' end.

Definition no_comma (g : str) : bool := negb (existsb (N.eqb comma) g).
Definition names_ok_b (gs : list str) : bool :=
  forallb no_comma gs && negb (match gs with [[]] => true | _ => false end).

(* guards of the theorems, evaluated on the whole schedule *)
Definition tokens_ok_b (evs : list event) : bool :=
  forallb (fun e => match e with GCAsk u tu _ _ => str_eqb tu u | _ => true end) evs.
Definition asks_ok_b (evs : list event) : bool :=
  forallb (fun e => match e with GCAsk _ _ gs _ => names_ok_b gs | _ => true end) evs.

Record mon := Mon {
  m_dir : list dir_ev;                       (* what the scripted directory has said so far, newest first *)
  m_cache : list (str * list str);           (* snapshot after the previous event *)
  m_open : list str;                         (* groups with a fill begun and not ended *)
  m_live : list str;                         (* groups with a refresh loop started and not exited *)
  m_misses : list (str * list str * list str) (* GroupCache misses that produced an answer: user, question, answer *)
}.

Definition mon_init : mon := Mon [] [] [] [] [].

Definition accepted (o : oout) : bool := match o with Seen ORefused => false | _ => true end.

Definition ans_prov (dir : list dir_ev) (u : str) (r : option (list str)) : bool :=
  match r with Some rs => forallb (justified_b dir u) rs | None => true end.

Definition some_uncached (cache : list (str * list str)) (gs : list str) : bool :=
  existsb (fun g => match lookup g cache with Some _ => false | None => true end) gs.

Definition started_ok (live : list str) (st : list str) : bool :=
  forallb (fun g => negb (mem_str g live)) st && nodup_b st.

(* one observation: (clauses that hold?, next monitor state).  [tok]/[nam]: schedule-wide guards *)
Definition mon_step (tok nam : bool) (groups : list str) (m : mon) (e : event) (o : obs) : bool * mon :=
  match e, o_out o with
  | UpdateBegin _ g, Seen (OBool true) =>
      (* single fill: the directory sees exactly one fill of g, and none was open *)
      (N.eqb (o_conc o) 1 && negb (mem_str g (m_open m)),
       Mon (m_dir m) (o_cache o) (g :: m_open m) (m_live m) (m_misses m))
  | UpdateEnd _ g a, out =>
      if accepted out then
        (* update semantics: Ok replaces, NotFound drops, Err keeps; other groups untouched *)
        (opt_strs_eqb (lookup g (o_cache o))
           (match a with FOk ms => Some ms | FNotFound => None | FErr => lookup g (m_cache m) end) &&
         forallb (fun g' => str_eqb g' g || opt_strs_eqb (lookup g' (o_cache o)) (lookup g' (m_cache m))) groups &&
         match out with Seen (OBool b) => bool_eqb b (is_ok a) | _ => true end,
         Mon (DFill g a :: m_dir m) (o_cache o) (remove_str g (m_open m)) (m_live m) (m_misses m))
      else (true, m)
  | LoopStart g, Seen (OBool true) =>
      (* single loop *)
      (negb (mem_str g (m_live m)), Mon (m_dir m) (o_cache o) (m_open m) (g :: m_live m) (m_misses m))
  | LoopExit g, Seen OUnit =>
      (true, Mon (m_dir m) (o_cache o) (m_open m) (remove_str g (m_live m)) (m_misses m))
  | Get g, Seen (OGet (Some ms)) => (fill_said (m_dir m) g ms, m)
  | GoogleAsk u gs a, Seen (OAns r asked st) =>
      let dir' := if asked then DDirect u gs a :: m_dir m else m_dir m in
      (ans_prov dir' u r &&
       (negb (some_uncached (m_cache m) gs) || asked) &&
       started_ok (m_live m) st,
       Mon dir' (o_cache o) (m_open m) (st ++ m_live m) (m_misses m))
  | CognitoAsk (Some u) gs a, Seen (OAns r asked st) =>
      let dir' := if asked then DDirect u gs a :: m_dir m else m_dir m in
      (ans_prov dir' u r &&
       (negb (some_uncached (m_cache m) gs) || is_nil u || asked) &&
       started_ok (m_live m) st,
       Mon dir' (o_cache o) (m_open m) (st ++ m_live m) (m_misses m))
  | GCAsk u tu gs a, Seen (OAns r asked _) =>
      let dir' := if asked then DDirect tu (sort_strs gs) a :: m_dir m else m_dir m in
      ((negb tok || ans_prov dir' u r) &&
       (* key soundness: a hit repeats the answer of an earlier miss for the same user and a permuted question *)
       (negb nam || asked ||
        match r with
        | Some rs => existsb (fun x => let '(u', gs', r') := x in
                                       str_eqb u u' && perm_b gs' gs && strs_eqb rs r') (m_misses m)
        | None => false
        end),
       Mon dir' (m_cache m) (m_open m) (m_live m)
           (match asked, r with true, Some rs => (u, gs, rs) :: m_misses m | _, _ => m_misses m end))
  | _, _ => (true, Mon (m_dir m) (m_cache m) (m_open m) (m_live m) (m_misses m))
  end.

Fixpoint mon_run (tok nam : bool) (groups : list str) (m : mon) (steps : list (event * obs)) : bool :=
  match steps with
  | [] => true
  | (e, o) :: rest =>
      let '(ok, m') := mon_step tok nam groups m e o in
      ok && mon_run tok nam groups m' rest
  end.

(* Single loop / single fill under a storm.  With no loop exit before Stop, C17_single_loop_trace
   bounds the "started" answers per group by 1.  One loop calls the fill function once at once and
   then once per tick (fillcache.go:146-165), and a ticker delivers at most one tick per period, so in
   p elapsed periods one loop makes at most p + 2 calls (+1 slack); with a 1 h period exactly one. *)
Definition storm_ok (o : storm_obs) : bool :=
  N.leb (so_trues o) 1 && N.leb (so_maxconc o) 1 &&
  N.leb (so_fills o) (match so_periods o with None => 1 | Some p => p + 3 end).

Definition holds (c : case) : bool :=
  let evs := map fst (c_steps c) in
  mon_run (tokens_ok_b evs) (asks_ok_b evs) (c_groups c) mon_init (c_steps c) &&
  forallb storm_ok (c_storm c).

Definition judge (c : case) : N :=
  code (c_hung c || mismatches (c_groups c) w_init (c_steps c)) (holds c) 0.

(* ---------- classification for the evidence histogram ---------- *)

Definition feature (x : event * obs) : N :=
  match x with
  | (UpdateBegin _ _, o) => match o_out o with Seen (OBool false) => 1 | _ => 0 end   (* concurrent Update refused *)
  | (UpdateEnd _ _ FErr, _) => 2
  | (UpdateEnd _ _ FNotFound, _) => 4
  | (LoopStart _, o) => match o_out o with Seen (OBool false) => 8 | _ => 0 end       (* second loop refused *)
  | (LoopExit _, _) => 16
  | (GoogleAsk _ _ _, o) | (CognitoAsk _ _ _, o) =>
      match o_out o with
      | Seen (OAns (Some (_ :: _)) true _) => 32      (* answered by the directory *)
      | Seen (OAns (Some (_ :: _)) false _) => 64     (* answered from member sets *)
      | Seen (OAns None _ _) => 128
      | _ => 0
      end
  | (GCAsk _ _ _ _, o) =>
      match o_out o with
      | Seen (OAns (Some _) false _) => 256           (* hit *)
      | Seen (OAns (Some _) true _) => 512
      | Seen (OAns None _ _) => 128
      | _ => 0
      end
  | (LCPurge _, _) | (LCTimer _, _) => 1024
  | _ => 0
  end.

Definition classify (c : case) : N :=
  fold_left (fun acc x => N.lor acc (feature x)) (c_steps c) 0 +
  match c_storm c with
  | [] => 0
  | o :: _ => 2048 + (match so_periods o with None => 0 | Some _ => 4096 end)
  end.
