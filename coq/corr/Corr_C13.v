(* Corr_C13.v — comparison and monitor for C13 (host routing, policy and provider of the routed
   upstream, isolation of sessions between hosts). A case is one configuration document, the
   oracle tables Go computed for it, the backends that exist, and a history of logins and
   requests with what the real proxy did. No proofs here. *)
From V Require Export Base CorrBase Validators Hostmux.

(* ---- library oracles as tables computed by Go's regexp for the strings of the case ---- *)
Fixpoint tab_match (t : list (str * str * bool)) (pat s : str) : bool :=
  match t with
  | [] => false
  | (p, x, b) :: t' => if str_eqb p pat && str_eqb x s then b else tab_match t' pat s
  end.
Fixpoint tab_replace (t : list (str * str * str * str)) (pat s tmpl : str) : str :=
  match t with
  | [] => []
  | (p, x, m, r) :: t' =>
      if str_eqb p pat && str_eqb x s && str_eqb m tmpl then r else tab_replace t' pat s tmpl
  end.

(* ---- what the driver observed for one event (projected) ---- *)
Record obs := {
  o_kind : N;                (* 0 health, 1 421, 2 sign-in redirect, 3 403, 4 forwarded (backend reached or 502),
                                5 login ok, 6 login refused, 9 anything else *)
  o_backend : option N;      (* id of the backend that received the request *)
  o_fwd_host : option str;   (* Host header the backend saw *)
  o_user : option str;       (* X-Forwarded-Email the backend saw *)
  o_cookie : cookie_effect;  (* session cookie: untouched / cleared / set (opened by the harness) *)
  o_slug : option str        (* provider segment of the sign-in Location path, or of the redeem call *)
}.

Inductive cref := RefNone | RefIssued (j : nat) | RefMinted (s : session).
Inductive xevent :=
| XLogin (l : login) (o : obs)
| XRequest (host path : str) (c : cref) (o : obs).

(* the world around the proxy: the recording backends (authority -> id) and, as a net/http oracle,
   the wire form of Host values that net/http's client does not send verbatim (a non-ASCII Host is
   sent in its IDNA ASCII form) — measured by the harness with a plain http.Client *)
Record wtab := { w_wire : list (str * str); w_backends : list (str * N) }.

Inductive case :=
| CHist (dflt : str) (svcs : list service)
        (mt : list (str * str * bool)) (rt : list (str * str * str * str))
        (backends : wtab) (evs : list xevent).

(* ---- projection of a model response onto the observables ---- *)
Definition kind_code (k : kind) : N :=
  match k with
  | KHealth => 0 | KMisdirected => 1 | KSignIn => 2 | KForbidden => 3 | KForward => 4
  | KLoginOk => 5 | KLoginRefused => 6
  end.
Fixpoint backend_of (bs : list (str * N)) (t : str) : option N :=
  match bs with [] => None | (hp, i) :: bs' => if str_eqb hp t then Some i else backend_of bs' t end.

Fixpoint wire_of (wt : list (str * str)) (h : str) : str :=
  match wt with [] => h | (a, b) :: wt' => if str_eqb a h then b else wire_of wt' h end.

Definition project (bs : wtab) (r : response) : obs :=
  let b := match r_target r with Some t => backend_of (w_backends bs) t | None => None end in
  {| o_kind := kind_code (r_kind r);
     o_backend := b;
     (* what a backend saw is observable only when one was reached *)
     o_fwd_host := match b with
                   | Some _ => match r_fwd_host r with Some h => Some (wire_of (w_wire bs) h) | None => None end
                   | None => None
                   end;
     o_user := match b with Some _ => r_user r | None => None end;
     o_cookie := r_cookie r;
     o_slug := r_slug r |}.

Definition cookie_eqb (a b : cookie_effect) : bool :=
  match a, b with
  | CkNone, CkNone => true
  | CkCleared, CkCleared => true
  | CkSet x, CkSet y => session_eqb x y
  | _, _ => false
  end.
Definition ostr_eqb := option_eqb str_eqb.
Definition obs_eqb (a b : obs) : bool :=
  N.eqb (o_kind a) (o_kind b) && option_eqb N.eqb (o_backend a) (o_backend b) &&
  ostr_eqb (o_fwd_host a) (o_fwd_host b) && ostr_eqb (o_user a) (o_user b) &&
  cookie_eqb (o_cookie a) (o_cookie b) && ostr_eqb (o_slug a) (o_slug b).

Definition obs_of (x : xevent) : obs := match x with XLogin _ o => o | XRequest _ _ _ o => o end.

(* ---- the model's run of the history ---- *)
Definition resolve_ref (ls : list (option (str * session))) (c : cref) : option session :=
  match c with
  | RefNone => None
  | RefMinted s => Some s
  | RefIssued j => match nth_error ls j with Some (Some (_, s)) => Some s | _ => None end
  end.

Definition to_event (st : hstate) (x : xevent) : event :=
  match x with
  | XLogin l _ => ELogin l
  | XRequest h p c _ => ERequest {| q_host := h; q_path := p; q_cookie := resolve_ref (logins st) c |}
  end.

Section Run.
Variable re_match : str -> str -> bool.
Variable re_replace : str -> str -> str -> str.
Variable lower : str -> str.
Variable dflt : str.

Fixpoint xrun (fixed : bool) (cfg : list upstream) (st : hstate) (xs : list xevent) : list response :=
  match xs with
  | [] => []
  | x :: xs' =>
      let '(st', r) := step re_match re_replace lower fixed dflt cfg st (to_event st x) in
      r :: xrun fixed cfg st' xs'
  end.

(* ---- the property, as a specification on observations, written without the router ---- *)
(* exact match wins (the last configured for that host), else the first matching rewrite route *)
Definition spec_route (cfg : list upstream) (h : str) : option upstream :=
  match find (is_simple_for h) (rev cfg) with
  | Some u => Some u
  | None => find (is_rw_match re_match h) cfg
  end.

Definition spec_target (h : str) (u : upstream) : str :=
  match u_route u with
  | Simple _ to => url_host to
  | Rewrite from to => url_host (re_replace from h to)
  end.

(* [slug_of] is the provider the upstream must be handled under: [own_slug] is the property;
   [fun _ => dflt] is the signature of known finding C13-K1 *)
Definition spec_request (slug_of : upstream -> str) (cfg : list upstream) (q : request) : response :=
  if str_eqb (q_path q) ping_path then plain KHealth CkNone None else
  match spec_route cfg (q_host q) with
  | None => plain KMisdirected CkNone None                 (* 421, no backend, no cookie *)
  | Some u =>
      let t := spec_target (q_host q) u in
      let fwd user := {| r_kind := KForward; r_target := Some t;
                         r_fwd_host := Some (if u_preserve u then preserved_host (q_host q) t else t);
                         r_user := user; r_cookie := CkNone; r_slug := None |} in
      if existsb (fun p => re_match p (q_path q)) (u_skip u) then fwd None
      else match q_cookie q with
           | Some s =>
               if str_eqb (s_slug s) (slug_of u) && str_eqb (s_upstream s) (q_host q) then
                 if request_gate lower (u_policy u) (s_email s) then fwd (Some (s_email s))
                 else plain KForbidden CkCleared None
               else plain KSignIn CkCleared (Some (slug_of u))
           | None => plain KSignIn CkCleared (Some (slug_of u))
           end
  end.

(* a sign-in has a flow record exactly when the request that opened it was one the proxy answers
   with a sign-in redirect: a routed host, not the health check, not a skip-auth path *)
Definition spec_flow (cfg : list upstream) (l : login) : bool :=
  match spec_route cfg (l_start l) with
  | None => false
  | Some u0 =>
      negb (str_eqb (l_spath l) ping_path) &&
      negb (existsb (fun p => re_match p (l_spath l)) (u_skip u0))
  end.

(* The callback belongs to the upstream ITS Host names, wherever the sign-in was opened: that
   upstream's login gate judges the user, and the session is bound to the callback's Host. *)
Definition spec_login (slug_of : upstream -> str) (cfg : list upstream) (l : login) : response :=
  match spec_route cfg (l_host l) with
  | None => plain KMisdirected CkNone None
  | Some u =>
      if spec_flow cfg l && login_admit lower (u_policy u) (l_email l) (l_groups l) then
        plain KLoginOk (CkSet {| s_slug := slug_of u; s_upstream := l_host l; s_email := l_email l |})
              (Some (slug_of u))
      else plain KLoginRefused CkNone (Some (slug_of u))
  end.

(* the monitor walks the OBSERVED history: a cookie reference is resolved to what the
   implementation itself issued at that login (host of the callback, opened session) *)
Definition issued_of (l : login) (o : obs) : option (str * session) :=
  match o_cookie o with CkSet s => Some (l_host l, s) | _ => None end.

Fixpoint monitor (slug_of : upstream -> str) (bs : wtab) (cfg : list upstream)
         (seen : list (option (str * session))) (xs : list xevent) : bool :=
  match xs with
  | [] => true
  | XLogin l o :: xs' =>
      obs_eqb o (project bs (spec_login slug_of cfg l)) &&
      monitor slug_of bs cfg (seen ++ [issued_of l o]) xs'
  | XRequest h p c o :: xs' =>
      let q := {| q_host := h; q_path := p; q_cookie := resolve_ref seen c |} in
      obs_eqb o (project bs (spec_request slug_of cfg q)) &&
      (* isolation, stated on observations alone: a cookie issued by a callback on another
         host is never accepted here *)
      (match c with
       | RefIssued j =>
           match nth_error seen j with
           | Some (Some (h1, _)) => str_eqb h1 h || match o_user o with None => true | Some _ => false end
           | _ => true
           end
       | _ => true
       end) &&
      monitor slug_of bs cfg seen xs'
  end.

End Run.

Definition obs_list_eqb (a b : list obs) : bool := list_eqb obs_eqb a b.

Definition judge (c : case) : N :=
  match c with
  | CHist dflt svcs mt rt bs evs =>
      let m := tab_match mt in
      let rp := tab_replace rt in
      let cfg := resolve svcs in
      let observed := map obs_of evs in
      let pred fixed := map (project bs) (xrun m rp lower_ascii dflt fixed cfg init evs) in
      (* the implementation must behave as today's model or as the repaired model *)
      let mismatch := negb (obs_list_eqb observed (pred false)) && negb (obs_list_eqb observed (pred true)) in
      let holds := monitor m rp lower_ascii (own_slug dflt) bs cfg [] evs in
      (* C13-K1: the only failing clause is "provider of the upstream": everything holds once the
         provider demanded is the deployment default *)
      let known : N := if monitor m rp lower_ascii (fun _ => dflt) bs cfg [] evs then 1 else 0 in
      code mismatch holds known
  end.

(* class = bit mask of the event kinds observed in the history
   (1 health, 2 421, 4 sign-in, 8 403, 16 forwarded, 32 login ok, 64 login refused, 512 other)
   + 1024 when an accepted session was observed *)
Fixpoint or_bits (l : list N) : N := match l with [] => 0 | x :: l' => N.lor x (or_bits l') end.
Definition classify (c : case) : N :=
  match c with
  | CHist _ _ _ _ _ evs =>
      or_bits (map (fun x => let o := obs_of x in
                             N.lor (N.shiftl 1 (o_kind o))
                                   (match o_user o with Some _ => 1024 | None => 0 end)) evs)
  end.
