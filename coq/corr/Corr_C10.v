(* Corr_C10.v — comparison and monitor for C10 (a login yields a session only for an e-mail the
   identity provider vouches for).  No proofs here. *)
From V Require Export Base CorrBase IdToken.

(* THE SWITCH: false = today's emailFromIDToken (indexes jwt[1] unconditionally);
   true = after the fix that rejects len(jwt) < 2 with an error.  Flip this one line (and retire
   known finding C10-K1) when /repo carries the fix. *)
Definition today_len_check : bool := true.

(* ---- oracle table: JSON class of payload bytes, as classified by Go in the driver ---- *)
Fixpoint assoc_body (k : str) (t : list (str * body user_fields)) : option (body user_fields) :=
  match t with
  | [] => None
  | (a, b) :: t' => if str_eqb k a then Some b else assoc_body k t'
  end.
Definition oracle_tab (t : list (str * body user_fields)) (b : str) : body user_fields :=
  match assoc_body b t with Some x => x | None => NotJSON end.

(* the payload bytes the Google path will ask the oracle about (None: it never gets that far) *)
Definition payload_bytes (tok : answer tok_fields) : option str :=
  match tok with
  | Resp _ (Json tf) =>
      match f_idtoken tf with
      | JStr idt => match nth_error (split_on dot idt) 1 with
                    | Some seg => jwt_decode_segment seg
                    | None => None
                    end
      | _ => None
      end
  | _ => None
  end.
Definition oracle_miss (t : list (str * body user_fields)) (tok : answer tok_fields) : bool :=
  match payload_bytes tok with
  | Some b => match assoc_body b t with Some _ => false | None => true end
  | None => false
  end.

(* ---- observations ---- *)
Inductive obs :=
| OSession (email access refresh : str)
| OError (kind : N)      (* 1 ErrBadRequest/ErrTokenRevoked, 2 ErrRateLimitExceeded, 3 ErrServiceUnavailable, 4 other *)
| OPanic.                (* recover() around provider.Redeem caught a run-time panic *)

Inductive cb_obs :=
| CDropped                                  (* HTTP round trip: connection closed without a response *)
| CPage (status : N) (cookie : option str). (* status; e-mail inside the session Set-Cookie, if one is set *)

(* the /callback round trip of a case: err_param, later-gate verdict (by construction), observation *)
Definition cb_part : Type := bool * option N * cb_obs.

(* [tag] = 1000 * (1 if response headers / framing of an answer were varied) + 500 * (1 if the logins of
   the group ran one after the other on the same provider object rather than at once) + 10 * (index of the provider configuration in the driver's pool; 0-2 are the three default
   configurations) + (number of logins in flight at once, this one included).  The model has no
   such parameters: the unchanged Redeem consults neither the configuration nor anything shared
   between logins, so every login of a group is judged against ITS OWN answers (the token answer
   for its code, the userinfo answer the IdP holds for the access token in that answer) exactly
   like a login that runs alone.  The tag only feeds the evidence histogram. *)
Inductive case :=
| Case (tag : N) (prov : provider) (code : str) (tok : answer tok_fields) (ui : answer user_fields)
       (tab : list (str * body user_fields))
       (o : obs) (tok_called ui_called : bool) (cb : option cb_part).

(* ---- model predictions as observations ---- *)
Definition err_code (e : err_kind) : N :=
  match e with EBadRequest => 1 | ERateLimit => 2 | EUnavailable => 3 | EOther => 4 end.

Definition obs_of (o : outcome) : obs :=
  match o with
  | Session s => OSession (s_email s) (s_access s) (s_refresh s)
  | Error e => OError (err_code e)
  | Panic => OPanic
  end.

Definition cb_obs_of (r : cb_result) : cb_obs :=
  match r with
  | CbDropped => CDropped
  | CbErrorPage st => CPage st None
  | CbRedirect s => CPage 302 (Some (s_email s))
  end.

Definition obs_eqb (a b : obs) : bool :=
  match a, b with
  | OSession e1 a1 r1, OSession e2 a2 r2 => str_eqb e1 e2 && str_eqb a1 a2 && str_eqb r1 r2
  | OError k1, OError k2 => N.eqb k1 k2
  | OPanic, OPanic => true
  | _, _ => false
  end.

Definition cb_obs_eqb (a b : cb_obs) : bool :=
  match a, b with
  | CDropped, CDropped => true
  | CPage s1 c1, CPage s2 c2 => N.eqb s1 s2 && option_eqb str_eqb c1 c2
  | _, _ => false
  end.

(* ---- the property, on observations, written without the model's control flow ---- *)

Definition nonempty (e : str) : option str := match e with [] => None | _ => Some e end.

(* "the e-mail the identity provider vouches for" in these answers, if there is one *)
Definition spec_vouched (prov : provider) (oracle : str -> body user_fields)
    (tok : answer tok_fields) (ui : answer user_fields) : option str :=
  match tok with
  | Resp 200 (Json tf) =>
      match prov with
      | Google =>
          match f_idtoken tf with
          | JStr idt =>
              match split_on dot idt with
              | _ :: seg :: _ =>
                  match b64url_decode (pad4 seg) with
                  | Some bytes =>
                      match oracle bytes with
                      | Json pf =>
                          match f_email pf, f_verified pf with
                          | JStr e, JBool true => nonempty e
                          | _, _ => None
                          end
                      | NotJSON => None
                      end
                  | None => None
                  end
              | _ => None
              end
          | _ => None
          end
      | Okta =>
          match ui with
          | Resp 200 (Json uf) =>
              match f_email uf, f_verified uf with
              | JStr e, JBool true => nonempty e
              | _, _ => None
              end
          | _ => None
          end
      | Cognito =>
          match ui with
          | Resp 200 (Json uf) => match f_email uf with JStr e => nonempty e | _ => None end
          | _ => None
          end
      end
  | _ => None
  end.

(* clause 1+2: a session (and a session cookie) only for the vouched e-mail; everything else is
   an error page (status >= 400) without a session cookie *)
Definition holds_sound (prov : provider) (oracle : str -> body user_fields)
    (tok : answer tok_fields) (ui : answer user_fields) (o : obs) (cb : option cb_part) : bool :=
  let v := spec_vouched prov oracle tok ui in
  match o with
  | OSession e _ _ => option_eqb str_eqb v (Some e)
  | _ => true
  end &&
  match cb with
  | None => true
  | Some (_, _, CDropped) => true                       (* judged by the no-crash clause *)
  | Some (errp, later, CPage st (Some e)) =>
      option_eqb str_eqb v (Some e) && negb errp && (match later with None => true | Some _ => false end)
  | Some (_, _, CPage st None) => 400 <=? st
  end.

(* clause 3: never a crash of the request *)
Definition holds_nocrash (o : obs) (cb : option cb_part) : bool :=
  match o with OPanic => false | _ => true end &&
  match cb with Some (_, _, CDropped) => false | _ => true end.

(* signature of known finding C10-K1: Google, token endpoint answered 200 with a decodable JSON
   body whose id_token (absent = "") contains no '.' *)
Definition k1_signature (prov : provider) (code : str) (tok : answer tok_fields) : bool :=
  match prov, tok with
  | Google, Resp 200 (Json tf) =>
      negb (is_nil code) &&
      match decode_tok tf with
      | Some (_, _, _, idt) => negb (existsb (N.eqb dot) idt)
      | None => false
      end
  | _, _ => false
  end.

Definition judge_lc (lc : bool) (c : case) : N :=
  match c with
  | Case tag prov cd tok ui tab o tokc uic cb =>
      let oracle := oracle_tab tab in
      let '(m_o, m_tokc, m_uic) := redeem_tr lc prov oracle cd tok ui in
      let mism_cb :=
        match cb with
        | None => false
        | Some (errp, later, co) =>
            negb (cb_obs_eqb (cb_obs_of (oauth_callback lc prov oracle errp cd tok ui later)) co)
        end in
      let mismatch :=
        oracle_miss tab tok || negb (obs_eqb (obs_of m_o) o) ||
        negb (bool_eqb m_tokc tokc) || negb (bool_eqb m_uic uic) || mism_cb in
      let sound := holds_sound prov oracle tok ui o cb in
      let nocrash := holds_nocrash o cb in
      let known : N :=
        if sound && negb nocrash && k1_signature prov cd tok then 1 else 0 in
      code mismatch (sound && nocrash) known
  end.

Definition judge (c : case) : N := judge_lc today_len_check c.

(* classes for the evidence histogram:
   8000 if the login is part of a sequence on one provider object +
   4000 if response headers / framing were varied + 2000 if the provider configuration is not a default one +
   1000 if other logins were in flight +
   provider*100 + outcome (0 error-before-token-decode, 1 error after a good token answer,
   2 session, 3 panic) * 10 + callback part (0 none, 1 error page, 2 cookie set, 3 dropped) *)
Definition classify (c : case) : N :=
  match c with
  | Case tag prov code tok ui tab o tokc uic cb =>
      (if 1 <=? (tag mod 1000) / 500 then 8000 else 0) +
      (if 1 <=? tag / 1000 then 4000 else 0) +
      (if 3 <=? (tag mod 500) / 10 then 2000 else 0) + (if 2 <=? tag mod 10 then 1000 else 0) +
      (match prov with Google => 100 | Okta => 200 | Cognito => 300 end) +
      (match o with
       | OSession _ _ _ => 20
       | OPanic => 30
       | OError _ =>
           match provider_request decode_tok tok with
           | inl _ => if is_nil code then 0 else 10
           | inr _ => 0
           end
       end) +
      (match cb with
       | None => 0
       | Some (_, _, CDropped) => 3
       | Some (_, _, CPage _ (Some _)) => 2
       | Some (_, _, CPage _ None) => 1
       end)
  end.
