(* Corr_C15.v — comparison and monitor for C15 (circuit breaker). No proofs.

   A case is one interleaving: an event list driven against the real circuit.NewBreaker (mock
   clock, recording hooks and rule functions, channel-gated calls), with what each event showed.
   [mismatch] compares that with the model's trace. [holds] is the property itself, written as a
   checker of the observed trace: it never looks at the model, it re-derives state, epoch,
   in-flight calls and consecutive counters from the observed hook calls and verdicts. *)
From V Require Export Base CorrBase Breaker.
Open Scope Z_scope.

(* the deterministic rules handed identically to Go's Options and to the model *)
Record params := mkpar {
  p_trip : Z;      (* ShouldTripFunc  c = ConsecutiveFailures  >= p_trip *)
  p_reset : Z;     (* ShouldResetFunc c = ConsecutiveSuccesses >= p_reset *)
  p_b0 : Z; p_bf : Z; p_bs : Z; p_bc : Z;
                   (* BackoffDurationFunc c = b0 + bf*failures + bs*successes + bc*current (time units) *)
  p_hom : Z        (* Options.HalfOpenConcurrentRequests, as given (may be <= 0) *)
}.
Definition trip_of (p : params) (c : counts) : bool := p_trip p <=? fail c.
Definition reset_of (p : params) (c : counts) : bool := p_reset p <=? succ c.
Definition backoff_of (p : params) (c : counts) : Z :=
  p_b0 p + p_bf p * fail c + p_bs p * succ c + p_bc p * cur c.

Record case := mkcase {
  c_par : params;
  c_evs : list event;
  c_obs : list obs;        (* one per event, as shown by the real breaker *)
  c_blocked : nat          (* calls still blocked inside f when the sequence ended *)
}.

(* ---------- equality on observations ---------- *)
Definition rule_kind_eqb (a b : rule_kind) : bool :=
  match a, b with RTrip, RTrip | RReset, RReset | RBackoff, RBackoff => true | _, _ => false end.
Definition hook_eqb (a b : hook) : bool :=
  match a, b with
  | HRule k c, HRule k' c' => rule_kind_eqb k k' && counts_eqb c c'
  | HState p t, HState p' t' => bstate_eqb p p' && bstate_eqb t t'
  | HBackoff d r, HBackoff d' r' => (d =? d') && (r =? r')
  | _, _ => false
  end.
Definition obs_eqb (a b : obs) : bool :=
  option_eqb bool_eqb (o_adm a) (o_adm b) && bool_eqb (o_ran a) (o_ran b) &&
  list_eqb hook_eqb (o_hooks a) (o_hooks b).

(* ---------- the property as a trace checker ---------- *)
Record mon := mkmon {
  m_st : bstate;          (* state last announced through OnStateChange (closed before any) *)
  m_epoch : nat;          (* number of OnStateChange calls so far *)
  m_infl : list nat;      (* epoch at admission of every call admitted and not yet finished *)
  m_succ : Z;             (* consecutive successes among non-stale completions *)
  m_fail : Z;             (* consecutive failures among non-stale completions (tracked while closed) *)
  m_deadline : Z;         (* reset time announced by the last OnBackoff *)
  m_now : Z               (* sum of the clock advances *)
}.
Definition mon_init : mon := mkmon Closed 0 [] 0 0 0 0.

Definition is_rule (h : hook) : bool := match h with HRule _ _ => true | _ => false end.
(* the property speaks about OnStateChange / OnBackoff; which arguments the rules were asked
   on is compared with the model only *)
Definition vis (hs : list hook) : list hook := filter (fun h => negb (is_rule h)) hs.

Definition cap_of (p : params) : Z := Z.max 1 (p_hom p).    (* "the configured number", default 1 *)

Definition is_nil {A} (l : list A) : bool := match l with [] => true | _ => false end.

(* every entry into the breaker first lets an open breaker whose deadline has STRICTLY passed
   announce half-open; before that it must stay open and silent *)
Definition mon_clock (m : mon) (hs : list hook) : option (mon * list hook) :=
  match m_st m with
  | Open =>
      if m_deadline m <? m_now m then
        match hs with
        | HState Open HalfOpen :: r =>
            Some (mkmon HalfOpen (S (m_epoch m)) (m_infl m) (m_succ m) (m_fail m) (m_deadline m) (m_now m), r)
        | _ => None
        end
      else Some (m, hs)
  | _ => Some (m, hs)
  end.

Definition mon_admit (m : mon) : mon :=
  mkmon (m_st m) (m_epoch m) (m_infl m ++ [m_epoch m]) (m_succ m) (m_fail m) (m_deadline m) (m_now m).

Definition mon_start (p : params) (m : mon) (o : obs) : option mon :=
  match o_adm o with
  | None => None
  | Some a =>
      if negb (bool_eqb (o_ran o) a) then None                       (* f runs iff admitted *)
      else match mon_clock m (vis (o_hooks o)) with
      | None => None
      | Some (m1, rest) =>
          if negb (is_nil rest) then None                             (* no other hook on a start *)
          else match m_st m1 with
          | Closed => if a then Some (mon_admit m1) else None         (* closed lets every call through *)
          | Open => if a then None else Some m1                       (* open rejects until the deadline *)
          | HalfOpen =>
              if a then                                               (* at most cap concurrent calls of this epoch *)
                if Z.of_nat (count_gen (m_epoch m1) (m_infl m1)) + 1 <=? cap_of p then Some (mon_admit m1) else None
              else                                                    (* a rejection needs cap calls in flight *)
                if cap_of p <=? Z.of_nat (length (m_infl m1)) then Some m1 else None
          end
      end
  end.

(* the completion of the i-th call in flight, reading the hooks it needs from the front of [hs]
   (already filtered by [vis]) and handing back the rest *)
Definition mon_finish_k (p : params) (m : mon) (i : nat) (ok : bool) (hs : list hook) : option (mon * list hook) :=
    match nth_error (m_infl m) i with
    | None => None
    | Some g =>
      let m0 := mkmon (m_st m) (m_epoch m) (remove_nth i (m_infl m)) (m_succ m) (m_fail m) (m_deadline m) (m_now m) in
      match mon_clock m0 hs with
      | None => None
      | Some (m1, rest) =>
        let curz := Z.of_nat (length (m_infl m1)) in
        if negb (Nat.eqb g (m_epoch m1)) then
          (* admitted before the most recent state change: the outcome changes nothing *)
          Some (m1, rest)
        else match m_st m1 with
        | Open => None      (* nobody is admitted by an open breaker, so no such call can exist *)
        | Closed =>
            if ok then
              Some (mkmon Closed (m_epoch m1) (m_infl m1) (m_succ m1 + 1) 0 (m_deadline m1) (m_now m1), rest)
            else
              let c := mkcounts curz 0 (m_fail m1 + 1) in
              if trip_of p c then      (* trips exactly when the rule holds for the consecutive failures *)
                match rest with
                | HState Closed Open :: HBackoff d r :: rest' =>
                    if r =? m_now m1 + d
                    then Some (mkmon Open (S (m_epoch m1)) (m_infl m1) 0 0 r (m_now m1), rest')
                    else None
                | _ => None
                end
              else
                Some (mkmon Closed (m_epoch m1) (m_infl m1) 0 (m_fail m1 + 1) (m_deadline m1) (m_now m1), rest)
        | HalfOpen =>
            if ok then
              let c := mkcounts curz (m_succ m1 + 1) 0 in
              if reset_of p c then     (* closes exactly when the reset rule holds *)
                match rest with
                | HState HalfOpen Closed :: rest' =>
                    Some (mkmon Closed (S (m_epoch m1)) (m_infl m1) 0 0 (m_deadline m1) (m_now m1), rest')
                | _ => None
                end
              else
                Some (mkmon HalfOpen (m_epoch m1) (m_infl m1) (m_succ m1 + 1) (m_fail m1) (m_deadline m1) (m_now m1), rest)
            else                       (* any failure re-opens with a new back-off *)
              match rest with
              | HState HalfOpen Open :: HBackoff d r :: rest' =>
                  if r =? m_now m1 + d
                  then Some (mkmon Open (S (m_epoch m1)) (m_infl m1) 0 (m_fail m1) r (m_now m1), rest')
                  else None
              | _ => None
              end
        end
      end
    end.

(* in a breaker-only trace the completion's hooks must be exactly those: nothing may be left over *)
Definition mon_finish (p : params) (m : mon) (i : nat) (ok : bool) (o : obs) : option mon :=
  match o_adm o, o_ran o with
  | None, false =>
    match nth_error (m_infl m) i with
    | None => if is_nil (o_hooks o) then Some m else None
    | Some _ =>
        match mon_finish_k p m i ok (vis (o_hooks o)) with
        | Some (m', []) => Some m'
        | _ => None
        end
    end
  | _, _ => None
  end.

Definition mon_tick (m : mon) (dt : Z) (o : obs) : option mon :=
  match o_adm o, o_ran o, o_hooks o with
  | None, false, [] => Some (mkmon (m_st m) (m_epoch m) (m_infl m) (m_succ m) (m_fail m) (m_deadline m) (m_now m + dt))
  | _, _, _ => None
  end.

Definition mon_step (p : params) (m : mon) (e : event) (o : obs) : option mon :=
  match e with
  | Start => mon_start p m o
  | Finish i ok => mon_finish p m i ok o
  | Tick dt => mon_tick m dt o
  end.

Fixpoint mon_run (p : params) (m : mon) (evs : list event) (os : list obs) : option mon :=
  match evs, os with
  | [], [] => Some m
  | e :: evs', o :: os' =>
      match mon_step p m e o with Some m' => mon_run p m' evs' os' | None => None end
  | _, _ => None
  end.

(* the whole observation satisfies the property: every step is allowed, and the calls left
   blocked are exactly those admitted and not finished (the count never went negative) *)
Definition holds (p : params) (evs : list event) (os : list obs) (blocked : nat) : bool :=
  match mon_run p mon_init evs os with
  | Some m => Nat.eqb blocked (length (m_infl m))
  | None => false
  end.

(* ---------- model prediction, judgement ---------- *)
Definition model_trace (p : params) (evs : list event) : list obs :=
  trace (trip_of p) (reset_of p) (backoff_of p) (p_hom p) evs.
Definition model_final (p : params) (evs : list event) : breaker :=
  exec (trip_of p) (reset_of p) (backoff_of p) (p_hom p) evs.

Definition judge (c : case) : N :=
  let p := c_par c in
  let agree := list_eqb obs_eqb (model_trace p (c_evs c)) (c_obs c) &&
               Nat.eqb (length (inflight (model_final p (c_evs c)))) (c_blocked c) in
  code (negb agree) (holds p (c_evs c) (c_obs c) (c_blocked c)) 0%N.

(* ---------- classes for the evidence histogram (bit mask of what the sequence reached) ---------- *)
Definition has_hook (h : hook) (os : list obs) : bool := existsb (hook_eqb h) (all_hooks os).
Definition rejected (o : obs) : bool := match o_adm o with Some false => true | _ => false end.

(* from the model's run: a completion that was stale; a start refused by the half-open cap *)
Fixpoint features_from (p : params) (b : breaker) (evs : list event) : bool * bool :=
  match evs with
  | [] => (false, false)
  | e :: evs' =>
      let b' := step_st (trip_of p) (reset_of p) (backoff_of p) (p_hom p) b e in
      let '(s, h) := features_from p b' evs' in
      match e with
      | Finish i _ =>
          (s || match nth_error (inflight b) i with
                | Some g => negb (Nat.eqb g (gen (clock_step b)))
                | None => false
                end, h)
      | Start =>
          (s, h || (bstate_eqb (st (clock_step b)) HalfOpen &&
                    Nat.eqb (length (inflight b')) (length (inflight b))))
      | Tick _ => (s, h)
      end
  end.

Definition classify (c : case) : N :=
  let os := c_obs c in
  let '(stale, capped) := features_from (c_par c) (init) (c_evs c) in
  ((if has_hook (HState Closed Open) os then 1 else 0) +
   (if has_hook (HState Open HalfOpen) os then 2 else 0) +
   (if has_hook (HState HalfOpen Closed) os then 4 else 0) +
   (if has_hook (HState HalfOpen Open) os then 8 else 0) +
   (if existsb rejected os then 16 else 0) +
   (if stale then 32 else 0) +
   (if capped then 64 else 0))%N.
