(* Corr_C07.v — comparison and monitor for C07 (authenticator redirects / code hand-out).
   No proofs here; Corr_C07_proofs.v shows that the monitor accepts the model's own predictions. *)
From V Require Export Base CorrBase Url AuthGates.

Inductive case :=
(* net/url.Parse itself: error?, Scheme, Host, Hostname(), User (name, password), String() *)
| CParse (uri : str) (o_ok : bool) (o_scheme o_host o_hostname : str)
         (o_user : option (str * option str)) (o_string : str)
(* validRedirectURI through the shim; o_root = Authenticator.ProxyRootDomains built by
   NewAuthenticator from the configured list *)
| CRedir (cfg_domains o_root : list str) (uri : str) (obs : bool)
(* validSignature through the shim *)
| CSig (now_ns : Z) (uri : str) (sg : sigval) (ts secret : str) (obs : bool)
(* a request through the real ServeMux of NewAuthenticator, as sent on the wire (query pairs, body
   pairs, content type; decoding oracles as tables keyed by the raw value). o_loc: Location header;
   o_carried: for a redirect to the provider, the URI found in the state handed to it *)
| CServe (c : config) (now_ns : Z) (ep : endpoint) (w : wire)
         (o_status : N) (o_loc : option str) (o_carried : option str)
(* the same, with the clock read before AND after the request: the service read its own clock
   somewhere in [now_lo, now_hi]. Used for sequences that re-present a request after a deadline
   has passed on the same instance (small real-time margins): the model's verdict is accepted
   if it matches for either end, the monitor judges freshness with the earlier (lenient) instant *)
| CServeT (c : config) (now_lo now_hi : Z) (ep : endpoint) (w : wire)
          (o_status : N) (o_loc : option str) (o_carried : option str)
(* auth.NewAuthenticator on a configured root-domain list: it never fails in the code as it is *)
| CBoot (cfg_domains : list str) (ok : bool)
(* a request through the OUTERMOST handler the binary installs (auth.NewAuthenticatorMux): Host
   header as sent, path kind, the wire request for route paths (request headers such as
   X-Forwarded-Proto / X-Forwarded-Host vary in the driver; the model ignores them, as the code does) *)
| COuter (c : config) (server_host req_host : str) (p : outer_path) (now_ns : Z) (w : wire)
         (o_status : N) (o_loc : option str).

(* ============ the property, as boolean specifications on observations ============ *)
(* "host equals a configured root domain or is a subdomain of one" (leading dots of the
   configured name do not count) *)
Definition in_domain_b (h : str) (cfg_domains : list str) : bool :=
  existsb (fun c => let d := trim_left_dots c in str_eqb h d || has_suffix h (c_dot :: d)) cfg_domains.

(* every RFC 3986 reading of [s] (there is at most one) names an in-domain host *)
Definition rfc_in_domain (s : str) (cfg_domains : list str) : bool :=
  match rfc_read s with
  | Some p => in_domain_b (rfc_hostname (r_host p)) cfg_domains
  | None => true
  end.

(* an independent decimal reader for the monitor: sign, then digits, most significant first *)
Fixpoint pow10 (n : nat) : Z := match n with O => 1%Z | S k => (10 * pow10 k)%Z end.
Fixpoint read_digits (s : str) : option Z :=
  match s with
  | [] => Some 0%Z
  | c :: r => if is_digit c then
                match read_digits r with
                | Some v => Some ((Z.of_N c - 48) * pow10 (length r) + v)%Z
                | None => None
                end
              else None
  end.
Definition read_int (s : str) : option Z :=
  match s with
  | [] => None
  | c :: r =>
      if N.eqb c 45 then (if is_nil r then None else option_map Z.opp (read_digits r))
      else if N.eqb c 43 then (if is_nil r then None else read_digits r)
      else read_digits s
  end.

(* "signed with the client secret together with a timestamp no older than five minutes" *)
Definition sig_spec (now_ns : Z) (uri : str) (sg : sigval) (ts secret : str) : bool :=
  match sg with
  | SigTag (Mac k m) =>
      str_eqb k secret && negb (is_nil secret) &&
      match read_int ts with
      | Some t => str_eqb m (uri ++ dec t) && (now_ns - t * ns <=? ttl_ns)%Z
      | None => false
      end
  | _ => false
  end.

Definition is_nil_opt {A} (o : option A) : bool := match o with None => true | Some _ => false end.

Definition opt_str_eqb0 (o : option str) (a : str) : bool := match o with Some x => str_eqb x a | None => false end.

Definition contains (s sub : str) : bool :=
  (fix go (s : str) : bool :=
     has_prefix s sub || match s with [] => false | _ :: s' => go s' end) s.
Definition code_param : str := [99; 111; 100; 101; 61].      (* code= *)
Definition is_3xx (s : N) : bool := (300 <=? s) && (s <? 400).

(* ---- "that very URI": when is an emitted Location derived from a presented URI? ---- *)
(* verbatim redirects (/sign_out, /callback): Location = hexEscapeNonASCII(uri), byte for byte.
   code redirect (/sign_in): URL.String() re-serialises, so compare what an RFC reader sees:
   the authority text and the path, both percent-decoded (scheme and query are rewritten by the
   handler and are not compared). *)
Definition is_path_end (c : N) : bool := N.eqb c c_qmark || N.eqb c c_hash.
Fixpoint span_path (s : str) : str :=
  match s with [] => [] | c :: s' => if is_path_end c then [] else c :: span_path s' end.
Definition target_of (s : str) : option (str * str) :=        (* decoded authority text, decoded path *)
  let '(_, r) := split_scheme s in
  if has_prefix r [c_slash; c_slash] then
    let '(auth, rest) := span_authority (skipn 2 r) in
    Some (pct_decode auth, pct_decode (span_path rest))
  else None.
Definition code_target_eq (loc u : str) : bool :=
  match target_of loc, target_of u with
  | Some (a1, p1), Some (a2, p2) => str_eqb a1 a2 && str_eqb p1 p2
  | _, _ => false
  end.

(* some presented (sig, ts) pair is a valid fresh signature for exactly [u] *)
Definition signed_among (c : config) (now_ns : Z) (w : wire) (u : str) : bool :=
  existsb (fun s => existsb (fun t => sig_spec now_ns u (sig_lookup (w_sigtab w) s) t (c_secret c))
                            (presented w k_ts))
          (presented w k_sig).

(* the monitor for one served request. It reads only the observation and what the client sent
   (every value of every parameter, wherever it was put), never the model's choice of value:
   a 3xx must go to an in-domain Location (independent RFC reading of the header actually written)
   that is derived from a presented in-domain URI, and for /sign_in and /sign_out that very URI
   must have a valid fresh signature among the presented (sig, ts) values. *)
Definition serve_holds (c : config) (now_ns : Z) (ep : endpoint) (w : wire)
           (o_status : N) (o_loc o_carried : option str) : bool :=
  if negb (is_3xx o_status) then true
  else match o_carried with
       | Some a =>
           (* login started at the identity provider: only /start, for a presented outer URI whose
              String() is the carried one, in-domain, with an in-domain signed fresh nested URI *)
           (match ep with EpStart => true | _ => false end) &&
           existsb (fun x =>
                      let i := start_lookup (w_starttab w) x in
                      opt_str_eqb0 (si_outer i) a && rfc_in_domain a (c_domains c) &&
                      match si_nested i with
                      | Some b => rfc_in_domain b (c_domains c) &&
                                  sig_spec now_ns b (si_sig i) (si_ts i) (c_secret c)
                      | None => false
                      end)
                   (presented w k_redirect_uri)
       | None =>
           match o_loc with
           | None => false
           | Some loc =>
               rfc_in_domain loc (c_domains c) &&
               match ep with
               | EpSignOut =>
                   existsb (fun u => str_eqb loc (hex_escape_non_ascii u) && rfc_in_domain u (c_domains c) &&
                                     signed_among c now_ns w u) (presented w k_redirect_uri)
               | EpSignIn =>
                   existsb (fun u => code_target_eq loc u && rfc_in_domain u (c_domains c) &&
                                     signed_among c now_ns w u) (presented w k_redirect_uri)
               | EpStart => false                        (* /start never redirects to the caller *)
               | EpCallback =>
                   (* the callback forwards the URI of a presented state untouched *)
                   existsb (fun st => match state_lookup (w_statetab w) st with
                                      | StPair _ r => str_eqb loc (hex_escape_non_ascii r) && rfc_in_domain r (c_domains c)
                                      | _ => false
                                      end) (presented w k_state)
               end
           end
       end.

(* ============ model predictions ============ *)
Definition user_eqb (a : option userinfo) (b : option (str * option str)) : bool :=
  match a, b with
  | None, None => true
  | Some u, Some (n, p) => str_eqb (ui_name u) n && option_eqb str_eqb (ui_pass u) p
  | _, _ => false
  end.

Definition next_is_delim (s p : str) : bool :=    (* s = p ++ rest with rest empty or starting a path/query/fragment *)
  has_prefix s p && match skipn (length p) s with [] => true | d :: _ => is_auth_end d end.

Definition parse_mismatch (uri : str) (o_ok : bool) (o_scheme o_host o_hostname : str)
           (o_user : option (str * option str)) (o_string : str) : bool :=
  match go_parse uri with
  | None => o_ok
  | Some u =>
      negb (o_ok && str_eqb (u_scheme u) o_scheme && str_eqb (u_host u) o_host &&
            str_eqb (hostname u) o_hostname && user_eqb (u_user u) o_user &&
            (is_nil (u_host u) || next_is_delim o_string (authority_string (u_scheme u) u)))
  end.

(* Go's own Hostname() agrees with the independent reading whenever the latter exists *)
Definition parse_holds (uri : str) (o_ok : bool) (o_host o_hostname : str) : bool :=
  if o_ok && negb (is_nil o_host) then
    match rfc_read uri with
    | Some p => str_eqb (rfc_hostname (r_host p)) o_hostname
    | None => true
    end
  else true.

Definition opt_str_eqb := option_eqb str_eqb.

Definition serve_mismatch (c : config) (now_ns : Z) (ep : endpoint) (w : wire)
           (o_status : N) (o_loc o_carried : option str) : bool :=
  let o := serve_wire c now_ns ep w in
  negb (
    N.eqb (status_of o) o_status &&
    (* the /start oracles are consistent with the model's parser, for every presented value *)
    (match ep with
     | EpStart =>
         forallb (fun x => let i := start_lookup (w_starttab w) x in
                           bool_eqb (is_nil_opt (si_outer i)) (is_nil_opt (go_parse x)) &&
                           (is_nil_opt (si_outer i) ||
                            bool_eqb (is_nil_opt (si_nested i)) (is_nil_opt (go_parse (si_raw_nested i)))))
                 (presented w k_redirect_uri)
     | _ => true
     end) &&
    match o with
    | ORedirect src Verbatim => opt_str_eqb (location_prefix c o) o_loc && is_nil_opt o_carried
    | ORedirect src WithCode =>
        match location_prefix c o, o_loc with
        | Some p, Some l => next_is_delim l p && contains l code_param
        | _, _ => false
        end && is_nil_opt o_carried
    | OIdP a => opt_str_eqb o_carried (Some a)
    | OErr _ | OPage _ => is_nil_opt o_loc && is_nil_opt o_carried
    end).

(* the outermost handler: a route path under the configured host is the authenticator's answer;
   everything else must not redirect at all, and whatever 3xx is observed anywhere must name an
   in-domain host under the RFC reading of the Location written *)
Definition outer_routed (sh rh : str) (p : outer_path) : option endpoint :=
  match p with OpRoute ep => if str_eqb rh sh then Some ep else None | _ => None end.

Definition outer_mismatch (c : config) (sh rh : str) (p : outer_path) (now_ns : Z) (w : wire)
           (o_status : N) (o_loc : option str) : bool :=
  match outer_routed sh rh p with
  | Some ep => serve_mismatch c now_ns ep w o_status o_loc None
  | None => negb (N.eqb (status_of (outer_serve c sh rh p now_ns w)) o_status && is_nil_opt o_loc)
  end.

Definition outer_holds (c : config) (sh rh : str) (p : outer_path) (now_ns : Z) (w : wire)
           (o_status : N) (o_loc : option str) : bool :=
  if negb (is_3xx o_status) then true
  else match outer_routed sh rh p with
       | Some ep => serve_holds c now_ns ep w o_status o_loc None
       | None => match o_loc with Some loc => rfc_in_domain loc (c_domains c) | None => false end
       end.

Definition judge (cs : case) : N :=
  match cs with
  | CParse uri o_ok o_scheme o_host o_hostname o_user o_string =>
      code (parse_mismatch uri o_ok o_scheme o_host o_hostname o_user o_string)
           (parse_holds uri o_ok o_host o_hostname) 0
  | CRedir cfgd o_root uri obs =>
      code (negb (bool_eqb (valid_redirect_uri uri (norm_domains cfgd)) obs && strs_eqb (norm_domains cfgd) o_root))
           (negb obs || rfc_in_domain uri cfgd) 0
  | CSig now_ns uri sg ts secret obs =>
      code (negb (bool_eqb (valid_signature now_ns uri sg ts secret) obs))
           (negb obs || sig_spec now_ns uri sg ts secret) 0
  | CServe c now_ns ep w o_status o_loc o_carried =>
      code (serve_mismatch c now_ns ep w o_status o_loc o_carried)
           (serve_holds c now_ns ep w o_status o_loc o_carried) 0
  | CServeT c now_lo now_hi ep w o_status o_loc o_carried =>
      code (serve_mismatch c now_lo ep w o_status o_loc o_carried &&
            serve_mismatch c now_hi ep w o_status o_loc o_carried)
           (serve_holds c now_lo ep w o_status o_loc o_carried) 0
  | CBoot _ ok => code (negb ok) true 0
  | COuter c sh rh p now_ns w o_status o_loc =>
      code (outer_mismatch c sh rh p now_ns w o_status o_loc) (outer_holds c sh rh p now_ns w o_status o_loc) 0
  end.

(* ============ classes for the evidence histogram ============ *)
Definition ep_num (ep : endpoint) : N :=
  match ep with EpStart => 0 | EpSignIn => 1 | EpSignOut => 2 | EpCallback => 3 end.

Definition serve_class (ep : endpoint) (w : wire) (o_status : N) (o_loc o_carried : option str) : N :=
      (* +50: some parameter is presented with two different values (query vs body, or duplicated) *)
      (if existsb (fun k => match presented w k with a :: r => existsb (fun b => negb (str_eqb a b)) r | [] => false end)
                  [k_redirect_uri; k_sig; k_ts; k_state; k_client_id; k_code; k_error] then 50 else 0) +
      100 + 10 * ep_num ep +
      match o_carried, o_loc with
      | Some _, _ => 5
      | None, Some l => if contains l code_param then 4 else 3
      | None, None =>
          if N.eqb o_status 405 then 0
          else if N.eqb o_status 200 then 2
          else if N.eqb o_status 400 || N.eqb o_status 401 then 1
          else 6
      end.

Definition classify (cs : case) : N :=
  match cs with
  | CParse uri o_ok _ o_host _ o_user _ =>
      if negb o_ok then 0
      else if is_nil o_host then 1
      else 2 + (match o_user with Some _ => 1 | None => 0 end)
             + (if has_prefix o_host [c_lbr] then 2 else 0)
             + (match rfc_read uri with Some _ => 0 | None => 4 end)
  | CRedir cfgd _ uri obs =>
      if obs then 12 + (match rfc_read uri with Some _ => 0 | None => 1 end)
      else match go_parse uri with
           | Some u => if is_nil (u_host u) then 10 else 11
           | None => 10
           end
  | CSig now_ns uri sg ts secret obs =>
      if obs then 25
      else if is_nil uri || is_nil ts || is_nil secret then 20
      else match sg, go_parse uri with
           | SigAbsent, _ | _, None => 20
           | SigBad, _ => 21
           | SigTag _, Some _ =>
               match parse_int ts with
               | None => 22
               | Some t => if too_old now_ns t then 23 else 24
               end
           end
  | CServe c _ ep w o_status o_loc o_carried => serve_class ep w o_status o_loc o_carried
  | CServeT c _ _ ep w o_status o_loc o_carried => 1000 + serve_class ep w o_status o_loc o_carried
  | CBoot _ ok => if ok then 31 else 30
  | COuter c sh rh p _ w o_status o_loc =>
      2000 + (match p with OpPing => 0 | OpRobots => 100 | OpRoute ep => 200 + 10 * ep_num ep end)
           + (if str_eqb rh sh then 0 else 500)
           + (match o_loc with Some _ => 3 | None => if N.eqb o_status 200 then 2 else if N.eqb o_status 421 then 0 else 1 end)
  end.
