(* Corr_C04.v — sessions end. Histories of one login followed by requests presenting issued
   cookies; every step is compared with the model, and the history is judged by the C04 clauses
   stated on observations only. *)
From V Require Export CorrProxy.
Open Scope Z_scope.

Definition presented (o : ostep) : option session := is_sealed (r_cookie (o_req o)).

(* per-step clauses *)
Definition c04_step_gen (conc : bool) (lower : str -> str) (c : cfg) (u : upolicy) (t0 : Z) (o : ostep) : bool :=
  match presented o with
  | None => negb (o_served o)                 (* no session, no skip-auth in these histories: never served *)
  | Some s =>
      let ok := session_ok_b lower (o_now o) c u (r_host (o_req o)) s (o_ans o) in
      (* served only within lifetime counted from login *)
      (conc || negb (o_served o) || (o_now o <=? t0 + c_L c + 1)) &&
      (* served with a due check only after confirmation (or bounded outage grace): part of ok *)
      (negb (o_served o) || ok) &&
      (* served without asking => nothing was due *)
      (conc || negb (o_served o && match o_calls o with [] => true | _ => false end) || negb (due (o_now o) s)) &&
      (* served without asking => the presented cookie was sealed (login, confirmed check, or
         grace-served check) at most V ago: a check is due once the validity TTL has elapsed *)
      (conc || negb (o_served o && match o_calls o with [] => true | _ => false end) ||
       match o_issued_at o with Some t => o_now o <=? t + c_V c + 1 | None => true end) &&
      (* refused (revoked, denied, group removed, expired...) => upstream not reached AND cookie cleared *)
      (ok || (negb (o_served o) && match o_cookie o with CCleared => true | _ => false end)) &&
      (* whatever is re-saved keeps the lifetime bound *)
      (match o_cookie o with CSaved s' => s_lifetime_dl s' =? s_lifetime_dl s | _ => true end) &&
      (* whatever is re-saved comes due for a check at most the validity TTL from now: periodic revalidation
         cannot be postponed by the deadline written into the cookie (cookies presented in these histories were
         all sealed by the proxy itself) *)
      (conc || match o_cookie o with CSaved s' => s_valid_dl s' <=? o_now o + c_V c + 1 | _ => true end) &&
      (* the bound is the login's *)
      (conc || close (s_lifetime_dl s) (t0 + c_L c))
  end.
Definition c04_step := c04_step_gen false.

Definition judge (h : case) : N :=
  let lower := lower_tab (h_tab h) in
  let mism := existsb (case_step_mismatch h lower (h_cfg h) (h_pol h)) (h_steps h) in
  let t0 := match h_login h with Some t => t | None => 0 end in
  let holds := forallb (c04_step_gen (h_conc h) lower (h_cfg h) (h_pol h) t0) (h_steps h) in
  code mism holds 0.

Definition any {A} (f : A -> bool) (l : list A) : N := if existsb f l then 1 else 0.
Definition classify (h : case) : N :=
  let st := h_steps h in
  any (fun o => o_served o && negb (match o_calls o with [] => true | _ => false end)) st +
  2 * any (fun o => negb (o_served o) && match presented o with Some _ => true | None => false end) st +
  4 * any (fun o => match o_calls o with EpRefresh :: _ => true | _ => false end) st +
  8 * any (fun o => match o_cookie o with CSaved s' => match s_grace s' with Some _ => true | None => false end | _ => false end) st +
  16 * (if Nat.leb 8 (length st) then 1 else 0).
