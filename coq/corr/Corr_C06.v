(* Corr_C06.v — comparison and monitor for C06 (login callback bound to the browser's own flow;
   post-login redirect same-site).  No proofs here (see proofs/Corr_C06_proofs.v).

   Two kinds of cases:
   CFlow    one request to /oauth2/callback against the real proxy, described symbolically: which
            strings were presented as state and CSRF cookie (by what they spell: a ciphertext made
            by a real OAuthStart / SaveSession of this proxy, a non-canonical respelling of one, a
            value sealed under another key, junk), plus what the proxy did.
   CTarget  one raw request line sent over TCP to the real proxy, plus what came back (status,
            Location, and — when a flow was started — the Host it was started under and the
            RedirectURI unsealed from the state parameter). *)
From V Require Export Base CorrBase ReqUri Callback.

(* the symbolic name of the proxy's cookie secret in every case; any other number is another key *)
Definition PROXY_KEY : N := 1.

Fixpoint assoc_str (k : str) (t : list (str * str)) : option str :=
  match t with [] => None | (a, b) :: t' => if str_eqb k a then Some b else assoc_str k t' end.
(* net/http.Redirect(rw, req, url, 302) as computed by Go for the URLs of this case (request path
   /oauth2/callback): a library oracle, identity where the table is silent *)
Definition redir_tab (t : list (str * str)) (s : str) : str :=
  match assoc_str s t with Some x => x | None => s end.

Record flow_obs := {
  fo_status : N;
  fo_redeem_called : bool;             (* the fake authenticator saw a /redeem call *)
  fo_session : option session;         (* session cookie set: (email, AuthorizedUpstream) after re-opening it *)
  fo_csrf_cleared : bool;
  fo_location : str                    (* Location header, "" if none *)
}.

Record target_obs := {
  to_status : N;
  to_location : str;
  to_started : option (str * str)      (* a flow was started: (host of redirect_uri = req.Host, unsealed RedirectURI) *)
}.

Inductive case :=
| CFlow (canon strict : bool) (starts : list started) (issued : list sealed) (r : cb_req)
        (redir : list (str * str)) (o : flow_obs)
| CTarget (hosts : list str) (hdr_host : str) (t : str) (o : target_obs).

(* ------------------------------------------------------------------ model predictions *)
Definition session_opt_eqb := option_eqb session_eqb.

Definition flow_mismatch (canon strict : bool) (r : cb_req) (redir : list (str * str)) (o : flow_obs) : bool :=
  negb (bool_eqb (redeem_called r) (fo_redeem_called o)) ||
  match oauth_callback canon strict PROXY_KEY r with
  | CbPage st =>
      negb (N.eqb st (fo_status o) && session_opt_eqb None (fo_session o) && negb (fo_csrf_cleared o))
  | CbOk s loc =>
      negb (N.eqb 302 (fo_status o) && session_opt_eqb (Some s) (fo_session o) && fo_csrf_cleared o &&
            str_eqb (redir_tab redir loc) (fo_location o))
  end.

Definition opt_pair_eqb (a b : option (str * str)) : bool :=
  match a, b with
  | None, None => true
  | Some (x, y), Some (x', y') => str_eqb x x' && str_eqb y y'
  | _, _ => false
  end.
Definition no_start (o : target_obs) : bool := match to_started o with None => true | Some _ => false end.

Definition target_mismatch (hosts : list str) (hh t : str) (o : target_obs) : bool :=
  match route hosts hh t with
  | RUnmodelled => false
  | RBadRequest => negb (N.eqb (to_status o) 400 && no_start o)
  | RPing => negb (N.eqb (to_status o) 200 && no_start o)
  | RMisdirected => negb (N.eqb (to_status o) 421 && no_start o)
  | RCleanRedirect loc => negb (N.eqb (to_status o) 301 && no_start o && str_eqb loc (to_location o))
  | RFixed => negb (no_start o)
  | RProxy h rec => negb (N.eqb (to_status o) 302 && opt_pair_eqb (Some (h, rec)) (to_started o))
  end.

(* ------------------------------------------------------------------ the property on observations *)
(* What a browser takes as the host of an absolute URL: skip "scheme:", skip any run of slashes and
   backslashes, read up to the first / \ ? #, drop user-info up to the last '@'. *)
Fixpoint drop_slashes (s : str) : str :=
  match s with c :: s' => if N.eqb c 47 || N.eqb c 92 then drop_slashes s' else s | [] => [] end.
Fixpoint take_authority (s : str) : str :=
  match s with
  | c :: s' => if N.eqb c 47 || N.eqb c 92 || N.eqb c 63 || N.eqb c 35 then [] else c :: take_authority s'
  | [] => []
  end.
Fixpoint after_last_at (s : str) : str :=
  match s with
  | [] => []
  | c :: s' => if existsb (N.eqb 64) s' then after_last_at s' else if N.eqb c 64 then s' else s
  end.
Definition browser_host (s : str) : option str :=
  match cut_at 58 s with
  | (_, Some r) => Some (after_last_at (take_authority (drop_slashes r)))
  | (_, None) => None
  end.

(* a Location / recorded URI is on host [h]: relative same-site, or absolute with exactly that host *)
Definition on_host (h : str) (u : str) : bool :=
  same_site_rel u ||
  (match browser_host u with Some bh => str_eqb bh h | None => false end && negb (existsb is_ctl u)).

(* the targets the property quantifies over: origin-form, or absolute-form that NAMES a host:
   scheme "://" and then an authority whose host part — read as a browser reads it, after any
   user-info — is not empty.  "http:/x", "http:x", "http:///x" and "http://user@/x" name none: the
   proxy routes them by the Host header and records them verbatim; no browser sends them. *)
Definition after_scheme (t : str) : option str :=
  match get_scheme t with Some (sch, rest) => if nilb sch then None else Some rest | None => None end.
Definition target_in_scope (t : str) : bool :=
  has_prefix t [47] ||
  match after_scheme t with
  | Some (a :: b :: rest) => N.eqb a 47 && N.eqb b 47 && negb (nilb (after_last_at (take_authority rest)))
  | _ => false
  end.

Definition target_holds (hosts : list str) (hh t : str) (o : target_obs) : bool :=
  match to_started o with
  | None => true
  | Some (h, rec) =>
      negb (target_in_scope t) ||
      (mem_str h hosts &&
       if has_prefix t [47] then str_eqb h hh && same_site_rel rec
       else match browser_host rec with Some bh => str_eqb bh h | None => false end && negb (existsb is_ctl rec))
  end.

(* the flow clause.  [pay w] = the payload of a string that spells a ciphertext of the proxy key *)
Definition spelled (w : wire) : option (N * sealed) :=
  match w with WEnc v c => Some (v, c) | WJunk _ => None end.
Definition flow_in (f : flow) (l : list flow) : bool := existsb (flow_eqb f) l.

Record flow_clauses := {
  k_sealed_by_proxy : bool;     (* state and cookie spell ciphertexts this proxy issued *)
  k_distinct_cipher : bool;     (* ... which are different ciphertexts *)
  k_same_record : bool;         (* ... and open to the same flow record *)
  k_started_flow : bool;        (* ... which is a flow this proxy started *)
  k_own_start : bool;           (* ... and both values were produced by ONE OAuthStart run: the browser's own flow,
                                   not the state of flow A with the cookie of flow B *)
  k_redeemed : bool;            (* the authenticator redeemed the code, e-mail non-empty, and it was asked *)
  k_validated : bool;           (* some validator passed *)
  k_bound_to_host : bool;       (* session e-mail is the redeemed one, AuthorizedUpstream = req.Host *)
  k_location_recorded : bool;   (* Location is exactly the recorded URI (through http.Redirect) *)
  k_location_same_site : bool   (* ... and is on the request's host *)
}.

Definition payload_flow (p : payload) : option flow := match p with PFlow f => Some f | PSession _ => None end.

(* the real OAuthStart runs of the case: each produced one flow record and two sealed values *)
Definition started_flows (starts : list started) : list flow := map st_flow starts.
Definition produced_by (e : started) (c : sealed) : bool := sealed_eqb c (st_cookie e) || sealed_eqb c (st_state e).

Definition clauses (starts : list started) (issued : list sealed) (r : cb_req) (redir : list (str * str))
                   (o : flow_obs) (s : session) : flow_clauses :=
  let st := spelled (cb_state r) in
  let ck := match cb_cookie r with Some w => spelled w | None => None end in
  match st, ck with
  | Some (_, Seal k1 n1 p1), Some (_, Seal k2 n2 p2) =>
      let c1 := Seal k1 n1 p1 in let c2 := Seal k2 n2 p2 in
      let f1 := payload_flow p1 in let f2 := payload_flow p2 in
      {| k_sealed_by_proxy := N.eqb k1 PROXY_KEY && N.eqb k2 PROXY_KEY && sealed_in c1 issued && sealed_in c2 issued;
         k_distinct_cipher := negb (sealed_eqb c1 c2);
         k_same_record := match f1, f2 with Some a, Some b => flow_eqb a b | _, _ => false end;
         k_started_flow := match f1 with Some a => flow_in a (started_flows starts) | None => false end;
         k_own_start := existsb (fun e => produced_by e c1 && produced_by e c2) starts;
         k_redeemed := fo_redeem_called o && negb (nil_str (cb_code r)) &&
                       match cb_redeem r with RedeemOk e => negb (nil_str e) | RedeemErr => false end;
         k_validated := cb_valid r;
         k_bound_to_host := str_eqb (s_upstream s) (cb_host r) &&
                            match cb_redeem r with RedeemOk e => str_eqb (s_email s) e | RedeemErr => false end;
         k_location_recorded := match f1 with
                                | Some a => str_eqb (fo_location o) (redir_tab redir (f_redirect a))
                                | None => false end;
         k_location_same_site := on_host (cb_host r) (fo_location o) |}
  | _, _ =>
      {| k_sealed_by_proxy := false; k_distinct_cipher := false; k_same_record := false; k_started_flow := false;
         k_own_start := false;
         k_redeemed := false; k_validated := false; k_bound_to_host := false; k_location_recorded := false;
         k_location_same_site := false |}
  end.

Definition all_clauses (k : flow_clauses) : bool :=
  k_sealed_by_proxy k && k_distinct_cipher k && k_same_record k && k_started_flow k && k_own_start k && k_redeemed k &&
  k_validated k && k_bound_to_host k && k_location_recorded k && k_location_same_site k.

(* signatures of the two known findings (known_findings.d/C06.json) *)
(* K1: every clause holds except "different ciphertexts": state and cookie are two spellings of ONE
   ciphertext (possible only with non-canonical base64 decoding, DESIGN §7-D1) *)
Definition sig_noncanonical (canon : bool) (r : cb_req) (k : flow_clauses) : bool :=
  negb canon && negb (k_distinct_cipher k) &&
  k_sealed_by_proxy k && k_same_record k && k_started_flow k && k_own_start k && k_redeemed k && k_validated k &&
  k_bound_to_host k && k_location_recorded k && k_location_same_site k &&
  match spelled (cb_state r), (match cb_cookie r with Some w => spelled w | None => None end) with
  | Some (v1, _), Some (v2, _) => negb (N.eqb v1 v2)
  | _, _ => false
  end.
(* K2: state and cookie are two different strings spelling sealed SESSIONS of this proxy (they open
   "as" the empty flow record); everything else holds and Location is what http.Redirect makes of "" *)
Definition sig_type_confusion (r : cb_req) (redir : list (str * str)) (o : flow_obs) (k : flow_clauses) : bool :=
  match spelled (cb_state r), (match cb_cookie r with Some w => spelled w | None => None end) with
  | Some (_, Seal _ _ (PSession _)), Some (_, Seal _ _ (PSession _)) =>
      k_sealed_by_proxy k && k_redeemed k && k_validated k && k_bound_to_host k &&
      str_eqb (fo_location o) (redir_tab redir []) && k_location_same_site k
  | _, _ => false
  end.

Definition flow_holds (starts : list started) (issued : list sealed) (r : cb_req) (redir : list (str * str))
                      (o : flow_obs) : bool :=
  negb (req_derivable PROXY_KEY issued r) ||      (* strings no client could have built: not judged *)
  match fo_session o with
  | None => true                                  (* no session cookie: nothing to justify *)
  | Some s => all_clauses (clauses starts issued r redir o s)
  end.

Definition flow_known (canon : bool) (starts : list started) (issued : list sealed) (r : cb_req)
                      (redir : list (str * str)) (o : flow_obs) : N :=
  match fo_session o with
  | None => 0
  | Some s =>
      let k := clauses starts issued r redir o s in
      if sig_noncanonical canon r k then 1
      else if sig_type_confusion r redir o k then 2
      else 0
  end.

Definition judge (c : case) : N :=
  match c with
  | CFlow canon strict starts issued r redir o =>
      code (flow_mismatch canon strict r redir o) (flow_holds starts issued r redir o)
           (flow_known canon starts issued r redir o)
  | CTarget hosts hh t o =>
      code (target_mismatch hosts hh t o) (target_holds hosts hh t o) 0
  end.

(* ------------------------------------------------------------------ classes for the evidence histogram *)
(* first guard of the model that stops the callback (0 = none: session set) *)
Definition cb_branch (canon strict : bool) (r : cb_req) : N :=
  if negb (cb_form_ok r) then 1
  else if negb (nil_str (cb_error r)) then 2
  else match redeem_code (cb_code r) (cb_redeem r) with
  | None => 3
  | Some _ =>
    match unmarshal_state canon PROXY_KEY (cb_state r) with
    | None => 4
    | Some st =>
      if strict && N.eqb (f_sid st) 0 then 10 else
      match cb_cookie r with
      | None => 5
      | Some cw =>
        match unmarshal_state canon PROXY_KEY cw with
        | None => 6
        | Some cs => if wire_eqb (cb_state r) cw then 7
                     else if negb (flow_eqb st cs) then 8
                     else if negb (cb_valid r) then 9 else 0
        end
      end
    end
  end.

Definition classify (c : case) : N :=
  match c with
  | CFlow canon strict starts issued r redir o =>
      match fo_session o with
      | Some _ => 1 + flow_known canon starts issued r redir o      (* 1 own flow, 2 K1, 3 K2 *)
      | None => 10 + cb_branch canon strict r
      end
  | CTarget hosts hh t o =>
      100 + match route hosts hh t with
            | RBadRequest => 0 | RUnmodelled => 1 | RPing => 2 | RMisdirected => 3
            | RCleanRedirect _ => 4 | RFixed => 5
            | RProxy _ _ => if has_prefix t [47] then 6 else 7
            end
  end.
