(* Corr_C05.v — bounded outage grace. Linear browser histories (the browser carries the last
   Set-Cookie); every step is compared with the model; the history is judged by recomputing the
   start of the current outage FROM OBSERVATIONS ONLY and checking the C05 clauses against it. *)
From V Require Export CorrProxy.
Open Scope Z_scope.

Definition presented (o : ostep) : option session := is_sealed (r_cookie (o_req o)).

Definition saved_grace (o : ostep) : option (option Z) :=
  match o_cookie o with CSaved s' => Some (s_grace s') | _ => None end.

Definition obs_grace_served (o : ostep) : bool :=
  o_served o && match saved_grace o with Some (Some _) => true | _ => false end.
Definition obs_full_success (o : ostep) : bool :=
  o_served o && match saved_grace o with Some None => true | _ => false end.

(* walk the history, threading the outage start derived from OBSERVATIONS ONLY:
   a due check that was served although the answers did not confirm it was served under grace. *)
Fixpoint c05_walk (lower : str -> str) (c : cfg) (u : upolicy) (outage : option Z) (steps : list ostep) : bool :=
  match steps with
  | [] => true
  | o :: rest =>
      let allowed := p_groups (u_rules u) in
      let now := o_now o in
      let g := match outage with Some g => g | None => now end in
      match presented o with
      | None => c05_walk lower c u outage rest
      | Some s =>
          let is_due := due now s in
          let confirmed := if s_refresh_dl s <? now then refresh_confirmed_b allowed (o_ans o)
                           else validate_confirmed_b allowed (o_ans o) in
          let outage_ans := if s_refresh_dl s <? now then refresh_outage_b allowed (o_ans o)
                            else validate_outage_b allowed (o_ans o) in
          let gs := o_served o && is_due && negb confirmed in       (* served under grace *)
          let fs := o_served o && is_due && confirmed in            (* a successful check *)
          (* everything else about the session is in order (binding, lifetime, rules, refresh token) *)
          let otherwise_ok :=
            str_eqb (s_slug s) (c_slug c) && str_eqb (s_upstream s) (r_host (o_req o)) &&
            (now <=? s_lifetime_dl s - 1) && request_gate lower (u_rules u) (s_email s) &&
            (negb (s_refresh_dl s <? now) || negb (match s_refresh_tok s with [] => true | _ => false end)) in
          let step_ok :=
            (* grace only for 429/503 answers, only within G of the FIRST such answer, never past the lifetime *)
            (negb gs || (outage_ans && (now <? g + c_G c) && (now <=? s_lifetime_dl s + 1))) &&
            (* an existing session keeps working during the grace period of the current outage
               (in particular a later outage, after a success, gets a fresh period) *)
            (negb (is_due && negb confirmed && outage_ans && otherwise_ok && (now <? g + c_G c - 1)) || o_served o) &&
            (* a session that is refused (grace over, rejected, expired, ...) has its cookie cleared by that response *)
            (o_served o || match o_cookie o with CCleared => true | _ => false end) in
          let outage' := if gs then Some g else if fs then None else outage in
          step_ok && c05_walk lower c u outage' rest
      end
  end.

Definition judge (h : case) : N :=
  let lower := lower_tab (h_tab h) in
  let mism := existsb (case_step_mismatch h lower (h_cfg h) (h_pol h)) (h_steps h) in
  code mism (c05_walk lower (h_cfg h) (h_pol h) None (h_steps h)) 0.

Definition any {A} (f : A -> bool) (l : list A) : N := if existsb f l then 1 else 0.
Definition classify (h : case) : N :=
  let st := h_steps h in
  any obs_grace_served st + 2 * any obs_full_success st +
  4 * any (fun o => negb (o_served o) && match presented o with Some s => due (o_now o) s | None => false end) st +
  8 * (if Nat.leb 2 (length (filter obs_grace_served st)) then 1 else 0) +
  16 * any (fun o => match o_calls o with EpRefresh :: _ => true | _ => false end) st.
