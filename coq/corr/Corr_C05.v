(* Corr_C05.v — bounded outage grace. Linear browser histories (the browser carries the last
   Set-Cookie); every step is compared with the model; the history is judged by recomputing the
   start of the current outage FROM OBSERVATIONS ONLY and checking the C05 clauses against it. *)
From V Require Export CorrProxy.
Open Scope Z_scope.

Definition presented (o : ostep) : option session := is_sealed (r_cookie (o_req o)).

Definition saved_grace (o : ostep) : option (option Z) :=
  match o_cookie o with CSaved s' => Some (s_grace s') | _ => None end.

Definition obs_grace_served (o : ostep) : bool :=
  o_served o && match saved_grace o with Some (Some _) => true | _ => false end.
Definition obs_full_success (o : ostep) : bool :=
  o_served o && match saved_grace o with Some None => true | _ => false end.

(* walk the history, threading the trace-derived outage start *)
Fixpoint c05_walk (c : cfg) (u : upolicy) (outage : option Z) (steps : list ostep) : bool :=
  match steps with
  | [] => true
  | o :: rest =>
      let allowed := p_groups (u_rules u) in
      let now := o_now o in
      let g := match outage with Some g => g | None => now end in
      let step_ok :=
        match presented o with
        | None => true
        | Some s =>
            (* a due check that was not confirmed is served only for 429/503 answers ... *)
            (negb (o_served o && due now s) ||
             (if s_refresh_dl s <? now
              then refresh_confirmed_b allowed (o_ans o) || refresh_outage_b allowed (o_ans o)
              else validate_confirmed_b allowed (o_ans o) || validate_outage_b allowed (o_ans o))) &&
            (* ... and only within the grace TTL of the FIRST such answer, never past the lifetime *)
            (negb (obs_grace_served o) ||
             ((now <? g + c_G c + 1) && (now <=? s_lifetime_dl s + 1) &&
              match saved_grace o with Some (Some g') => close g' g | _ => false end)) &&
            (* a confirmed check ends the episode *)
            (negb (o_served o && due now s &&
                   (if s_refresh_dl s <? now then refresh_confirmed_b allowed (o_ans o)
                    else validate_confirmed_b allowed (o_ans o))) ||
             obs_full_success o)
        end in
      let outage' := if obs_grace_served o then Some g else if obs_full_success o then None else outage in
      step_ok && c05_walk c u outage' rest
  end.

Definition judge (h : case) : N :=
  let lower := lower_tab (h_tab h) in
  let mism := existsb (step_mismatch lower (h_cfg h) (h_pol h)) (h_steps h) in
  code mism (c05_walk (h_cfg h) (h_pol h) None (h_steps h)) 0.

Definition any {A} (f : A -> bool) (l : list A) : N := if existsb f l then 1 else 0.
Definition classify (h : case) : N :=
  let st := h_steps h in
  any obs_grace_served st + 2 * any obs_full_success st +
  4 * any (fun o => negb (o_served o) && match presented o with Some s => due (o_now o) s | None => false end) st +
  8 * (if Nat.leb 2 (length (filter obs_grace_served st)) then 1 else 0) +
  16 * any (fun o => match o_calls o with EpRefresh :: _ => true | _ => false end) st.
