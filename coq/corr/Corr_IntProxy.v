(* Corr_IntProxy.v — comparison and monitor for the integration model (coq/theories/ProxyAll.v).

   A case is ONE request sent over a loopback socket to the real sso-proxy (proxy.New behind the logging
   wrapper, 2-5 upstreams) together with everything that was observed: which recording backend received
   what (Host, headers, cookies as its own net/http parsed them, verification verdicts of the signatures
   computed in Go with the real primitives), what the client received (status, header map, Set-Cookie
   list, the session cookie re-opened with the proxy's key), which back-channel calls the fake
   authenticator saw.

   [mismatch]: the model's prediction [serve] differs from the observation on a projected observable.
   [holds]:    the composite property on the OBSERVATION alone, written without the model's code path:
               routing by list search (C13), mediation by the boolean session clause of CorrProxy (C01),
               identity headers / cookie (C03), signature verdicts (C12), response hardening by the C18
               monitor clauses, 421 for unrouted hosts, minted sessions stamped with Host and provider.
   Each composite clause is applied under the guard its theorem is proved under, and ONLY there:
     signature verdicts (INT_signature_verifies)      no Connection token names a covered / signature header and
                                                      the Content-Length header at signing time is the transport's;
     identity headers at the backend                  each is the asserted value OR NOTHING when the Connection header
       (INT_backend_reached_only_if)                  names it hop-by-hop — the theorem's own statement, no guard;
     response hardening (INT_every_response_hardened) no 1xx from the backend on a flush_interval upstream.
   Outside a guard a case is judged for model = implementation agreement only (code 0 / 1). The three defects behind
   the guards are findings of C03 / C12 / C18 (C03-K3, C12-K1, C12-K2, C18-K3) and are reported by those properties'
   checks; they are NOT violations of C01 and nothing is attributed here (judge never returns 100+k).
   The mediation clauses (which backend, whitelisted or a session in order under the routed upstream's policy and
   provider, identity never client-chosen, no session cookie, 421, bound sessions) are unguarded.
   No proofs in this file. *)
From V Require Export Base CorrBase Validators ProxyAll.
From V Require ProxyCore Hostmux ReqHeaders Signer RespHeaders Callback Gen_Signer Gen_Headers CorrProxy Corr_C18.

(* ---- oracle tables ---- *)
Fixpoint tab_match (t : list (str * str * bool)) (p s : str) : bool :=
  match t with
  | [] => false
  | (p', s', b) :: t' => if str_eqb p p' && str_eqb s s' then b else tab_match t' p s
  end.
Fixpoint tab_replace (t : list (str * str * str * str)) (p s tmpl : str) : str :=
  match t with
  | [] => []
  | (p', s', tm', r) :: t' => if str_eqb p p' && str_eqb s s' && str_eqb tmpl tm' then r else tab_replace t' p s tmpl
  end.
Fixpoint tab_opens (t : list (str * ProxyCore.session)) (v : str) : option ProxyCore.session :=
  match t with
  | [] => None
  | (v', s) :: t' => if str_eqb v v' then Some s else tab_opens t' v
  end.

(* ---- observations ---- *)
Record obs_backend := {
  ob_target : str;                    (* authority of the backend that received the request *)
  ob_host : str;                      (* its Host *)
  ob_method : str; ob_path : str; ob_rawquery : str; ob_body : str;
  ob_headers : Signer.headers;        (* received header map, keys sorted; ciphertexts replaced by names *)
  ob_cookies : list (str * str);      (* (name, value) of r.Cookies() at the backend *)
  ob_rsa : option bool;               (* RSA-PKCS1v15/SHA-256 over the implementation's mapRequestToHashInput of the
                                         RECEIVED request under the published key named by kid; None = no signature header *)
  ob_kid : bool;                      (* kid names a key published at /oauth2/v1/certs *)
  ob_hmac : N                         (* hmacauth.AuthenticateRequest result code (3 = match); 0 when not checked *)
}.

Record obs := {
  ob_seen : list obs_backend;         (* every request any backend received *)
  ob_presented : option str;          (* value of req.Cookie(<cookie name>) on the request as net/http parses it *)
  ob_responded : bool;
  ob_status : N;
  ob_hdr : RespHeaders.hdr str;       (* response header map without Set-Cookie, keys sorted *)
  ob_set : list RespHeaders.hval;     (* Set-Cookie values in order *)
  ob_session : ProxyCore.cookie_effect;  (* last Set-Cookie of the session cookie, opened with the proxy's key *)
  ob_calls : list call
}.

Record case := {
  cs_d : deployment;
  cs_q : request; cs_a : answers; cs_now : Z;
  cs_match : list (str * str * bool);
  cs_replace : list (str * str * str * str);
  cs_lower : list (str * str);
  cs_opens : list (str * ProxyCore.session);
  cs_obs : obs
}.

Definition nilb {A} (l : list A) : bool := match l with [] => true | _ => false end.

(* ------------------------------------------------------------------------------------------ *)
(* model prediction vs observation *)

Definition call_eqb (a b : call) : bool :=
  match a, b with
  | CRedeem, CRedeem | CRefresh, CRefresh | CValidate, CValidate | CProfile, CProfile => true
  | _, _ => false
  end.

Definition cookie_pairs (lines : list str) : list (str * str) :=
  map ReqHeaders.name_value (ReqHeaders.read_cookies lines).
Definition pair_eqb (a b : str * str) : bool := str_eqb (fst a) (fst b) && str_eqb (snd a) (snd b).

Definition has_header (k : str) (h : Signer.headers) : bool := negb (nilb (Signer.hvals k h)).
Definition sig_present (p : Signer.request) : bool :=
  match Signer.r_sso_sig p with Some _ => true | None => has_header Signer.sso_signature (Signer.r_headers p) end.
Definition gap_present (p : Signer.request) : bool :=
  match Signer.r_gap_sig p with Some _ => true | None => has_header Signer.gap_signature (Signer.r_headers p) end.

(* header names compared at the backend: the covered headers (identity headers and Cookie among them)
   and whatever the operator injects *)
Definition watched_req (u : iupstream) : list str :=
  cov ++ covh ++ map ReqHeaders.canon_key (map fst (up_inject u)).

Definition rsa_on (d : deployment) (u : iupstream) : bool :=
  negb (up_skip_sign u) && match dp_signer d with Some _ => true | None => false end.
Definition hmac_on (u : iupstream) : bool :=
  negb (up_skip_sign u) && match up_hmac u with Some _ => true | None => false end.

Definition backend_mismatch (d : deployment) (u : iupstream) (host : str) (bv : backend_view) (b : obs_backend) : bool :=
  let p := bk_req bv in
  let c := sg_cfg (fun _ _ _ => bk_target bv) d u host in   (* only signer / hmac fields are read below *)
  let certs := Signer.published_certs c in
  negb (str_eqb (bk_target bv) (ob_target b) && str_eqb (bk_host bv) (ob_host b) &&
        str_eqb (Signer.r_method p) (ob_method b) && str_eqb (Signer.r_path p) (ob_path b) &&
        str_eqb (Signer.r_rawquery p) (ob_rawquery b) && str_eqb (Signer.body_bytes p) (ob_body b) &&
        forallb (fun k => strs_eqb (Signer.hvals k (Signer.r_headers p)) (Signer.hvals k (ob_headers b))) (watched_req u) &&
        list_eqb pair_eqb (cookie_pairs (Signer.hvals Signer.cookie_h (Signer.r_headers p))) (ob_cookies b) &&
        bool_eqb (sig_present p) (has_header Signer.sso_signature (ob_headers b)) &&
        bool_eqb (gap_present p) (has_header Signer.gap_signature (ob_headers b)) &&
        (negb (rsa_on d u) ||
         (option_eqb bool_eqb (Signer.verify_rsa cov certs p) (ob_rsa b) &&
          bool_eqb (Signer.kid_published certs p) (ob_kid b))) &&
        (negb (hmac_on u) ||
         match up_hmac u with Some k => N.eqb (Signer.verify_hmac covh k p) (ob_hmac b) | None => true end)).

Definition hsts_key : str := Corr_C18.hsts_key.
Definition watched_resp : list str :=
  [RespHeaders.k_xcto; RespHeaders.k_xfo; RespHeaders.k_xxp; hsts_key; RespHeaders.k_user].

(* Location: exact for the https upgrade, the recorded URI and whatever a backend sent; by its
   <provider>/<slug>/sign_in? prefix for the redirects to the provider (the query carries a MAC, a time
   stamp and a ciphertext) *)
Definition loc_ok (lk : loc_kind) (model : list RespHeaders.hval) (seen : list str) : bool :=
  match lk with
  | LkSignIn _ | LkSignOut _ =>
      match model, seen with
      | [RespHeaders.VStr m], [s] => has_prefix s (m ++ [63])
      | _, _ => false
      end
  | LkClean => negb (nilb seen)
  | _ => list_eqb Corr_C18.hval_eqb model (map RespHeaders.VStr seen)
  end.

(* a 1xx from the backend: the final status is not comparable (C18 notes) *)
Definition status_comparable (o : outcome) (a : answers) : bool :=
  match oc_backend o with
  | Some _ => Nat.eqb (RespHeaders.u_n1xx (an_backend a)) 0
  | None => true
  end.

Definition mismatch (cs : case) : bool :=
  let d := cs_d cs in let q := cs_q cs in let a := cs_a cs in let ob := cs_obs cs in
  let o := serve (tab_match (cs_match cs)) (tab_replace (cs_replace cs)) (CorrProxy.lower_tab (cs_lower cs))
                 (tab_opens (cs_opens cs)) d q a (cs_now cs) in
  let m_backend :=
    match oc_backend o, oc_upstream o, ob_seen ob with
    | None, _, [] => false
    | Some bv, Some u, [b] => backend_mismatch d u (rq_host q) bv b
    | _, _, _ => true
    end in
  let m_client :=
    match oc_client o with
    | RespHeaders.NoResponse => ob_responded ob
    | RespHeaders.Resp st h =>
        negb (ob_responded ob) ||
        (status_comparable o a && negb (N.eqb st (ob_status ob))) ||
        negb (forallb (fun k => list_eqb Corr_C18.hval_eqb (RespHeaders.hget k h)
                                         (map RespHeaders.VStr (RespHeaders.hget k (ob_hdr ob)))) watched_resp) ||
        negb (loc_ok (oc_loc o) (RespHeaders.hget RespHeaders.k_location h) (RespHeaders.hget RespHeaders.k_location (ob_hdr ob))) ||
        negb (list_eqb Corr_C18.hval_eqb (RespHeaders.hget RespHeaders.k_set_cookie h) (ob_set ob))
    end in
  let m_session := negb (CorrProxy.effect_close (visible_session (dp_cookie_name d) (oc_client o) (oc_session o)) (ob_session ob)) in
  let m_calls := negb (list_eqb call_eqb (oc_calls o) (ob_calls ob)) in
  m_backend || m_client || m_session || m_calls.

(* ------------------------------------------------------------------------------------------ *)
(* the composite property on the observation *)

(* ---- where the guarded clauses apply (read off the request as it is when it is signed) ---- *)
Definition protected_names : list str := cov ++ covh ++ Signer.sig_headers.
Record applic := {
  ap_sig : bool;            (* guards 1 and 2 of INT_signature_verifies hold *)
  ap_hop : str -> bool      (* the Connection header (or the hop-by-hop list) names this header *)
}.
Definition applic_of (q : request) (o : outcome) : applic :=
  match oc_backend o with
  | Some bv =>
      let rs := signer_request q (bk_handler bv) in
      {| ap_sig := Signer.conn_safe protected_names (Signer.r_headers rs) && Signer.cl_canonical rs;
         ap_hop := fun k => mem_str k (Signer.hop_keys (Signer.r_headers rs)) |}
  | None => {| ap_sig := true; ap_hop := fun _ => false |}
  end.

Section Monitor.
Variable re_match : str -> str -> bool.
Variable re_replace : str -> str -> str -> str.
Variable lower : str -> str.
Variable opens : str -> option ProxyCore.session.

(* C13: exact static match wins (the LAST configured for the host), else the FIRST matching pattern *)
Definition exp_route (ups : list iupstream) (h : str) : option iupstream :=
  match rev (filter (simple_for h) ups) with
  | u :: _ => Some u
  | [] => match filter (rw_match re_match h) ups with u :: _ => Some u | [] => None end
  end.
Definition exp_target (h : str) (u : iupstream) : str :=
  match Hostmux.u_route (up_hm u) with
  | Hostmux.Simple _ to => Hostmux.url_host to
  | Hostmux.Rewrite from to => Hostmux.url_host (re_replace from h to)
  end.

Definition fixed_paths : list str := [p_robots; p_certs; p_sign_out; p_callback; p_auth].

(* identity the backend must see: none on a skip-auth path; otherwise the session the response re-saves
   when that Set-Cookie is visible, else the presented session updated by what the authenticator answered
   to the due refresh / revalidation (C03's vocabulary: ReqHeaders.asserted_session) *)
Definition due_of (now : Z) (allowed : list str) (s : ProxyCore.session) (a : ProxyCore.answers) : ReqHeaders.due :=
  let groups_then (k : list str -> ReqHeaders.due) :=
    if ReqHeaders.no_group_check allowed then k []
    else match ProxyCore.user_groups a with ProxyCore.UgOk ug => k ug | _ => ReqHeaders.GraceFallback end in
  if (ProxyCore.s_refresh_dl s <? now)%Z then
    match ProxyCore.redeem_refresh a with
    | ProxyCore.RrOk tok _ => groups_then (ReqHeaders.RefreshDue tok)
    | _ => ReqHeaders.GraceFallback
    end
  else if (ProxyCore.s_valid_dl s <? now)%Z then
    match ProxyCore.a_validate a with
    | ProxyCore.St c => if (c =? 200)%Z then groups_then ReqHeaders.ValidateDue else ReqHeaders.GraceFallback
    | ProxyCore.Transport => ReqHeaders.GraceFallback
    end
  else ReqHeaders.NotDue.

Definition identity_expected (wl : bool) (now : Z) (allowed : list str) (presented : option ProxyCore.session)
    (a : ProxyCore.answers) (ob : obs) : option ReqHeaders.session :=
  if wl then None
  else match ob_session ob, presented with
       | ProxyCore.CSaved s', _ => Some (rh_session s')
       | _, Some s => Some (ReqHeaders.asserted_session allowed (rh_session s) (due_of now allowed s a))
       | _, None => None
       end.

Definition injected (u : iupstream) (k : str) : list str :=
  match ReqHeaders.last_injected k (up_inject u) with Some v => [v] | None => [] end.

Definition backend_ok (ap : applic) (d : deployment) (u : iupstream) (q : request) (a : answers) (now : Z) (ob : obs) (b : obs_backend) : bool :=
  let got (k : str) (want : list str) := strs_eqb (Signer.hvals k (ob_headers b)) (if ap_hop ap k then [] else want) in
  let host := rq_host q in
  let t := exp_target host u in
  let presented := match ob_presented ob with Some v => opens v | None => None end in
  let sess_ok := match presented with
                 | Some s => CorrProxy.session_ok_b lower now (pc_cfg d u) (pc_pol u) host s (an_auth a)
                 | None => false end in
  let wl := existsb (fun p => re_match p (rq_path q)) (Hostmux.u_skip (up_hm u)) in
  let fav := str_eqb (rq_path q) p_favicon in
  let h := ob_headers b in
  (* C13: the backend of the upstream the Host routes to, under the right Host header *)
  str_eqb (ob_target b) t &&
  str_eqb (ob_host b) (if Hostmux.u_preserve (up_hm u) then Hostmux.preserved_host host t else t) &&
  (* C01: whitelisted (Proxy route only), or a session in order under THAT upstream's policy and provider *)
  negb (mem_str (rq_path q) fixed_paths) && ((wl && negb fav) || sess_ok) &&
  (* C03: each identity header is that session's — or absent when the Connection header names it hop-by-hop —;
     client-supplied ones are gone; no session cookie *)
  match identity_expected wl now (p_groups (Hostmux.u_policy (up_hm u))) presented (an_auth a) ob with
  | None => nilb (Signer.hvals Signer.x_forwarded_user h) && nilb (Signer.hvals Signer.x_forwarded_email h) &&
            nilb (Signer.hvals Signer.x_forwarded_groups h) && nilb (Signer.hvals Signer.x_forwarded_access_token h)
  | Some s =>
      got Signer.x_forwarded_user [ReqHeaders.s_user s] &&
      got Signer.x_forwarded_email [ReqHeaders.s_email s] &&
      got Signer.x_forwarded_groups [join [44] (ReqHeaders.s_groups s)] &&
      got Signer.x_forwarded_access_token (injected u ReqHeaders.k_xfat)
  end &&
  forallb (fun nv => negb (str_eqb (fst nv) (dp_cookie_name d))) (ob_cookies b) &&
  (* C12, under its two guards: the signatures verify over what was received *)
  (negb (ap_sig ap) || negb (rsa_on d u) || (option_eqb bool_eqb (ob_rsa b) (Some true) && ob_kid b)) &&
  (negb (ap_sig ap) || negb (hmac_on u) || N.eqb (ob_hmac b) 3).

(* a session the proxy hands out is bound to this Host and to the routed upstream's provider *)
Definition minted_ok (d : deployment) (u : iupstream) (q : request) (ob : obs) : bool :=
  match ob_session ob with
  | ProxyCore.CSaved s => str_eqb (ProxyCore.s_upstream s) (rq_host q) && str_eqb (ProxyCore.s_slug s) (slug_of d u)
  | _ => true
  end.

(* C18's guard: a flush_interval upstream whose backend sends a 1xx response is outside INT_every_response_hardened *)
Definition hardening_applies (u : iupstream) (a : answers) : bool :=
  up_replace u || Nat.eqb (RespHeaders.u_n1xx (an_backend a)) 0.

Definition holds (ap : applic) (d : deployment) (q : request) (a : answers) (now : Z) (ob : obs) : bool :=
  if str_eqb (rq_path q) Hostmux.ping_path then
    nilb (ob_seen ob) && nilb (ob_set ob) && (negb (ob_responded ob) || N.eqb (ob_status ob) 200)
  else
    match exp_route (dp_ups d) (rq_host q) with
    | None => nilb (ob_seen ob) && nilb (ob_set ob) && (negb (ob_responded ob) || N.eqb (ob_status ob) 421)
    | Some u =>
        (Nat.leb (length (ob_seen ob)) 1) && forallb (backend_ok ap d u q a now ob) (ob_seen ob) &&
        (negb (ob_responded ob) || negb (hardening_applies u a) ||
         (Corr_C18.three_ok (rs_cfg d u) (ob_status ob) (ob_hdr ob) && Corr_C18.hsts_ok (rs_cfg d u) (ob_hdr ob) &&
          Corr_C18.cookies_ok (rs_cfg d u) (rs_request q) (ob_set ob))) &&
        (negb (redirected d q) || (nilb (ob_seen ob) && (negb (ob_responded ob) || N.eqb (ob_status ob) 301))) &&
        minted_ok d u q ob
    end.

End Monitor.

(* ------------------------------------------------------------------------------------------ *)
(* the judgement: no attribution to known findings — outside a guard only agreement is judged *)
Definition model_of (cs : case) : outcome :=
  serve (tab_match (cs_match cs)) (tab_replace (cs_replace cs)) (CorrProxy.lower_tab (cs_lower cs))
        (tab_opens (cs_opens cs)) (cs_d cs) (cs_q cs) (cs_a cs) (cs_now cs).

Definition judge (cs : case) : N :=
  let h := holds (tab_match (cs_match cs)) (tab_replace (cs_replace cs)) (CorrProxy.lower_tab (cs_lower cs))
                 (tab_opens (cs_opens cs)) (applic_of (cs_q cs) (model_of cs)) (cs_d cs) (cs_q cs) (cs_a cs) (cs_now cs) (cs_obs cs) in
  code (mismatch cs) h 0.

(* classes: 0 = /ping, 1 = unrouted; otherwise 2 + route (7) x backend reached (2) x session presented (3)
   x response class; used only for the evidence histogram *)
Definition classify (cs : case) : N :=
  let d := cs_d cs in let q := cs_q cs in let ob := cs_obs cs in
  if str_eqb (rq_path q) Hostmux.ping_path then 0
  else match exp_route (tab_match (cs_match cs)) (dp_ups d) (rq_host q) with
       | None => 1
       | Some u =>
           2 + (match route_of_path (rq_path q) with
                | RtFavicon => 0 | RtRobots => 1 | RtCerts => 2 | RtSignOut => 3 | RtCallback => 4 | RtAuth => 5 | RtProxy => 6 end)
             + 7 * (if nilb (ob_seen ob) then 0 else 1)
             + 14 * (match ob_presented ob with
                     | None => 0
                     | Some v => match tab_opens (cs_opens cs) v with Some _ => 2 | None => 1 end end)
             + 42 * (match ob_session ob with ProxyCore.CNone => 0 | ProxyCore.CCleared => 1 | ProxyCore.CSaved _ => 2 end)
             + 126 * (if redirected d q then 1 else 0)
             + 252 * (if rsa_on d u then 1 else 0)
             + 504 * (if up_replace u then 1 else 0)
             + 1008 * (if ob_status ob <? 300 then 0 else if ob_status ob <? 400 then 1 else if ob_status ob <? 500 then 2 else 3)
             + 4032 * (if ap_sig (applic_of q (model_of cs)) then 0 else 1)
             + 8064 * (if hardening_applies u (cs_a cs) then 0 else 1)
       end.

(* ------------------------------------------------------------------------------------------ *)
(* positional constructors for case literals (keeps the shards short) *)
Definition mk_sess (slug email user access rtok : str) (rdl ldl vdl : Z) (grace : option Z) (groups : list str) (ups : str)
  : ProxyCore.session :=
  {| ProxyCore.s_slug := slug; ProxyCore.s_email := email; ProxyCore.s_user := user; ProxyCore.s_access := access;
     ProxyCore.s_refresh_tok := rtok; ProxyCore.s_refresh_dl := rdl; ProxyCore.s_lifetime_dl := ldl; ProxyCore.s_valid_dl := vdl;
     ProxyCore.s_grace := grace; ProxyCore.s_groups := groups; ProxyCore.s_upstream := ups |}.
Definition St := ProxyCore.St.
Definition Transport := ProxyCore.Transport.
Definition mk_auth_ans (rf : ProxyCore.http_ans) (rb : option (str * Z)) (va pr : ProxyCore.http_ans) (pb : option (list str))
  : ProxyCore.answers :=
  {| ProxyCore.a_refresh := rf; ProxyCore.a_refresh_body := rb; ProxyCore.a_validate := va;
     ProxyCore.a_profile := pr; ProxyCore.a_profile_body := pb |}.
Definition mk_backend_ans (n1xx : nat) (status : N) (lines : list (str * str)) : RespHeaders.upstream :=
  {| RespHeaders.u_n1xx := n1xx; RespHeaders.u_status := status; RespHeaders.u_lines := lines;
     RespHeaders.u_announced := []; RespHeaders.u_trailers := [] |}.
Definition mk_ans (au : ProxyCore.answers) (rd : ProxyCore.http_ans) (rb : option (str * str * str * Z)) (b : RespHeaders.upstream)
  : answers := {| an_auth := au; an_redeem := rd; an_redeem_body := rb; an_backend := b |}.
Definition Simple := Hostmux.Simple.
Definition Rewrite := Hostmux.Rewrite.
Definition mk_hm (r : Hostmux.route) (addrs doms groups : list str) (slug : str) (skip : list str) (preserve : bool) : Hostmux.upstream :=
  {| Hostmux.u_route := r; Hostmux.u_policy := {| p_addresses := addrs; p_domains := doms; p_groups := groups |};
     Hostmux.u_slug := slug; Hostmux.u_skip := skip; Hostmux.u_preserve := preserve |}.
Definition mk_up (hm : Hostmux.upstream) (ov inj : list (str * str)) (replace : bool) (hmac : option str) (skip_sign : bool) : iupstream :=
  {| up_hm := hm; up_overrides := ov; up_inject := inj; up_replace := replace; up_hmac := hmac; up_skip_sign := skip_sign |}.
Definition mk_dep (ups : list iupstream) (slug : str) (L V G : Z) (secure : bool) (cn : str) (signer : option N) (base : str) : deployment :=
  {| dp_ups := ups; dp_slug := slug; dp_L := L; dp_V := V; dp_G := G; dp_secure := secure; dp_httponly := true;
     dp_cookie_name := cn; dp_cookie_domain := []; dp_signer := signer; dp_auth_base := base |}.
Definition WEnc := Callback.WEnc.
Definition WJunk := Callback.WJunk.
Definition Seal := Callback.Seal.
Definition PFlow := Callback.PFlow.
Definition mk_flow (sid : N) (redirect : str) : Callback.flow := {| Callback.f_sid := sid; Callback.f_redirect := redirect |}.
Definition mk_req (host method path rawq : str) (client : list (str * str)) (body : str) (chunked : bool) (ip : str)
    (form_ok : bool) (err code : str) (state : Callback.wire) (csrf : option Callback.wire) : request :=
  {| rq_host := host; rq_method := method; rq_path := path; rq_rawquery := rawq; rq_client := client; rq_body := body;
     rq_chunked := chunked; rq_ip := ip; cb_form_ok := form_ok; cb_error := err; cb_code := code; cb_state := state; cb_csrf := csrf |}.
Definition VStr := RespHeaders.VStr.
Definition mk_ck (name : str) (empty : bool) (path : str) (dom : option str) (httponly secure expires : bool) : RespHeaders.hval :=
  RespHeaders.VCookie {| RespHeaders.ck_name := name; RespHeaders.ck_empty := empty; RespHeaders.ck_path := path;
                         RespHeaders.ck_domain := dom; RespHeaders.ck_httponly := httponly; RespHeaders.ck_secure := secure;
                         RespHeaders.ck_expires := expires |}.
Definition CNone := ProxyCore.CNone.
Definition CCleared := ProxyCore.CCleared.
Definition CSaved := ProxyCore.CSaved.
Definition mk_bobs (target host method path rawq body : str) (h : Signer.headers) (cks : list (str * str))
    (rsa : option bool) (kid : bool) (hmac : N) : obs_backend :=
  {| ob_target := target; ob_host := host; ob_method := method; ob_path := path; ob_rawquery := rawq; ob_body := body;
     ob_headers := h; ob_cookies := cks; ob_rsa := rsa; ob_kid := kid; ob_hmac := hmac |}.
Definition mk_obs (seen : list obs_backend) (presented : option str) (responded : bool) (status : N)
    (h : RespHeaders.hdr str) (set : list RespHeaders.hval) (sess : ProxyCore.cookie_effect) (calls : list call) : obs :=
  {| ob_seen := seen; ob_presented := presented; ob_responded := responded; ob_status := status; ob_hdr := h; ob_set := set;
     ob_session := sess; ob_calls := calls |}.
Definition mk_case (d : deployment) (q : request) (a : answers) (now : Z) (m : list (str * str * bool))
    (rp : list (str * str * str * str)) (lo : list (str * str)) (op : list (str * ProxyCore.session)) (o : obs) : case :=
  {| cs_d := d; cs_q := q; cs_a := a; cs_now := now; cs_match := m; cs_replace := rp; cs_lower := lo; cs_opens := op; cs_obs := o |}.

(* ------------------------------------------------------------------------------------------ *)
(* diagnostics (used when a replay is inspected by hand; not part of the judgement) *)
Definition diag (cs : case) : list (N * bool) :=
  let d := cs_d cs in let q := cs_q cs in let a := cs_a cs in let ob := cs_obs cs in
  let o := model_of cs in
  [ (1, match oc_backend o, oc_upstream o, ob_seen ob with
        | None, _, [] => false
        | Some bv, Some u, [b] => backend_mismatch d u (rq_host q) bv b
        | _, _, _ => true end);
    (2, match oc_client o with RespHeaders.NoResponse => ob_responded ob | RespHeaders.Resp st h => negb (ob_responded ob) end);
    (3, match oc_client o with RespHeaders.Resp st h => status_comparable o a && negb (N.eqb st (ob_status ob)) | _ => false end);
    (4, match oc_client o with
        | RespHeaders.Resp st h =>
            negb (forallb (fun k => list_eqb Corr_C18.hval_eqb (RespHeaders.hget k h)
                                             (map RespHeaders.VStr (RespHeaders.hget k (ob_hdr ob)))) watched_resp)
        | _ => false end);
    (5, match oc_client o with
        | RespHeaders.Resp st h =>
            negb (loc_ok (oc_loc o) (RespHeaders.hget RespHeaders.k_location h) (RespHeaders.hget RespHeaders.k_location (ob_hdr ob)))
        | _ => false end);
    (6, match oc_client o with
        | RespHeaders.Resp st h => negb (list_eqb Corr_C18.hval_eqb (RespHeaders.hget RespHeaders.k_set_cookie h) (ob_set ob))
        | _ => false end);
    (7, negb (CorrProxy.effect_close (visible_session (dp_cookie_name d) (oc_client o) (oc_session o)) (ob_session ob)));
    (8, negb (list_eqb call_eqb (oc_calls o) (ob_calls ob))) ].
