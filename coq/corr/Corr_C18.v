(* Corr_C18.v — comparison and monitor for C18 (every response is hardened).

   A case is one real response of the real proxy (or authenticator) together with the scenario
   that produced it. [judge] compares the model's prediction (instantiated with the GENERATED
   tables) with the observation on the projected observables — the value lists of the four
   protected headers and of Location, the Set-Cookie list (cookies with the proxy's names as
   attribute tuples), the status — and evaluates the property on the observation alone. *)
From V Require Export Base CorrBase RespHeaders Gen_Headers.
Require Coq.Strings.String.
Import Coq.Strings.String.StringSyntax.

Definition hsts_key : str := canon (fst proxy_hsts).

Inductive case :=
| CProxy (cfg : config) (q : request) (o : outcome)   (* the scenario *)
         (responded : bool) (status : N)
         (called : bool)                              (* the upstream received a request *)
         (obs : hdr str)                              (* response header map as the client sees it (without Set-Cookie) *)
         (obs_cookies : list hval)                    (* Set-Cookie values in order: tuples for the proxy's cookie names, raw text otherwise *)
         (obs_trailer : hdr str)                      (* the chunked trailer section as the client sees it (resp.Trailer) — NOT header fields *)
| CAuth (endpoint : N) (status : N) (obs : hdr str)          (* AuthenticatorMux served directly (the anchored handlers) *)
| CAuthProc (fired : bool) (status : N) (obs : hdr str).    (* the REAL sso-auth binary (cmd/sso-auth built from the tree under test,
                                                               configured through its environment) over real HTTP;
                                                               fired = the scenario makes the request outlast server.timeout.request *)

(* ---- equality on observables ---- *)
Definition cookie_eqb (a b : cookie) : bool :=
  str_eqb (ck_name a) (ck_name b) && bool_eqb (ck_empty a) (ck_empty b) && str_eqb (ck_path a) (ck_path b) &&
  option_eqb str_eqb (ck_domain a) (ck_domain b) && bool_eqb (ck_httponly a) (ck_httponly b) &&
  bool_eqb (ck_secure a) (ck_secure b) && bool_eqb (ck_expires a) (ck_expires b).
Definition hval_eqb (a b : hval) : bool :=
  match a, b with
  | VStr x, VStr y => str_eqb x y
  | VCookie x, VCookie y => cookie_eqb x y
  | _, _ => false
  end.

(* ---- the property, as a boolean specification on the observation ---- *)

Definition three_keys : list str := [k_xcto; k_xfo; k_xxp].

(* each of the three headers has exactly one value: the configured override if there is one, else
   the proxy's, which must be PROTECTIVE (a 401 may carry the proxy's X-Content-Type-Options even when overridden: Go's
   http.Error sets it) *)
Definition one_protected (cfg : config) (status : N) (obs : hdr str) (k : str) : bool :=
  match hget k obs with
  | [x] =>
      match tbl_lookup k (c_overrides cfg) with
      | None => option_eqb str_eqb (tbl_lookup k proxy_security_headers) (Some x) && protective k x
      | Some ov => str_eqb x ov ||
                   (str_eqb k k_xcto && N.eqb status 401 &&
                    option_eqb str_eqb (tbl_lookup k proxy_security_headers) (Some x))
      end
  | _ => false
  end.
Definition three_ok (cfg : config) (status : N) (obs : hdr str) : bool :=
  forallb (one_protected cfg status obs) three_keys.

(* with secure cookies: exactly the proxy's own HSTS value *)
Definition hsts_ok (cfg : config) (obs : hdr str) : bool :=
  negb (c_secure cfg) ||
  match hget hsts_key obs with
  | [x] => str_eqb x (snd proxy_hsts) && protective hsts_key x      (* not weakened: max-age of at least six months *)
  | _ => false
  end.

Fixpoint strip_prefix (p s : str) : option str :=
  match p, s with
  | [], _ => Some s
  | c :: p', d :: s' => if N.eqb c d then strip_prefix p' s' else None
  | _ :: _, [] => None
  end.
Fixpoint span_until (stop : list N) (s : str) : str * str :=
  match s with
  | [] => ([], [])
  | c :: s' => if mem_byte c stop then ([], s) else let (a, b) := span_until stop s' in (c :: a, b)
  end.

(* https on the same host (the authority decodes to exactly the request host and contains no
   userinfo or backslash trick), same decoded path, same query *)
Definition location_ok (q : request) (loc : str) : bool :=
  match strip_prefix (bs "https://") loc with
  | None => false
  | Some r =>
      let (auth, r1) := span_until [47; 63; 35] r in
      let (pth, r2) := span_until [63; 35] r1 in
      option_eqb str_eqb (unescape auth) (Some (q_host q)) &&
      negb (existsb (fun c => mem_byte c [64; 92]) auth) &&
      (match unescape pth with
       | Some p => str_eqb p (q_path q) || str_eqb p (47 :: q_path q)
       | None => false
       end) &&
      (match r2 with
       | [] => is_nil (q_rawquery q)
       | c :: qs => N.eqb c 63 && negb (is_nil (q_rawquery q)) && str_eqb qs (hex_escape_non_ascii (q_rawquery q))
       end)
  end.

Definition bytes_ok (s : str) : bool := forallb (fun c => c <? 256) s.

Definition redirect_ok (cfg : config) (q : request) (status : N) (called : bool) (obs : hdr str) : bool :=
  negb (c_secure cfg && needs_redirect q) ||
  (negb called &&
   (negb (bytes_ok (q_host q) && bytes_ok (q_path q) && negb (is_nil (q_host q))) ||
    (N.eqb status 301 && match hget k_location obs with [l] => location_ok q l | _ => false end))).

Definition strip_dot (d : str) : str := match d with c :: t => if N.eqb c 46 then t else d | [] => [] end.
Definition tail_ok (t : str) : bool :=
  match t with
  | [] => true
  | c :: t' => N.eqb c 58 || (N.eqb c 93 && match t' with c' :: _ => N.eqb c' 58 | [] => false end)
  end.
(* d is the request host without its port (and without brackets / a leading dot) *)
Definition host_names (host d : str) : bool :=
  existsb (fun pre => has_prefix host (pre ++ d) && tail_ok (skipn (length pre + length d) host))
          [[]; [46]; [91]; [91; 46]].
Definition domain_ok (cfg : config) (host : str) (d : option str) : bool :=
  match c_cookie_domain cfg with
  | [] => match d with
          | None => (* never absent, unless Go's Cookie.String had to drop an invalid domain (IPv6 literal, underscore, ...) *)
                    negb (valid_cookie_domain (match split_host_port host with Some h => h | None => host end))
          | Some d => host_names host d
          end
  | cd => match d with None => negb (valid_cookie_domain cd) | Some d => str_eqb d (strip_dot cd) end
  end.
Definition cookie_ok (cfg : config) (host : str) (c : cookie) : bool :=
  str_eqb (ck_path c) [47] && bool_eqb (ck_secure c) (c_secure cfg) && bool_eqb (ck_httponly c) (c_httponly cfg) &&
  domain_ok cfg host (ck_domain c) && ck_expires c &&
  (str_eqb (ck_name c) (c_cookie_name cfg) || str_eqb (ck_name c) (c_cookie_name cfg ++ csrf_suffix)).
Definition cookies_ok (cfg : config) (q : request) (cookies : list hval) : bool :=
  forallb (fun v => match v with VStr _ => true | VCookie c => cookie_ok cfg (q_host q) c end) cookies.

Definition holds_proxy (cfg : config) (q : request) (responded : bool) (status : N) (called : bool)
    (obs : hdr str) (cookies : list hval) : bool :=
  negb responded ||
  (three_ok cfg status obs && hsts_ok cfg obs && redirect_ok cfg q status called obs && cookies_ok cfg q cookies).

(* ---- model prediction ---- *)
Definition model (cfg : config) (q : request) (o : outcome) : result :=
  proxy_handle proxy_security_headers proxy_hsts modify_response_deleted modify_response_trailer_deleted cfg q o.

Definition watched : list str := [k_xcto; k_xfo; k_xxp; hsts_key; k_location].

Definition status_comparable (cfg : config) (q : request) (o : outcome) : bool :=
  (c_secure cfg && needs_redirect q) ||
  match o with
  | OLocal _ _ _ _ => true
  | OForward _ _ u => match u_n1xx u with O => true | S _ => false end
  end.

Definition protected_keys : list str := [k_xcto; k_xfo; k_xxp; hsts_key].
Definition model_trailers (cfg : config) (q : request) (o : outcome) (k : str) : list hval :=
  proxy_trailers proxy_security_headers proxy_hsts modify_response_deleted modify_response_trailer_deleted cfg q o k.

Definition mismatch_proxy (cfg : config) (q : request) (o : outcome) (responded : bool) (status : N)
    (called : bool) (obs : hdr str) (cookies : list hval) (obs_trailer : hdr str) : bool :=
  match model cfg q o with
  | NoResponse => responded
  | Resp s h =>
      negb responded ||
      (c_secure cfg && needs_redirect q && called) ||     (* the redirect is produced before the router runs *)
      negb (forallb (fun k => list_eqb hval_eqb (hget k h) (map VStr (hget k obs))) watched) ||
      negb (list_eqb hval_eqb (hget k_set_cookie h) cookies) ||
      (* trailer fields named like protected headers: the model says exactly which reach the client *)
      negb (forallb (fun k => list_eqb hval_eqb (model_trailers cfg q o k) (map VStr (hget k obs_trailer))) protected_keys) ||
      (status_comparable cfg q o && negb (N.eqb s status))
  end.

(* ---- attribution to known findings (only used when the model predicts the observation) ----
   1: upstream Strict-Transport-Security (header, or announced trailer) REPLACES the proxy's under http.TimeoutHandler
   2: upstream Strict-Transport-Security is APPENDED to the proxy's without TimeoutHandler
   3: a 1xx response from the upstream wipes every header the proxy had set (no TimeoutHandler)
   4: an announced trailer named like a protected header replaces it under http.TimeoutHandler *)
Definition known_proxy (cfg : config) (q : request) (o : outcome) (status : N) (obs : hdr str) : N :=
  match o with
  | OLocal _ _ _ _ => 0
  | OForward _ _ u =>
      if c_secure cfg && needs_redirect q then 0
      else if negb (c_replace cfg) && negb (Nat.eqb (u_n1xx u) 0) then 3   (* only what the upstream sent is left *)
      else if negb (three_ok cfg status obs) then
        if c_replace cfg &&
           forallb (fun k => one_protected cfg status obs k || line_hits k (u_trailers u)) three_keys then 4 else 0
      else if negb (hsts_ok cfg obs) then
        if (line_hits hsts_key (u_lines u) || (c_replace cfg && line_hits hsts_key (u_trailers u))) &&
           negb (list_eqb str_eqb (hget hsts_key obs) [snd proxy_hsts])   (* not: the proxy's own value is weak *)
        then (if c_replace cfg then 1 else 2) else 0
      else 0
  end.

(* ---- sso-auth ---- *)
Definition auth_names : list str :=
  [bs "Content-Security-Policy"; bs "Referrer-Policy"; k_hsts; k_xcto; k_xfo; k_xxp].
Definition holds_auth (obs : hdr str) : bool :=
  forallb (fun kv => list_eqb str_eqb (hget (canon (fst kv)) obs) [snd kv]) auth_security_headers &&
  forallb (fun k => match hget k obs with [x] => protective k x | _ => false end) auth_names.
Definition mismatch_auth (obs : hdr str) : bool :=
  negb (forallb (fun kv => list_eqb hval_eqb (hget (canon (fst kv)) (auth_handle auth_security_headers []))
                                             (map VStr (hget (canon (fst kv)) obs))) auth_security_headers).

Definition mismatch_auth_proc (fired : bool) (status : N) (obs : hdr str) : bool :=
  negb (forallb (fun kv => list_eqb hval_eqb (hget (canon (fst kv)) (auth_process auth_security_headers fired []))
                                             (map VStr (hget (canon (fst kv)) obs))) auth_security_headers) ||
  (fired && negb (N.eqb status 503)).

Definition judge (c : case) : N :=
  match c with
  | CProxy cfg q o responded status called obs cookies obs_trailer =>
      (* the property is judged on response HEADER fields; trailer fields are compared with the
         model (mismatch) but are not header fields and are not judged *)
      code (mismatch_proxy cfg q o responded status called obs cookies obs_trailer)
           (holds_proxy cfg q responded status called obs cookies)
           (known_proxy cfg q o status obs)
  | CAuth _ _ obs => code (mismatch_auth obs) (holds_auth obs) 0
  | CAuthProc fired status obs =>
      code (mismatch_auth_proc fired status obs) (holds_auth obs) 0
  end.

Definition lclass_num (c : lclass) : N :=
  match c with
  | LSignIn => 1
  | LErrorPage code => if N.eqb code 400 then 2 else if N.eqb code 401 then 3 else if N.eqb code 403 then 4
                       else if N.eqb code 500 then 5 else 6
  | LXhr _ => 7 | LCallbackOk => 8 | LSignOut => 9 | LCerts => 10 | LRobots => 11 | LFavicon404 => 12
  | LAuthOnly202 => 13 | LAuthOnly401 => 14 | LMuxRedirect => 15 | LBadGateway => 16 | LTimeout => 17
  end.

Definition classify (c : case) : N :=
  match c with
  | CProxy cfg q o _ _ _ _ _ obs_trailer =>
      (if is_nil (c_overrides cfg) then 0 else 100) +
      (if c_secure cfg && needs_redirect q then 90 + (if is_nil (q_rawquery q) then 0 else 1)
       else match o with
            | OLocal c _ _ _ => lclass_num c
            | OForward _ _ u =>
                20 + (if c_replace cfg then 1 else 0) + (match u_n1xx u with O => 0 | S _ => 2 end) +
                (if is_nil (u_trailers u) then 0 else 4) + (if line_hits hsts_key (u_lines u) then 8 else 0) +
                (* a trailer named like a protected header reached the client (as a trailer) *)
                (if existsb (fun k => negb (is_nil (hget k obs_trailer))) protected_keys then 16 else 0)
            end)
  | CAuth ep _ _ => 200 + ep
  | CAuthProc fired _ _ => 300 + (if fired then 1 else 0)
  end.
