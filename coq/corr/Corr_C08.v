(* Corr_C08.v — comparison and monitor for C08 (authenticator back-channel). No proofs here.

   A [CReq] case is one request sent through the real mux of auth.NewAuthenticator (bare, or behind
   the production chain logging handler -> timeout handler) together with
     - the oracle table [tab]: for every string placed as a `code`, under which of the real ciphers
       (1 = this authenticator's auth-code key, 2 = its cookie key, 3 = another authenticator's
       code key) it opens, and to which session (computed with the real ciphers);
     - the scripted provider answers;
     - the GENERATOR'S INTENT, which is independent of the model's parsers: every value it put
       anywhere as a client id ([ids]) / client secret ([secrets]), the kind of code it built
       ([kind]) and the session it sealed into it ([csess]);
     - the observation: status, provider calls, JSON fields of the body, [o_leak]: some secret
       marker of THIS request (a token / e-mail of the sealed session, the provider's new token, a
       group name) occurs anywhere in the response body or headers, and [o_foreign]: a secret
       marker of ANOTHER request of the same concurrent batch occurs in it;
     - [mode]: 0 = the request ran alone; 1 = observed while 4-16 requests were in flight at once
       through the same handler chain (held between "response computed" and "response written");
       2 = the same under GOMAXPROCS(1). The model and the monitor are the same per-request
       functions in every mode: each response is judged against its own request.
     - [now]: the time of the request in whole seconds after the instant the deadlines of the
       sealed sessions are counted from (0 for requests sent at once; > 0 for the second step of a
       timed sequence, where the SAME code is presented again after a deadline has passed). The
       driver measures the wall clock around the request and emits the case only when no deadline
       lies inside the measured interval.
   A [CVal] case is a client table given to the real Configuration.Validate and NewAuthenticator. *)
From V Require Export Base CorrBase AuthBack.

Definition opt_str_eqb := option_eqb str_eqb.

Definition pcall_eqb (a b : pcall) : bool :=
  match a, b with
  | PRefresh x, PRefresh y => str_eqb x y
  | PGroups e1 a1 t1, PGroups e2 a2 t2 => str_eqb e1 e2 && strs_eqb a1 a2 && str_eqb t1 t2
  | PValidate x, PValidate y => str_eqb x y
  | _, _ => false
  end.

(* expires_in of /redeem is computed from the wall clock: the observation may differ by [tol] s *)
Definition expires_close (tol : Z) (m o : option Z) : bool :=
  match m, o with
  | None, None => true
  | Some a, Some b => ((b <=? a + tol) && (a - tol <=? b))%Z
  | _, _ => false
  end.

Definition body_close (tol : Z) (m o : body) : bool :=
  opt_str_eqb (b_access m) (b_access o) && opt_str_eqb (b_refresh m) (b_refresh o) &&
  opt_str_eqb (b_email m) (b_email o) && expires_close tol (b_expires m) (b_expires o) &&
  option_eqb strs_eqb (b_groups m) (b_groups o).

Definition session_eqb (a b : session) : bool :=
  str_eqb (s_email a) (s_email b) && str_eqb (s_access a) (s_access b) &&
  str_eqb (s_refresh_tok a) (s_refresh_tok b) &&
  (s_refresh_dl a =? s_refresh_dl b)%Z && (s_lifetime_dl a =? s_lifetime_dl b)%Z.

Fixpoint assoc_tab (c : str) (t : list (str * (N * session))) : option (N * session) :=
  match t with
  | [] => None
  | (a, v) :: t' => if str_eqb c a then Some v else assoc_tab c t'
  end.

Inductive case :=
| CReq (mode : N) (now : Z) (cfg : config) (o_valid : bool) (pre : bool) (r : request)
       (tab : list (str * (N * session))) (ref : refresh_answer) (grp : groups_answer) (valid : bool)
       (ids secrets : list str) (kind : N) (csess : option session)
       (o_status : N) (o_calls : list pcall) (o_body : body) (o_leak : bool) (o_foreign : bool)
| CVal (clients : list (str * (str * str))) (o_ok : bool) (o_id o_secret : str)
(* the client table produced by the real LoadConfig under some CLIENT_* environment *)
| CLoad (clients : list (str * (str * str))) (o_ok : bool) (o_id o_secret : str).

(* code kinds (generator's intent):
   0 no code / empty, 1 genuine and fresh, 2 genuine and fresh in a non-canonical base64 spelling
   (property C02's business whether that still opens), 3 refresh-expired, 4 lifetime-expired,
   5 corrupted / truncated / extended / forged, 6 sealed under the cookie key,
   7 sealed by another authenticator *)
Definition kind_genuine (k : N) : bool := N.eqb k 1 || N.eqb k 2.

Definition mk_env (now : Z) (tab : list (str * (N * session))) (ref : refresh_answer) (grp : groups_answer)
  (valid : bool) : env :=
  {| e_now := now; e_open := fun c => assoc_tab c tab; e_refresh := ref; e_groups := grp; e_valid := valid |}.

(* ClientConfig.Validate *)
Definition cfg_valid (cfg : config) : bool := negb (is_nil (cfg_id cfg)) && negb (is_nil (cfg_secret cfg)).

(* ---- the property, as a boolean specification on observations ---- *)
Definition is_2xx (s : N) : bool := (200 <=? s) && (s <? 300).
Definition is_some {A} (o : option A) : bool := match o with Some _ => true | None => false end.
Definition has_field (b : body) : bool :=
  is_some (b_access b) || is_some (b_refresh b) || is_some (b_email b) || is_some (b_expires b) ||
  is_some (b_groups b).
Definition mem_N (x : N) (l : list N) : bool := existsb (N.eqb x) l.

(* the caller showed the configured credentials (anywhere, in any of the values it sent) *)
Definition entitled (cfg : config) (ids secrets : list str) : bool :=
  mem_str (cfg_id cfg) ids && mem_str (cfg_secret cfg) secrets.

Definition effects (status : N) (calls : list pcall) (b : body) (leak : bool) : bool :=
  negb (is_nil calls) || is_2xx status || has_field b || leak.

(* the 200 body of /redeem is exactly the sealed session *)
Definition body_is_session (now : Z) (s : session) (b : body) : bool :=
  opt_str_eqb (b_access b) (Some (s_access s)) && opt_str_eqb (b_refresh b) (Some (s_refresh_tok s)) &&
  opt_str_eqb (b_email b) (Some (s_email s)) && expires_close 10 (Some (s_refresh_dl s - now)%Z) (b_expires b) &&
  negb (is_some (b_groups b)).

Definition holds_req (now : Z) (cfg : config) (r : request) (ids secrets : list str) (kind : N) (csess : option session)
  (status : N) (calls : list pcall) (b : body) (leak : bool) (foreign : bool) : bool :=
  (* D: nothing of another request's secrets, ever (requests in flight at once do not mix) *)
  negb foreign &&
  (* A: without the configured id and secret: an error, nothing revealed, no provider call *)
  (entitled cfg ids secrets || (negb (effects status calls b leak) && mem_N status [401; 404; 405; 500])) &&
  (* B: /redeem gives tokens only for a genuine fresh code, then exactly that session's; any
        other code: an error that reveals nothing; and it never calls the provider *)
  (negb (str_eqb (rq_path r) p_redeem) ||
   (is_nil calls &&
    if is_2xx status
    then kind_genuine kind && match csess with Some s => body_is_session now s b | None => false end
    else negb (has_field b) && negb leak)) &&
  (* C: an error response reveals nothing, whoever asks *)
  (is_2xx status || (negb (has_field b) && negb leak)).

(* generator consistency (a failure here is a harness problem and is reported as a mismatch):
   every value the model's parsers find is one the generator says it sent, and the code the
   model reads opens to a fresh session under the code key only if the generator says so *)
Definition sane (cfg : config) (r : request) (e : env) (ids secrets : list str) (kind : N)
  (csess : option session) : bool :=
  forallb (fun v => mem_str v ids) (id_values r) &&
  forallb (fun v => mem_str v secrets) (secret_values r) &&
  (negb (str_eqb (rq_path r) p_redeem) ||
   match unseal e (cfg_code_key cfg) (presented_code r) with
   | Some s =>
       ((s_refresh_dl s <? e_now e) || (s_lifetime_dl s <? e_now e))%Z ||
       (kind_genuine kind && option_eqb session_eqb csess (Some s))
   | None => true
   end).

Fixpoint has_client (n : str) (cs : list (str * (str * str))) : bool :=
  match cs with [] => false | (a, _) :: cs' => str_eqb n a || has_client n cs' end.

Definition judge (c : case) : N :=
  match c with
  | CReq mode now cfg o_valid pre r tab ref grp valid ids secrets kind csess o_status o_calls o_body o_leak o_foreign =>
      let e := mk_env now tab ref grp valid in
      let m := serve cfg e pre r in
      let tol := if str_eqb (rq_path r) p_redeem then 10%Z else 0%Z in
      let mismatch :=
        negb (N.eqb (rs_status m) o_status && list_eqb pcall_eqb (rs_calls m) o_calls &&
              body_close tol (rs_body m) o_body && bool_eqb (cfg_valid cfg) o_valid &&
              sane cfg r e ids secrets kind csess) in
      (* guard of the property: the configuration passed Validate (observed on the real code) *)
      code mismatch (negb o_valid || holds_req now cfg r ids secrets kind csess o_status o_calls o_body o_leak o_foreign) 0
  | CVal clients o_ok o_id o_secret =>
      let '(mid, msec) := new_authenticator_creds clients in
      let mismatch := negb (bool_eqb (clients_validate clients) o_ok && str_eqb mid o_id && str_eqb msec o_secret) in
      (* a validated configuration with a "proxy" client has non-empty credentials *)
      code mismatch (negb o_ok || negb (has_client proxy_name clients) ||
                     (negb (is_nil o_id) && negb (is_nil o_secret))) 0
  | CLoad clients o_ok o_id o_secret =>
      let '(mid, msec) := new_authenticator_creds clients in
      let mismatch := negb (bool_eqb (clients_validate clients) o_ok && str_eqb mid o_id && str_eqb msec o_secret) in
      (* LoadConfig always yields the "proxy" entry (so that Validate looks at it), and a validated
         table gives non-empty credentials *)
      code mismatch (has_client proxy_name clients &&
                     (negb o_ok || (negb (is_nil o_id) && negb (is_nil o_secret)))) 0
  end.

(* classes for the evidence histogram:
   0 unknown path; otherwise endpoint*100 + outcome, +10 when the caller was served although some
   value it sent for a credential differs from the configured one (duplicates / conflicts: listed
   for inspection), +20 behind the logging handler, +1000 / +2000 for observations made with other
   requests in flight (mode 1 / 2). 900+ = configuration cases *)
Definition endpoint_no (p : str) : N :=
  if str_eqb p p_profile then 1 else if str_eqb p p_validate then 2
  else if str_eqb p p_redeem then 3 else if str_eqb p p_refresh then 4 else 0.

Definition classify (c : case) : N :=
  match c with
  | CReq mode now cfg o_valid pre r tab ref grp valid ids secrets kind csess o_status o_calls o_body o_leak o_foreign =>
      let ep := endpoint_no (rq_path r) in
      if N.eqb ep 0 then 0
      else
        let m := serve cfg (mk_env now tab ref grp valid) pre r in
        let outcome :=
          match rs_ran m with
          | None => if N.eqb o_status 405 then 1 else if N.eqb o_status 500 then 2 else 3
          | Some _ => if is_2xx o_status then 6 else if N.eqb o_status 400 then 4
                      else if N.eqb o_status 401 then 5 else 7
          end in
        let conflict :=
          is_some (rs_ran m) &&
          (existsb (fun v => negb (str_eqb v (cfg_id cfg))) ids ||
           existsb (fun v => negb (str_eqb v (cfg_secret cfg))) secrets) in
        ep * 100 + outcome + (if conflict then 10 else 0) + (if pre then 20 else 0) + 1000 * mode
  | CVal clients o_ok _ _ => 900 + (if o_ok then 1 else 0) + (if has_client proxy_name clients then 2 else 0)
  | CLoad clients o_ok _ _ => 910 + (if o_ok then 1 else 0) + (if has_client proxy_name clients then 2 else 0)
  end.
