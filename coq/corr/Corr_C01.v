(* Corr_C01.v — complete mediation: every observed step of the real proxy is compared with the
   model and judged by the mediation clause. *)
From V Require Export CorrProxy.
Open Scope Z_scope.

Definition judge (h : case) : N :=
  let lower := lower_tab (h_tab h) in
  let mism := existsb (case_step_mismatch h lower (h_cfg h) (h_pol h)) (h_steps h) in
  let holds := forallb (mediation_holds lower (h_cfg h) (h_pol h)) (h_steps h) in
  code mism holds 0.

Definition step_class (o : ostep) : N :=
  (match r_cookie (o_req o) with NoCookie => 0 | Junk => 1 | Sealed _ => 2 end) +
  3 * (match r_endpoint (o_req o) with EProxy => 0 | EAuthOnly => 1 | EFavicon => 2 end) +
  9 * (if o_served o then 1 else 0) +
  18 * (match o_calls o with [] => 0 | [_] => 1 | _ => 2 end) +
  54 * (match o_cookie o with CNone => 0 | CCleared => 1 | CSaved _ => 2 end) +
  162 * (if r_skip_hit (o_req o) then 1 else 0).
Definition classify (h : case) : N :=
  match h_steps h with o :: _ => step_class o | [] => 0 end.
