(* CorrBase.v — wrappers shared by every correspondence shard.
   judge codes: 0 = model agrees with the implementation and the property monitor holds;
                1 = model and implementation differ on a projected observable (monitor holds);
                2 = the implementation's own observation falsifies the property (unattributed);
                3 = both;
                100+k = falsifies the property, model predicts exactly this observation, and the
                        failing clause/branch is the signature of known finding k. *)
From V Require Import Base.

Fixpoint run_judge_from {C} (i : nat) (judge : C -> N) (cs : list C) : list (nat * N) :=
  match cs with
  | [] => []
  | c :: cs' =>
      let r := judge c in
      if N.eqb r 0 then run_judge_from (S i) judge cs' else (i, r) :: run_judge_from (S i) judge cs'
  end.
Definition run_judge {C} (base : nat) (judge : C -> N) (cs : list C) := run_judge_from base judge cs.

Fixpoint hist_add (k : N) (h : list (N * N)) : list (N * N) :=
  match h with
  | [] => [(k, 1)]
  | (k', n) :: h' => if N.eqb k k' then (k', n + 1) :: h' else (k', n) :: hist_add k h'
  end.
Definition histogram (l : list N) : list (N * N) := fold_left (fun h k => hist_add k h) l [].

(* combine a mismatch flag, a monitor verdict and a known-finding attribution into a code *)
Definition code (mismatch : bool) (holds : bool) (known : N) : N :=
  if holds then (if mismatch then 1 else 0)
  else if mismatch then 3
  else if N.eqb known 0 then 2 else 100 + known.
