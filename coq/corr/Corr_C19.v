(* Corr_C19.v — comparison and monitor for C19 (sign-out really signs out).
   A case is a HISTORY observed on the real code: visits to the real proxy's /oauth2/sign_out, requests
   to the real authenticator's /<slug>/sign_out (GET / POST / other, built from the proxy's own
   Location or tampered / aged / forged), direct calls of the real validSignature, and later
   requests to the real proxy that present a saved copy of a proxy session.  No proofs here. *)
From V Require Export Base CorrBase SignOut ProxyCore.
From V Require Import Validators.
Open Scope N_scope.

(* HMAC-SHA256 as computed by Go for the (key, message) pairs of this case *)
Fixpoint mac_of (tab : list (str * str * str)) (k m : str) : str :=
  match tab with
  | [] => []
  | (k', m', v) :: t => if str_eqb k k' && str_eqb m m' then v else mac_of t k m
  end.

(* ---- observations ------------------------------------------------------------------------- *)
Record pobs := {
  po_base : str;              (* configured: provider URL ++ "/" ++ slug ++ "/sign_out" *)
  po_secret : str;            (* configured client secret of the proxy *)
  po_secure : bool; po_origin_form : bool; po_host : str;
  po_clock : Z;               (* the driver's clock (whole seconds) just before the request *)
  po_ts : Z;                  (* the ts parameter the proxy wrote, parsed by the driver (-1: unparsable) *)
  po_status : Z;
  po_cleared : bool;          (* the LAST Set-Cookie for the session cookie clears it *)
  po_live : bool;             (* some Set-Cookie for the session cookie carries a value *)
  po_calls : list endpoint;   (* back-channel calls of the proxy during the request *)
  po_obs_base : str;          (* Location without its query *)
  po_query : str;             (* Location's raw query string *)
  po_params : list (str * str) }.   (* the same, split and decoded by Go's url.QueryUnescape, in the order written *)

Record aobs := {
  ao_secret : str;            (* the authenticator's ProxyClientSecret *)
  ao_provider : provider;
  ao_clock : Z;
  ao_req : areq;
  ao_link : option Z;         (* Some d: "the three fields are those of the last proxy redirect,
                                 re-signed d seconds older" (d = 0: verbatim) — verified by the monitor *)
  ao_raw : option str;        (* Some q: a GET whose raw query string is q; the fields of [ao_req] are then
                                 what Go's url.ParseQuery returned for it *)
  ao_resp : aresp }.          (* the observation, in the model's response shape *)

Record robs := {
  ro_cfg : cfg; ro_host : str; ro_now : Z;     (* virtual clock *)
  ro_session : session;                        (* the saved copy, as sealed under the proxy's key *)
  ro_answers : answers;                        (* what the back channel answers now *)
  ro_served : bool; ro_status : Z; ro_signin : bool;
  ro_effect : N;                               (* 0 none, 1 cleared, 2 re-saved *)
  ro_calls : list endpoint }.

(* two or three confirmations (POST) that overlap: request i+1 is sent while the IdP still holds the
   revoke call of every earlier flight (the driver waits until each request is accounted for: finished,
   held at the fake IdP, or counted as a duplicate in the single-flight map), then the calls are
   released in arrival order *)
Record cobs := {
  co_secret : str; co_provider : provider; co_clock : Z;
  co_reqs : list areq;            (* arrival order; q_idp = the answer scripted for THIS session's token *)
  co_bodies : list (abody * bool);(* per request: observed body, cookie cleared *)
  co_calls : list str }.          (* tokens that reached the IdP's revoke endpoint, in arrival order *)

Inductive step :=
| SProxy (o : pobs)
| SAuth (o : aobs)
| SConc (o : cobs)
| SSig (secret uri sig ts : str) (parses : bool) (now : Z) (obs : bool)   (* real validSignature through a shim *)
| SReuse (o : robs).

Inductive case := CH (tab : list (str * str * str)) (steps : list step).

(* ---- equalities on projected observables --------------------------------------------------- *)
Definition pair_eqb (a b : str * str) : bool := str_eqb (fst a) (fst b) && str_eqb (snd a) (snd b).
Definition params_eqb (a b : list (str * str)) : bool := list_eqb pair_eqb a b.

Definition body_eqb (a b : abody) : bool :=
  match a, b with
  | BGate x, BGate y => (x =? y)%Z
  | BRedirect x, BRedirect y => str_eqb x y
  | BPage s1 e1 r1 g1 t1, BPage s2 e2 r2 g2 t2 =>
      (s1 =? s2)%Z && str_eqb e1 e2 && str_eqb r1 r2 && str_eqb g1 g2 && str_eqb t1 t2
  | _, _ => false
  end.
Definition resp_eqb (a b : aresp) : bool :=
  body_eqb (r_body a) (r_body b) && bool_eqb (r_clears a) (r_clears b) && strs_eqb (r_revoked a) (r_revoked b).

Definition endpoint_eqb (a b : endpoint) : bool :=
  match a, b with EpRefresh, EpRefresh => true | EpValidate, EpValidate => true | EpProfile, EpProfile => true | _, _ => false end.

(* ---- the proxy's step ------------------------------------------------------------------------ *)
Definition proxy_mismatch (mac : str -> str -> str) (o : pobs) : bool :=
  let r := proxy_sign_out mac (po_base o) (po_secret o) (po_secure o) (po_origin_form o) (po_host o) (po_ts o) in
  negb ((p_status r =? po_status o)%Z && bool_eqb (p_clears r) (po_cleared o) &&
        bool_eqb (p_sets_live r) (po_live o) && bool_eqb (p_asks r) (negb (is_nil (po_calls o))) &&
        str_eqb (l_base (p_loc r)) (po_obs_base o) && params_eqb (l_params (p_loc r)) (po_params o) &&
        (* on the wire: Values.Encode byte for byte, and the model's ParseQuery reads what Go's does *)
        str_eqb (encode_query (l_params (p_loc r))) (po_query o) &&
        match parse_query (po_query o) with Some ps => params_eqb ps (po_params o) | None => false end).

Definition colon_slash_slash : str := [58; 47; 47].

(* "clears the proxy session cookie and sends the browser to the authenticator with a correctly
   signed return address on the same host" — written on the observation alone *)
Definition proxy_holds (mac : str -> str -> str) (o : pobs) : bool :=
  let uri := form_get k_redirect_uri (po_params o) in
  let ts := form_get k_ts (po_params o) in
  let sg := form_get k_sig (po_params o) in
  (po_status o =? 302)%Z && po_cleared o && negb (po_live o) && str_eqb (po_obs_base o) (po_base o) &&
  strs_eqb (map fst (po_params o)) [k_redirect_uri; k_sig; k_ts] &&
  (* scheme://Host/ for an ordinary request; the scheme-relative //Host/ is tolerated (same host) for
     an absolute-form request line only *)
  (let h := escape_host (po_host o) in      (* = Host itself unless it contains a byte URL.String escapes *)
   str_eqb uri ((if po_secure o then s_https else s_http) ++ colon_slash_slash ++ h ++ [47]) ||
   (negb (po_origin_form o) && str_eqb uri ([47; 47] ++ h ++ [47]))) &&
  (* the timestamp is the current time, in canonical decimal *)
  str_eqb ts (dec (po_ts o)) && (po_clock o <=? po_ts o)%Z && (po_ts o <=? po_clock o + 60)%Z &&
  (* the signature is base64url(HMAC(secret, uri ++ ts)) *)
  str_eqb sg (b64_encode (mac (po_secret o) (uri ++ ts))).

(* ---- the authenticator's step ------------------------------------------------------------------ *)
Definition auth_model (mac : str -> str -> str) (o : aobs) : aresp :=
  auth_sign_out mac (ao_secret o) (ao_provider o) (ao_clock o) (ao_req o).

Definition is_post (m : method) : bool := match m with MPost => true | _ => false end.
Definition is_get (m : method) : bool := match m with MGet => true | _ => false end.

Definition auth_mismatch (mac : str -> str -> str) (o : aobs) : bool :=
  match ao_raw o with
  | None => negb (resp_eqb (auth_model mac o) (ao_resp o))
  | Some raw =>
      (* the fields the handlers see are the pairs of the raw query that parse (production chain: the
         logging handler has parsed the form and dropped any error) *)
      let q := ao_req o in
      let ps := form_of_query raw in
      negb (is_get (q_method q) && str_eqb (form_get k_redirect_uri ps) (q_uri q) &&
            str_eqb (form_get k_sig ps) (q_sig q) && str_eqb (form_get k_ts ps) (q_ts q) &&
            resp_eqb (auth_model mac o) (ao_resp o))
  end.

Definition is_redirect_to (b : abody) (uri : str) : bool :=
  match b with BRedirect l => str_eqb l uri | _ => false end.
Definition is_error_page (b : abody) : bool := match b with BGate _ => true | _ => false end.

(* "a valid signed in-domain return address", and a method the route serves *)
Definition request_valid (mac : str -> str -> str) (o : aobs) : bool :=
  let q := ao_req o in
  q_in_domain q && valid_signature mac (ao_secret o) (q_uri q) (q_sig q) (q_ts q) (q_parses q) (ao_clock o) &&
  (is_post (q_method q) || is_get (q_method q)).

(* the property's clauses about the authenticator, on the observed response [r] *)
Definition auth_holds_on (mac : str -> str -> str) (o : aobs) (r : aresp) : bool :=
  let q := ao_req o in
  let valid := request_valid mac o in
  let ok := revoke_ok (ao_provider o) (q_idp q) in
  (* without a valid request nothing is revoked or cleared, and the browser is not sent anywhere *)
  (valid || (negb (r_clears r) && is_nil (r_revoked r) && is_error_page (r_body r))) &&
  (* looking at the page changes nothing *)
  (negb (is_get (q_method q)) || (negb (r_clears r) && is_nil (r_revoked r))) &&
  (* only the session's own token is ever sent to the IdP, and only on a confirmed (POST) sign-out *)
  (is_nil (r_revoked r) ||
   (valid && is_post (q_method q) &&
    match q_cookie q with ACSealed s => strs_eqb (r_revoked r) [revoke_token (ao_provider o) s] | _ => false end)) &&
  (* the cookie is cleared only with the redirect back, and only after Revoke succeeded (or there
     was no session to revoke: the cookie does not open) *)
  (negb (r_clears r) ||
   (valid && is_post (q_method q) && is_redirect_to (r_body r) (q_uri q) &&
    match q_cookie q with
    | ACJunk => is_nil (r_revoked r)
    | ACSealed s => ok && negb (is_nil (r_revoked r))
    | ACNone => false
    end)) &&
  (* a confirmed sign-out of a live session: revoke, then clear and return; if revocation fails the
     user is told (500 page) and stays signed in *)
  (negb (valid && is_post (q_method q)) ||
   match q_cookie q with
   | ACSealed s =>
       negb (is_nil (r_revoked r)) &&
       (if ok then r_clears r && is_redirect_to (r_body r) (q_uri q)
        else negb (r_clears r) && match r_body r with BPage st _ _ _ _ => (st =? 500)%Z | _ => false end)
   | _ => true
   end).

Definition auth_holds (mac : str -> str -> str) (o : aobs) : bool := auth_holds_on mac o (ao_resp o).

(* the fields are those of the proxy redirect [p], re-signed [d] seconds older with the proxy's secret *)
Definition linked (mac : str -> str -> str) (p : pobs) (d : Z) (q : areq) : bool :=
  let uri := form_get k_redirect_uri (po_params p) in
  str_eqb (q_uri q) uri && str_eqb (q_ts q) (dec (po_ts p - d)) &&
  (if (d =? 0)%Z then str_eqb (q_sig q) (form_get k_sig (po_params p))
   else str_eqb (q_sig q) (b64_encode (mac (po_secret p) (uri ++ dec (po_ts p - d))))).

(* "the URL the proxy emits is accepted by the authenticator": secrets agree, host in a root domain,
   at most 300 s (here: 240 s, one lattice step inside) since the proxy signed it *)
Definition acceptance_holds (mac : str -> str -> str) (last : option pobs) (o : aobs) : bool :=
  match ao_link o, last with
  | Some d, Some p =>
      let q := ao_req o in
      linked mac p d q &&
      (negb (str_eqb (ao_secret o) (po_secret p) && negb (is_nil (po_secret p)) && q_in_domain q && q_parses q &&
             (ao_clock o - (po_ts p - d) <=? 240)%Z && (is_post (q_method q) || is_get (q_method q)))
       || negb (is_error_page (r_body (ao_resp o))))
  | Some _, None => false
  | None, _ => true
  end.

Definition grant_of (s : asession) : str * str := (as_access s, as_refresh s).
Definition grant_eqb (a b : str * str) : bool := str_eqb (fst a) (fst b) && str_eqb (snd a) (snd b).
Definition mem_grant (g : str * str) (l : list (str * str)) : bool := existsb (grant_eqb g) l.

(* ---- reuse of a saved proxy session ------------------------------------------------------------ *)
Definition reuse_policy : upolicy :=
  {| u_rules := {| p_addresses := []; p_domains := [star]; p_groups := [] |}; u_preflight := false |}.

Definition reuse_request (o : robs) : request :=
  {| r_host := ro_host o; r_is_options := false; r_skip_hit := false; r_xhr := false;
     r_endpoint := EProxy; r_cookie := Sealed (ro_session o) |}.

Definition effect_code (e : cookie_effect) : N := match e with CNone => 0 | CCleared => 1 | CSaved _ => 2 end.

Definition reuse_mismatch (o : robs) : bool :=
  let rs := handle lower_ascii (ro_now o) (ro_cfg o) reuse_policy (reuse_request o) (ro_answers o) in
  let out_ok :=
    match rs_out rs with
    | Forward _ => ro_served o
    | SignIn => negb (ro_served o) && (ro_status o =? 302)%Z && ro_signin o
    | Status n => negb (ro_served o) && (ro_status o =? n)%Z
    end in
  negb (out_ok && (effect_code (rs_cookie rs) =? ro_effect o) && list_eqb endpoint_eqb (rs_calls rs) (ro_calls o)).

(* what the proxy hears about a revoked token: /refresh 401, /validate neither 200 nor 429/503 *)
Definition idp_revoked_b (a : answers) : bool :=
  match a_refresh a with St c => (c =? 401)%Z | Transport => false end &&
  match a_validate a with St c => negb (c =? 200)%Z && negb (unavailable c) | Transport => true end.

Definition token_revoked (revoked : list str) (s : session) : bool :=
  mem_str (s_access s) revoked || mem_str (s_refresh_tok s) revoked.
Definition check_due (o : robs) : bool :=
  (s_valid_dl (ro_session o) <? ro_now o)%Z || (s_refresh_dl (ro_session o) <? ro_now o)%Z.

(* "afterwards any saved copy of the old proxy session is refused at its next revalidation" *)
Definition reuse_holds (revoked : list str) (o : robs) : bool :=
  negb (token_revoked revoked (ro_session o) && idp_revoked_b (ro_answers o) && check_due o) ||
  (negb (ro_served o) && (ro_effect o =? 1)).
(* the same clause from the user's side: a user whom the authenticator told "signed out" (cookie cleared
   after a confirmed POST) — any saved copy of a proxy session of that grant is refused once a check is due *)
Definition reuse_signed_out_holds (signed_out : list (str * str)) (o : robs) : bool :=
  negb (mem_grant (s_access (ro_session o), s_refresh_tok (ro_session o)) signed_out && check_due o) ||
  (negb (ro_served o) && (ro_effect o =? 1)).
(* the driver's world must be consistent: a token revoked at the IdP is reported revoked *)
Definition reuse_world_ok (revoked : list str) (o : robs) : bool :=
  negb (token_revoked revoked (ro_session o)) || idp_revoked_b (ro_answers o).

(* ---- concurrent confirmations -------------------------------------------------------------- *)
Definition conc_model (mac : str -> str -> str) (o : cobs) : list aresp :=
  snd (crun mac (co_secret o) (co_provider o) (map (CReq (co_clock o)) (co_reqs o))).

Fixpoint all2 {A B} (f : A -> B -> bool) (a : list A) (b : list B) : bool :=
  match a, b with
  | [], [] => true
  | x :: a', y :: b' => f x y && all2 f a' b'
  | _, _ => false
  end.

Definition conc_mismatch (mac : str -> str -> str) (o : cobs) : bool :=
  let rs := conc_model mac o in
  negb (all2 (fun (r : aresp) (b : abody * bool) => body_eqb (r_body r) (fst b) && bool_eqb (r_clears r) (snd b))
                 rs (co_bodies o) &&
        strs_eqb (flat_map r_revoked rs) (co_calls o)).

Definition session_of (q : areq) : option asession := match q_cookie q with ACSealed s => Some s | _ => None end.

(* the observation of request [q] in the batch, with the IdP call log attributed by token: a call that
   carried this session's own token counts as the revocation of every POST that presented the session *)
Definition conc_aobs (o : cobs) (q : areq) (b : abody * bool) : aobs :=
  {| ao_secret := co_secret o; ao_provider := co_provider o; ao_clock := co_clock o; ao_req := q;
     ao_link := None; ao_raw := None;
     ao_resp := {| r_body := fst b; r_clears := snd b;
                   r_revoked := match session_of q with
                                | Some s => if is_post (q_method q) && mem_str (revoke_token (co_provider o) s) (co_calls o)
                                            then [revoke_token (co_provider o) s] else []
                                | None => []
                                end |} |}.

(* per request: do the property's clauses hold of the (attributed) observation.  Historical: until the
   repair 7e98525 a failure with the signature of finding C19-K1 (Okta, an earlier request of the batch
   with the same access token and another refresh token) was attributed to it; now every failure counts. *)
Definition conc_holds (mac : str -> str -> str) (o : cobs) : bool :=
  all2 (fun q b => auth_holds mac (conc_aobs o q b)) (co_reqs o) (co_bodies o).

(* ---- histories --------------------------------------------------------------------------------- *)
Record hstate := {
  h_last : option pobs;
  h_revoked : list str;               (* IdP: tokens revoked *)
  h_signed_out : list (str * str);    (* (access, refresh) of sessions whose authenticator cookie a POST response cleared *)
  h_mismatch : bool; h_holds : bool }.

Definition h_init : hstate :=
  {| h_last := None; h_revoked := []; h_signed_out := []; h_mismatch := false; h_holds := true |}.

Definition cleared_grant (q : areq) (clears : bool) : list (str * str) :=
  match session_of q with Some s => if clears then [grant_of s] else [] | None => [] end.

Definition h_step (mac : str -> str -> str) (h : hstate) (s : step) : hstate :=
  match s with
  | SProxy o =>
      {| h_last := Some o; h_revoked := h_revoked h; h_signed_out := h_signed_out h;
         h_mismatch := h_mismatch h || proxy_mismatch mac o; h_holds := h_holds h && proxy_holds mac o |}
  | SAuth o =>
      (* tokens that reached the IdP's revoke endpoint and were answered "revoked" / "already revoked" *)
      let newly := if revoke_ok (ao_provider o) (q_idp (ao_req o)) then r_revoked (ao_resp o) else [] in
      {| h_last := h_last h; h_revoked := newly ++ h_revoked h;
         h_signed_out := cleared_grant (ao_req o) (r_clears (ao_resp o)) ++ h_signed_out h;
         h_mismatch := h_mismatch h || auth_mismatch mac o;
         h_holds := h_holds h && auth_holds mac o && acceptance_holds mac (h_last h) o |}
  | SConc o =>
      let p := co_provider o in
      let newly := flat_map (fun q => match session_of q with
                                      | Some s0 => if mem_str (revoke_token p s0) (co_calls o) && revoke_ok p (q_idp q)
                                                   then [revoke_token p s0] else []
                                      | None => [] end) (co_reqs o) in
      {| h_last := h_last h; h_revoked := newly ++ h_revoked h;
         h_signed_out := flat_map (fun t => cleared_grant (fst t) (snd (snd t))) (combine (co_reqs o) (co_bodies o)) ++ h_signed_out h;
         h_mismatch := h_mismatch h || conc_mismatch mac o;
         h_holds := h_holds h && conc_holds mac o |}
  | SSig secret uri sg ts parses now obs =>
      {| h_last := h_last h; h_revoked := h_revoked h; h_signed_out := h_signed_out h;
         h_mismatch := h_mismatch h || negb (bool_eqb (valid_signature mac secret uri sg ts parses now) obs);
         h_holds := h_holds h |}
  | SReuse o =>
      {| h_last := h_last h; h_revoked := h_revoked h; h_signed_out := h_signed_out h;
         h_mismatch := h_mismatch h || reuse_mismatch o || negb (reuse_world_ok (h_revoked h) o);
         h_holds := h_holds h && reuse_holds (h_revoked h) o && reuse_signed_out_holds (h_signed_out h) o |}
  end.

Definition h_run (mac : str -> str -> str) (steps : list step) : hstate := fold_left (h_step mac) steps h_init.

Definition judge (c : case) : N :=
  match c with
  | CH tab steps =>
      let h := h_run (mac_of tab) steps in code (h_mismatch h) (h_holds h) 0
  end.

(* class = which kinds of events the history contains (bit mask) *)
Definition step_class (revoked_any : bool) (s : step) : N :=
  match s with
  | SProxy _ => 1
  | SAuth o =>
      match r_body (ao_resp o) with
      | BGate _ => 2
      | BPage st _ _ _ _ => if (st =? 500)%Z then 8 else 4
      | BRedirect _ => if r_clears (ao_resp o) then (if is_nil (r_revoked (ao_resp o)) then 32 else 16) else 64
      end
  | SConc o => if existsb (fun b => snd b) (co_bodies o) then 2048 else 4096
  | SSig _ _ _ _ _ _ obs => if obs then 128 else 256
  | SReuse o => if ro_served o then 512 else 1024
  end.
Definition classify (c : case) : N :=
  match c with CH _ steps => fold_left (fun acc s => N.lor acc (step_class false s)) steps 0 end.
