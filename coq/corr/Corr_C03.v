(* Corr_C03.v — comparison and monitor for C03 (identity headers and cookies seen by an upstream).
   A case carries the configuration, which branch of Proxy the request took (with the session
   presented in the cookie, which of its deadlines had passed and what the authenticator answered),
   the session the proxy re-saved in the response, the client's header lines as sent, and what the recording backend
   received: the value lists of the four identity headers, its raw Cookie header lines and the
   (name, value) list its own net/http parser (Request.Cookies) made of them. No proofs here. *)
From V Require Export Base CorrBase ReqHeaders.

Inductive case :=
| Case (scrub : bool)                                      (* does this tree scrub client identity headers at the
                                                              top of Proxy? Probed by the driver on the real proxy
                                                              (false on the code that exists, true once the repair
                                                              is in): selects which of the two proved models the
                                                              observations are compared with *)
       (cfg : config)
       (r : route)                                         (* PathPrefix("/") -> Proxy, or /favicon.ico -> Favicon
                                                              (RFavicon s: s is the PRESENTED session) *)
       (m : mode)                                          (* Authenticated s: s is the session PRESENTED in the cookie *)
       (allowed : list str)                                (* UpstreamConfig.AllowedGroups *)
       (d : due)                                           (* which deadline of the presented session had passed and
                                                              what the (fake) authenticator answered *)
       (client : list (str * str))
       (forwarded : bool)                                  (* the backend received exactly one request *)
       (o_saved : option session)                          (* the session the proxy re-saved in THIS response
                                                              (Set-Cookie opened with the proxy's key), if any *)
       (o_user o_email o_groups o_token : list str)        (* backend: r.Header[key] *)
       (o_cookie_lines : list str)                         (* backend: r.Header["Cookie"] *)
       (o_cookies : list (str * str))                      (* backend: r.Cookies() as (name, value) *)
(* a request to a route that never calls the upstream handler (/robots.txt, /oauth2/v1/certs,
   /oauth2/auth, /oauth2/sign_out, /oauth2/callback, /ping, /favicon.ico without a valid session) *)
| CaseNoUpstream (client : list (str * str)) (forwarded : bool)
(* the configuration path (environment -> LoadConfig -> Validate -> SetUpstreamConfigs -> New)
   of the tree under test refused a configuration the modelled tree boots: broken correspondence *)
| CaseBootFailed.

Definition pair_eqb (x y : str * str) : bool := str_eqb (fst x) (fst y) && str_eqb (snd x) (snd y).
Definition pairs_eqb (a b : list (str * str)) : bool := list_eqb pair_eqb a b.

(* ---- the property, stated on the inputs and on what the backend received ------------------- *)

(* the operator configured an injected request header with this name *)
Definition injected (cfg : config) (k : str) : list str :=
  match last_injected k (inject cfg) with Some v => [v] | None => [] end.

(* guard of the kept-cookies clause: the client did not itself declare Cookie hop-by-hop, and the
   operator does not overwrite Cookie by an injected header (applied by every Authenticate that ran:
   on the authenticated path and by Favicon's own Authenticate) *)
Definition inject_applied (r : route) (m : mode) : bool :=
  match r, m with RProxy, SkipAuth => false | _, _ => true end.
Definition cookies_guard (cfg : config) (r : route) (m : mode) (client : list (str * str)) : bool :=
  negb (client_conn_names client k_cookie) &&
  (negb (inject_applied r m) || is_nil (injected cfg k_cookie)).

Record verdict := {
  v_fail : bool;         (* some clause fails on the observation *)
  v_unexplained : bool;  (* some failing clause does not carry the signature of a listed finding *)
  v_known : N            (* attribution when every failing clause is explained *)
}.

Definition monitor (cfg : config) (r : route) (m : mode) (client : list (str * str))
           (ou oe og ot ol : list str) (oc : list (str * str)) : verdict :=
  let cn := cookie_name cfg in
  (* clause D: the session cookie is never forwarded (backend's parser and the model of it) *)
  let failD := existsb (fun nv => str_eqb (fst nv) cn) oc ||
               existsb (fun c => str_eqb (c_name c) cn) (read_cookies ol) in
  (* clause E: every other well-formed cookie arrives, same name, same value, same order *)
  let failE := cookies_guard cfg r m client && negb (pairs_eqb oc (want_cookies cn client)) in
  match m with
  | Authenticated s =>
      (* clause A: exactly the session's user / e-mail / groups *)
      let fU := negb (strs_eqb ou (want_user s)) in
      let fE := negb (strs_eqb oe (want_email s)) in
      let fG := negb (strs_eqb og (want_groups s)) in
      (* clause B: access token only when enabled (or operator-injected) *)
      let fT := negb (strs_eqb ot (allowed_token cfg s)) in
      (* finding 3: the client named the header in Connection and the upstream got none *)
      let hop k o := client_conn_names client k && is_nil o in
      (* finding 2: option off, nothing injected, client supplied the header *)
      let k2 := negb (token_enabled cfg s) && is_nil (injected cfg k_xfat) && client_sent client k_xfat
                && negb (client_conn_names client k_xfat) in
      let unexpl := (fU && negb (hop k_xfu ou)) || (fE && negb (hop k_xfe oe)) || (fG && negb (hop k_xfg og)) ||
                    (fT && negb (hop k_xfat ot || k2)) || failD || failE in
      {| v_fail := fU || fE || fG || fT || failD || failE;
         v_unexplained := unexpl;
         v_known := if fU || fE || fG || (fT && hop k_xfat ot) then 3 else if fT then 2 else 0 |}
  | SkipAuth =>
      (* clause C: no identity header reaches the upstream on an unauthenticated request;
         finding 1: the client supplied it *)
      let f k o := negb (is_nil o) in
      let ex k := client_sent client k in
      let fU := f k_xfu ou in let fE := f k_xfe oe in let fG := f k_xfg og in let fT := f k_xfat ot in
      {| v_fail := fU || fE || fG || fT || failD || failE;
         v_unexplained := (fU && negb (ex k_xfu)) || (fE && negb (ex k_xfe)) || (fG && negb (ex k_xfg)) ||
                          (fT && negb (ex k_xfat)) || failD || failE;
         v_known := if fU || fE || fG || fT then 1 else 0 |}
  end.

Definition holds cfg r m client ou oe og ot ol oc : bool := negb (v_fail (monitor cfg r m client ou oe og ot ol oc)).

(* the model's prediction of the projected observables *)
Definition predict (scrub : bool) (cfg : config) (r : route) (m : mode) (client : list (str * str)) :=
  let out := upstream_r scrub cfg r m client in
  (h_get k_xfu out, h_get k_xfe out, h_get k_xfg out, h_get k_xfat out, h_get k_cookie out).

Definition session_eqb (a b : session) : bool :=
  str_eqb (s_user a) (s_user b) && str_eqb (s_email a) (s_email b) &&
  strs_eqb (s_groups a) (s_groups b) && str_eqb (s_token a) (s_token b).

(* the model's view: the session Authenticate asserts is the presented one after the due
   refresh / revalidation *)
Definition model_mode (allowed : list str) (d : due) (m : mode) : mode :=
  match m with Authenticated s => Authenticated (asserted_session allowed s d) | SkipAuth => SkipAuth end.
Definition model_route (allowed : list str) (d : due) (r : route) : route :=
  match r with RFavicon s => RFavicon (asserted_session allowed s d) | RProxy => RProxy end.
(* Favicon's own Authenticate re-saves too, also when Proxy then takes the whitelisted branch *)
Definition model_saved (allowed : list str) (d : due) (r : route) (m : mode) : option session :=
  match m, r with
  | Authenticated s, _ => resaved_session allowed s d
  | SkipAuth, RFavicon s => resaved_session allowed s d
  | SkipAuth, RProxy => None
  end.

(* the property's view, on observations only: the identity headers must be those of the session
   the proxy re-saved in this very response; when it re-saved nothing, of the presented session *)
Definition observed_mode (o_saved : option session) (m : mode) : mode :=
  match m with
  | Authenticated s => Authenticated (match o_saved with Some s' => s' | None => s end)
  | SkipAuth => SkipAuth
  end.

(* clause F, on observations and inputs only: a session the proxy re-saves (and, by clauses A/B,
   asserts) on an authenticated request is one somebody vouched for — the session the cookie presented
   (sealed by the proxy earlier) or the one the authenticator's answers of this very exchange yield
   (fresh groups filtered by the allowed groups, rotated token). Never anything else, e.g. an emptied one. *)
Definition saved_legit (allowed : list str) (d : due) (m : mode) (o_saved : option session) : bool :=
  match m, o_saved with
  | Authenticated s, Some s' => session_eqb s' s || session_eqb s' (fresh_session allowed s d)
  | _, _ => true
  end.

Definition judge (c : case) : N :=
  match c with
  | CaseNoUpstream _ fwd => if fwd then 3 else 0
  | CaseBootFailed => 1
  | Case scrub cfg r m allowed d client fwd o_saved ou oe og ot ol oc =>
      let '(mu, me, mg, mt, ml) := predict scrub cfg (model_route allowed d r) (model_mode allowed d m) client in
      let mismatch :=
        negb (fwd && option_eqb session_eqb (model_saved allowed d r m) o_saved && strs_eqb mu ou && strs_eqb me oe && strs_eqb mg og && strs_eqb mt ot &&
              (* cookies are compared as the (name, value) list the upstream reads, not as raw bytes:
                 a harmless change of the separator or of quoting style is not a difference *)
              pairs_eqb (map name_value (read_cookies ml)) oc &&
              (* the model of net/http's cookie parser against the backend's real parser *)
              pairs_eqb (map name_value (read_cookies ol)) oc) in
      let v := monitor cfg r (observed_mode o_saved m) client ou oe og ot ol oc in
      let okF := saved_legit allowed d m o_saved in
      code mismatch (negb (v_fail v) && okF) (if v_unexplained v || negb okF then 0 else v_known v)
  end.

(* classes for the evidence histogram: 1 / 2 = plain authenticated / skip-auth request (trivial);
   bits: 4 client sent an identity header, 8 client's Connection names an identity header or Cookie,
   16 a foreign cookie is present, 32 the session cookie occurs zero or several times,
   64 injected request headers configured, 128 access-token option on,
   256 refresh due, 512 revalidation due, 768 grace fallback, 1024 route /favicon.ico,
   2048 joined another request's coalesced refresh / revalidation;
   3 = a route that never reaches the upstream (trivial) *)
Definition classify (c : case) : N :=
  match c with
  | CaseNoUpstream _ _ => 3
  | CaseBootFailed => 0
  | Case _ cfg r m _ d client _ _ _ _ _ _ _ _ =>
      let cn := cookie_name cfg in
      let cs := map name_value (read_cookies (h_get k_cookie (mk_headers client))) in
      let nsess := length (filter (fun nv => str_eqb (fst nv) cn) cs) in
      (match m with Authenticated _ => 1 | SkipAuth => 2 end) +
      (if existsb (client_sent client) identity_keys then 4 else 0) +
      (if existsb (client_conn_names client) (k_cookie :: identity_keys) then 8 else 0) +
      (if is_nil (want_cookies cn client) then 0 else 16) +
      (if Nat.eqb nsess 1 then 0 else 32) +
      (if is_nil (inject cfg) then 0 else 64) +
      (if pass_access_token cfg then 128 else 0) +
      (match d with NotDue => 0 | RefreshDue _ _ => 256 | ValidateDue _ => 512 | GraceFallback => 768
                  | JoinedRefresh _ _ | JoinedValidate _ => 2048 end) +
      (match r with RProxy => 0 | RFavicon _ => 1024 end)
  end.
