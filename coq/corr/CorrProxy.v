(* CorrProxy.v — case format shared by the C01 / C04 / C05 correspondence shards: observed
   request steps of the real proxy (single steps with arbitrary sessions, and per-browser
   histories), the model's prediction for a step, and boolean forms of the property clauses. *)
From V Require Export Base CorrBase Validators ProxyCore ProxyWorld.
Open Scope Z_scope.

Fixpoint assoc_str (k : str) (t : list (str * str)) : option str :=
  match t with [] => None | (a, b) :: t' => if str_eqb k a then Some b else assoc_str k t' end.
Definition lower_tab (t : list (str * str)) (s : str) : str :=
  match assoc_str s t with Some x => x | None => lower_ascii s end.

(* one observed step *)
Record ostep := {
  o_now : Z;                       (* virtual clock, seconds *)
  o_req : request;                 (* what was presented (session as opened under the proxy's key) *)
  o_ans : answers;                 (* what the fake authenticator was scripted to answer *)
  o_served : bool;                 (* the recording backend received the request *)
  o_status : Z;                    (* HTTP status of the proxy's response *)
  o_signin : bool;                 (* Location points at the provider's sign_in endpoint *)
  o_cookie : cookie_effect;        (* last Set-Cookie for the session cookie, re-opened *)
  o_calls : list endpoint;         (* authenticator endpoints called, in order *)
  o_issued_at : option Z }.        (* histories: virtual time at which the presented cookie was sealed (harness ghost) *)

Record hcase := {
  h_cfg : cfg; h_pol : upolicy; h_tab : list (str * str);
  h_login : option Z;              (* histories: virtual time of the login callback *)
  h_conc : bool;                   (* the steps were in flight CONCURRENTLY: call logs cannot be attributed, not compared *)
  h_steps : list ostep }.

Definition case := hcase.

(* ---- equality on projected observables, deadlines within one second ---- *)
Definition close (a b : Z) : bool := Z.abs (a - b) <=? 1.
Definition opt_close (a b : option Z) : bool :=
  match a, b with Some x, Some y => close x y | None, None => true | _, _ => false end.
Definition session_close (a b : session) : bool :=
  str_eqb (s_slug a) (s_slug b) && str_eqb (s_email a) (s_email b) &&
  str_eqb (s_access a) (s_access b) && str_eqb (s_refresh_tok a) (s_refresh_tok b) &&
  close (s_refresh_dl a) (s_refresh_dl b) && close (s_lifetime_dl a) (s_lifetime_dl b) &&
  close (s_valid_dl a) (s_valid_dl b) && opt_close (s_grace a) (s_grace b) &&
  strs_eqb (s_groups a) (s_groups b) && str_eqb (s_upstream a) (s_upstream b).
Definition effect_close (a b : cookie_effect) : bool :=
  match a, b with
  | CNone, CNone => true | CCleared, CCleared => true
  | CSaved x, CSaved y => session_close x y
  | _, _ => false
  end.
Definition endpoint_eqb (a b : endpoint) : bool :=
  match a, b with EpRefresh, EpRefresh => true | EpValidate, EpValidate => true | EpProfile, EpProfile => true | _, _ => false end.

(* model prediction vs observation for one step *)
Definition step_mismatch_gen (cmp_calls : bool) (lower : str -> str) (c : cfg) (u : upolicy) (o : ostep) : bool :=
  let rs := handle lower (o_now o) c u (o_req o) (o_ans o) in
  let out_ok :=
    match rs_out rs with
    | Forward _ => o_served o
    | SignIn => negb (o_served o) &&
                (if r_xhr (o_req o) then (o_status o =? 401) else (o_status o =? 302) && o_signin o)
    | Status n => negb (o_served o) && (o_status o =? n)
    end in
  negb (out_ok && effect_close (rs_cookie rs) (o_cookie o) &&
        (negb cmp_calls || list_eqb endpoint_eqb (rs_calls rs) (o_calls o))).
Definition step_mismatch := step_mismatch_gen true.
(* per-case: concurrent pairs do not compare call logs *)
Definition case_step_mismatch (h : hcase) := step_mismatch_gen (negb (h_conc h)).

(* ---- the property clauses as booleans on (presented session, answers) ---- *)
Definition matched_any (allowed ug : list str) : bool := existsb (fun g => mem_str g allowed) ug.
Definition groups_confirmed_b (allowed : list str) (a : answers) : bool :=
  no_group_check allowed ||
  match user_groups a with UgOk ug => matched_any allowed ug | _ => false end.
Definition groups_unavailable_b (allowed : list str) (a : answers) : bool :=
  negb (no_group_check allowed) && match user_groups a with UgUnavail => true | _ => false end.
Definition outage_grace_b (now : Z) (c : cfg) (s : session) : bool :=
  now <? (match s_grace s with Some g => g | None => now end) + c_G c.
Definition refresh_is_ok (a : answers) : bool := match redeem_refresh a with RrOk _ _ => true | _ => false end.
Definition refresh_confirmed_b (allowed : list str) (a : answers) : bool :=
  refresh_is_ok a && groups_confirmed_b allowed a.
Definition refresh_outage_b (allowed : list str) (a : answers) : bool :=
  match redeem_refresh a with RrUnavail => true | RrOk _ _ => groups_unavailable_b allowed a | _ => false end.
Definition validate_is_200 (a : answers) : bool := match a_validate a with St c => c =? 200 | Transport => false end.
Definition validate_confirmed_b (allowed : list str) (a : answers) : bool :=
  validate_is_200 a && groups_confirmed_b allowed a.
Definition validate_outage_b (allowed : list str) (a : answers) : bool :=
  match a_validate a with
  | St c => (unavailable c) || ((c =? 200) && groups_unavailable_b allowed a)
  | Transport => false
  end.

(* "sealed under the proxy's secret, issued for exactly this host, within its lifetime, has passed
   any refresh / revalidation that was due, and whose user satisfies the upstream's rules" *)
Definition session_ok_b (lower : str -> str) (now : Z) (c : cfg) (u : upolicy) (host : str) (s : session) (a : answers) : bool :=
  let allowed := p_groups (u_rules u) in
  str_eqb (s_slug s) (c_slug c) && str_eqb (s_upstream s) host && (now <=? s_lifetime_dl s) &&
  (if s_refresh_dl s <? now
   then negb (match s_refresh_tok s with [] => true | _ => false end) &&
        (refresh_confirmed_b allowed a || (refresh_outage_b allowed a && outage_grace_b now c s))
   else if s_valid_dl s <? now
        then validate_confirmed_b allowed a || (validate_outage_b allowed a && outage_grace_b now c s)
        else true) &&
  request_gate lower (u_rules u) (s_email s).

Definition is_sealed (ck : cookie) : option session := match ck with Sealed s => Some s | _ => None end.

(* C01 on one observed step: complete mediation *)
Definition mediation_holds (lower : str -> str) (c : cfg) (u : upolicy) (o : ostep) : bool :=
  let r := o_req o in
  let sess_ok := match is_sealed (r_cookie r) with
                 | Some s => session_ok_b lower (o_now o) c u (r_host r) s (o_ans o)
                 | None => false end in
  let wl := whitelisted u r in
  (* the upstream receives it only if whitelisted (Proxy route) or the session case *)
  (negb (o_served o) ||
   match r_endpoint r with
   | EProxy => wl || sess_ok
   | EFavicon => sess_ok
   | EAuthOnly => false
   end) &&
  (* /oauth2/auth answers 202 only in the session case *)
  (match r_endpoint r with EAuthOnly => negb (o_status o =? 202) || sess_ok | _ => true end) &&
  (* every other case: sign-in redirect or an error *)
  (o_served o ||
   match r_endpoint r with
   | EProxy => (o_status o =? 302) && o_signin o || (o_status o =? 401) || (o_status o =? 403) || (o_status o =? 500)
   | EFavicon => o_status o =? 404
   | EAuthOnly => (o_status o =? 401) || (o_status o =? 202)
   end).

Definition due (now : Z) (s : session) : bool := (s_refresh_dl s <? now) || (s_valid_dl s <? now).
