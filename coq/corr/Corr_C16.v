(* Corr_C16.v — comparison and monitor for C16 (request coalescing). No proofs here.

   The monitor does not replay the model. It computes, from the observed event list alone, an
   abstract coalescing specification: an execution of key k is "open" from the Enter of the
   caller that starts it until that caller's Cleanup; a caller entering while an execution of
   its key is open shares it, otherwise it starts one. There are no call objects, no duplicate
   counter, no thread states and no enabling conditions in the specification: the result a
   caller must get is read off the leader's FnReturn event and the leader's count is obtained
   by counting the callers that shared. Corr_C16_proofs shows that the model's prediction
   satisfies this specification for EVERY accepted event list (refinement). *)
From V Require Export Base CorrBase Singleflight.

(* ---------- the abstract specification ---------- *)
Record astate := mkA {
  a_open : list (str * tid);      (* key -> caller whose execution is open *)
  a_lead : list (tid * tid)       (* caller -> caller whose execution it shares (itself if it runs) *)
}.

Definition astep {R} (a : astate) (e : event R) : astate :=
  match e with
  | Enter t k =>
      match alookup str_eqb k (a_open a) with
      | Some l => mkA (a_open a) ((t, l) :: a_lead a)
      | None => mkA ((k, t) :: a_open a) ((t, t) :: a_lead a)
      end
  | Cleanup t => mkA (filter (fun p => negb (Nat.eqb (snd p) t)) (a_open a)) (a_lead a)
  | _ => a
  end.

Definition arun {R} (tr : list (event R)) : astate := fold_left astep tr (mkA [] []).

Fixpoint fn_result {R} (tr : list (event R)) (l : tid) : option R :=
  match tr with
  | [] => None
  | FnReturn t r :: tr' => if Nat.eqb t l then Some r else fn_result tr' l
  | _ :: tr' => fn_result tr' l
  end.

Definition spec_leader {R} (tr : list (event R)) (t : tid) : option tid :=
  alookup Nat.eqb t (a_lead (arun tr)).

Definition is_joiner (l : tid) (p : tid * tid) : bool := Nat.eqb (snd p) l && negb (Nat.eqb (fst p) l).
Definition spec_count {R} (tr : list (event R)) (l : tid) : nat :=
  length (filter (is_joiner l) (a_lead (arun tr))).

(* what a caller that has returned must have got: (its fn ran?, result, count) *)
Definition spec_outcome {R} (tr : list (event R)) (t : tid) : option (bool * R * nat) :=
  match spec_leader tr t with
  | Some l =>
      match fn_result tr l with
      | Some r => Some (Nat.eqb l t, r, if Nat.eqb l t then spec_count tr t else 0%nat)
      | None => None
      end
  | None => None
  end.

Definition model_outcome {R} (s : state R) (t : tid) : option (bool * R * nat) :=
  match thread s t with
  | Some (Returned c r n) => Some (Nat.eqb c t, r, n)
  | _ => None
  end.

(* ---------- equality tests on observables ---------- *)
Definition gres := (N * N)%type.                       (* generic level: (value id, error id; 0 = nil) *)
Definition gres_eqb (a b : gres) : bool := N.eqb (fst a) (fst b) && N.eqb (snd a) (snd b).

Definition value_eqb (a b : value) : bool :=
  match a, b with
  | VNil, VNil => true
  | VBool x, VBool y => bool_eqb x y
  | VGroups x, VGroups y => strs_eqb x y
  | VToken x n, VToken y m => str_eqb x y && Z.eqb n m
  | _, _ => false
  end.
Definition result_eqb (a b : result) : bool := value_eqb (fst a) (fst b) && N.eqb (snd a) (snd b).

Definition session_eqb (a b : session) : bool :=
  str_eqb (s_access a) (s_access b) && str_eqb (s_refresh_token a) (s_refresh_token b) &&
  Z.eqb (s_refresh_deadline a) (s_refresh_deadline b) && Z.eqb (s_valid_deadline a) (s_valid_deadline b) &&
  Z.eqb (s_lifetime_deadline a) (s_lifetime_deadline b) && Z.eqb (s_grace_start a) (s_grace_start b) &&
  strs_eqb (s_groups a) (s_groups b) && str_eqb (s_email a) (s_email b).

Definition subject_eqb (a b : subject) : bool :=
  match a, b with
  | SubjToken e x, SubjToken f y => str_eqb e f && str_eqb x y
  | SubjPair e x u, SubjPair f y v => str_eqb e f && str_eqb x y && str_eqb u v
  | SubjGroups e m g, SubjGroups f n h => str_eqb e f && str_eqb m n && strs_eqb g h
  | _, _ => false
  end.

Definition endpoint_kind_b (e : endpoint) : N :=
  match e with
  | PUserGroups | AGroupMembership => 1
  | ARefreshAccessToken => 2
  | _ => 0
  end.
Definition wf_question_b (q : question) : bool :=
  match q with
  | QSession e _ _ => N.eqb (endpoint_kind_b e) 0
  | QGroups e _ _ => N.eqb (endpoint_kind_b e) 1
  | QToken e _ => N.eqb (endpoint_kind_b e) 2
  end.
Definition service_eqb (a b : service) : bool :=
  match a, b with Proxy, Proxy | Auth, Auth => true | _, _ => false end.

(* ---------- one execution of a (wrapper, key) at a time, from the execution log ----------
   The log is what the inner provider (or fn) itself recorded: begin / end of each execution, in
   the order they happened. The clause is independent of the group's map and of who the driver
   or the model believes leads: it only needs each execution's key, i.e. the key of the caller
   whose call it is. *)
Fixpoint key_of {R} (tr : list (event R)) (t : tid) : option str :=
  match tr with
  | [] => None
  | Enter t' k :: tr' => if Nat.eqb t' t then Some k else key_of tr' t
  | _ :: tr' => key_of tr' t
  end.
Definition same_key (ko : tid -> option str) (a b : tid) : bool := option_eqb str_eqb (ko a) (ko b).
Definition exec_step (ko : tid -> option str) (st : list tid * bool) (e : logev) : list tid * bool :=
  match e with
  | LBegin t => (t :: fst st, snd st && negb (existsb (fun t' => same_key ko t' t) (fst st)))
  | LEnd t => (filter (fun t' => negb (Nat.eqb t' t)) (fst st), snd st)
  end.
Definition exec_walk (ko : tid -> option str) (log : list logev) : list tid * bool :=
  fold_left (exec_step ko) log ([], true).
Definition exec_ok (ko : tid -> option str) (log : list logev) : bool := snd (exec_walk ko log).

Definition logev_eqb (a b : logev) : bool :=
  match a, b with
  | LBegin x, LBegin y | LEnd x, LEnd y => Nat.eqb x y
  | _, _ => false
  end.
Definition log_tid (e : logev) : tid := match e with LBegin t | LEnd t => t end.

(* ---------- cases ---------- *)
Record gobs := mkGObs {
  go_tid : nat; go_returned : bool; go_ran : bool; go_val : N; go_err : N; go_cnt : nat
}.
Record wobs := mkWObs {
  wo_tid : nat;
  wo_wid : nat;             (* the wrapper object the caller called *)
  wo_returned : bool; wo_ran : bool; wo_res : result; wo_sess : option session;
  wo_key : option str       (* composite key of the call this caller created, read from the group's map *)
}.

(* free-running storm (order unknown): per caller the key, whether its fn ran, the execution id it
   got and its count; per execution its id and key; the largest number of fn bodies seen running
   at once on one key *)
Record sobs := mkSObs { so_key : str; so_ran : bool; so_val : N; so_cnt : nat }.

Inductive case :=
| CGen (tr : list (event gres)) (stray : nat) (log : list logev) (obs : list gobs)
    (* real singleflight.Group: the event list as issued/observed, the number of fn executions
       that began while no caller was entering, fn's own begin/end log, and per caller: did it
       return, did its own fn run, the (val, err) and count it got *)
| CWrap (svc : service) (tr : list mevent) (stray : nat) (log : list logev) (obs : list wobs)
    (* one or several real SingleFlightProvider objects of the service (built as the service
       builds them: one per upstream / per provider), each around its own scripted inner
       provider: events are tagged with the wrapper object they happened at; the inner providers'
       begin/end log; per caller the (value, error) it got and its own session record after *)
| CStorm (max_overlap : nat) (execs : list (N * str)) (obs : list sobs).

Fixpoint entered {R} (tr : list (event R)) : list tid :=
  match tr with
  | [] => []
  | Enter t _ :: tr' => t :: entered tr'
  | _ :: tr' => entered tr'
  end.
Definition mem_nat (x : nat) (l : list nat) : bool := existsb (Nat.eqb x) l.

Definition outcome_eqb {R} (eqb : R -> R -> bool) (a b : option (bool * R * nat)) (with_count : bool) : bool :=
  match a, b with
  | Some (x, r, n), Some (y, q, m) => bool_eqb x y && eqb r q && (negb with_count || Nat.eqb n m)
  | _, _ => false
  end.

Fixpoint question_of (tr : list wevent) (t : tid) : option question :=
  match tr with
  | [] => None
  | WEnter t' q :: tr' => if Nat.eqb t' t then Some q else question_of tr' t
  | _ :: tr' => question_of tr' t
  end.
Fixpoint update_of (tr : list wevent) (t : tid) : option update :=
  match tr with
  | [] => None
  | WFnReturn t' _ u :: tr' => if Nat.eqb t' t then Some u else update_of tr' t
  | _ :: tr' => update_of tr' t
  end.
Fixpoint questions (tr : list wevent) : list question :=
  match tr with
  | [] => []
  | WEnter _ q :: tr' => q :: questions tr'
  | _ :: tr' => questions tr'
  end.

(* All clauses below are stated on the events of ONE wrapper object (the projection of the
   deployment's event list): "shares an execution" is only ever recognised between callers of the
   same wrapper object, so a merge across wrapper objects shows up as a caller that should have
   run (generic clause) and did not. *)

(* property clause: callers that shared an execution asked the same endpoint about the same
   subject — the token, or the e-mail and group set; for the proxy's ValidateSessionState /
   RefreshSession the subject INCLUDES the allowed groups the answer depends on *)
Definition subject_clause (tr : list wevent) (t : tid) : bool :=
  match spec_leader (map erase tr) t with
  | Some l =>
      match question_of tr t, question_of tr l with
      | Some q, Some ql => subject_eqb (subject_of q) (subject_of ql) && strs_eqb (allowed_of q) (allowed_of ql)
      | _, _ => false
      end
  | None => false
  end.
(* property clause: a caller whose call was merged ends up with the same session updates as the
   caller whose call ran — i.e. the update the execution made is visible in EVERY sharer's record *)
Definition session_clause (tr : list wevent) (t : tid) (after : option session) : bool :=
  match question_of tr t with
  | Some q =>
      match q_session q with
      | Some s0 =>
          match spec_leader (map erase tr) t with
          | Some l =>
              match update_of tr l with
              | Some u => option_eqb session_eqb after (Some (apply_update u s0))
              | None => false
              end
          | None => false
          end
      | None => match after with None => true | Some _ => false end
      end
  | None => false
  end.

Definition is_follower (tr : list wevent) (t : tid) : bool :=
  match spec_leader (map erase tr) t with Some l => negb (Nat.eqb l t) | None => false end.

Definition has_session_question (tr : list wevent) (t : tid) : bool :=
  match question_of tr t with
  | Some q => match q_session q with Some _ => true | None => false end
  | None => false
  end.

(* every failing clause of caller t carries the signature of a listed (open) finding: only the
   session clause of a merged follower can (C16-K1). The subject clause has no open finding since
   the keys were repaired (C16-K2, C16-K3 fixed): it must hold. *)
Definition clause_failures_explained (tr : list wevent) (t : tid) (after : option session) : bool :=
  subject_clause tr t &&
  (session_clause tr t after || (is_follower tr t && has_session_question tr t)).

(* the strings of a question are byte strings *)
Definition bytes_b (s : str) : bool := forallb (fun b => b <? 256) s.
Definition q_bytes_b (q : question) : bool :=
  match q with
  | QSession _ s al => bytes_b (s_access s) && bytes_b (s_refresh_token s) && forallb bytes_b al
  | QGroups _ email groups => bytes_b email && forallb bytes_b groups
  | QToken _ tok => bytes_b tok
  end.

(* wrapper objects that occur, and where a caller called *)
Fixpoint nodup_nat (l : list nat) : list nat :=
  match l with
  | [] => []
  | x :: l' => if mem_nat x l' then nodup_nat l' else x :: nodup_nat l'
  end.
Definition wids (tr : list mevent) : list nat := nodup_nat (map fst tr).
Fixpoint wid_of (tr : list mevent) (t : tid) : option nat :=
  match tr with
  | [] => None
  | (a, WEnter t' _) :: tr' => if Nat.eqb t' t then Some a else wid_of tr' t
  | _ :: tr' => wid_of tr' t
  end.
Definition project_log (a : nat) (tr : list mevent) (log : list logev) : list logev :=
  filter (fun e => option_eqb Nat.eqb (wid_of tr (log_tid e)) (Some a)) log.

Definition judge (c : case) : N :=
  match c with
  | CGen tr stray log obs =>
      let observed := map go_tid obs in
      let complete := forallb (fun t => mem_nat t observed) (entered tr) && forallb go_returned obs &&
                      Nat.eqb stray 0 in
      let model_ok :=
        match run_log init [] tr with
        | Some (s, l) => forallb (fun o => outcome_eqb gres_eqb (model_outcome s (go_tid o))
                                        (Some (go_ran o, (go_val o, go_err o), go_cnt o)) true) obs &&
                         list_eqb logev_eqb l log
        | None => false
        end in
      let holds :=
        complete &&
        exec_ok (key_of tr) log &&
        forallb (fun o => outcome_eqb gres_eqb (spec_outcome tr (go_tid o))
                            (Some (go_ran o, (go_val o, go_err o), go_cnt o)) true) obs in
      code (negb (model_ok && Nat.eqb stray 0)) holds 0
  | CWrap svc tr stray log obs =>
      let pr (o : wobs) := project (wo_wid o) tr in
      let complete :=
        forallb (fun ae => match snd ae with
                           | WEnter t _ => existsb (fun o => Nat.eqb (wo_tid o) t && Nat.eqb (wo_wid o) (fst ae)) obs
                           | _ => true
                           end) tr &&
        forallb wo_returned obs && Nat.eqb stray 0 in
      let wf := forallb (fun q => wf_question_b q && q_bytes_b q && service_eqb (service_of (q_endpoint q)) svc)
                        (questions (map snd tr)) in
      let model_ok :=
        wf && Nat.eqb stray 0 &&
        forallb (fun o =>
          match wrun winit (pr o) with
          | Some w => outcome_eqb result_eqb (model_outcome (w_g w) (wo_tid o))
                                  (Some (wo_ran o, wo_res o, 0%nat)) false &&
                      option_eqb session_eqb (wsession w (wo_tid o)) (wo_sess o) &&
                      match wo_key o with
                      | Some k => wo_ran o &&
                                  match callof (w_g w) (wo_tid o) with
                                  | Some cl => str_eqb (c_key cl) k
                                  | None => false
                                  end
                      | None => negb (wo_ran o)
                      end
          | None => false
          end) obs &&
        forallb (fun a =>
          match run_log init [] (map erase (project a tr)) with
          | Some (_, l) => list_eqb logev_eqb l (project_log a tr log)
          | None => false
          end) (wids tr) &&
        Nat.eqb (length log) (length (flat_map (fun a => project_log a tr log) (wids tr))) in
      let exec_one :=
        forallb (fun a => exec_ok (key_of (map erase (project a tr))) (project_log a tr log)) (wids tr) in
      let gen_ok :=
        complete && exec_one &&
        forallb (fun o => outcome_eqb result_eqb (spec_outcome (map erase (pr o)) (wo_tid o))
                            (Some (wo_ran o, wo_res o, 0%nat)) false) obs in
      let subj_ok := forallb (fun o => subject_clause (pr o) (wo_tid o)) obs in
      let sess_ok := forallb (fun o => session_clause (pr o) (wo_tid o) (wo_sess o)) obs in
      (* Attribution. A falsified monitor is attributed to the one open known finding iff EVERY
         failing clause of EVERY caller carries its signature:
           - a failing session clause: the caller is a merged follower of a session-keyed call
             (the leader's own record must satisfy the clause)                     -> C16-K1;
           - the subject clause (sharers asked the same method about the same subject and the
             same allowed groups) has no open finding since the keys were repaired
             (C16-K2, C16-K3: fixed) — a merge of different subjects is a VIOLATION again;
           - the generic coalescing clause (who runs, results, counts, one execution per
             (wrapper, key) at a time, nothing shared across wrapper objects) never had one.
         Any failing clause without a signature leaves the case unattributed (a VIOLATION). *)
      let explained := forallb (fun o => clause_failures_explained (pr o) (wo_tid o) (wo_sess o)) obs in
      let known : N :=
        if gen_ok && explained && negb sess_ok then 1   (* C16-K1: merged caller's record stale *)
        else 0 in
      code (negb model_ok) (gen_ok && subj_ok && sess_ok) known
  | CStorm max_overlap execs obs =>
      (* invariants only: executions of a key never overlap; every caller got the id of an
         execution of ITS key; an execution is reported by exactly one caller as its own; that
         caller's count is the number of other callers holding the same id; merged callers get 0 *)
      let ids := map fst execs in
      let count_ran (v : N) := length (filter (fun o => so_ran o && N.eqb (so_val o) v) obs) in
      let count_shared (v : N) := length (filter (fun o => negb (so_ran o) && N.eqb (so_val o) v) obs) in
      let holds :=
        Nat.leb max_overlap 1 &&
        forallb (fun o => existsb (fun e => N.eqb (fst e) (so_val o) && str_eqb (snd e) (so_key o)) execs) obs &&
        forallb (fun v => Nat.eqb (count_ran v) 1) ids &&
        forallb (fun o => if so_ran o then Nat.eqb (so_cnt o) (count_shared (so_val o)) else Nat.eqb (so_cnt o) 0) obs in
      code false holds 0
  end.

(* ---------- classes for the evidence histogram ---------- *)
Record cstate := mkC { k_a : astate; k_done : list tid; k_seen : list str; k_window : bool; k_again : bool; k_follow : bool }.
Definition cstep {R} (c : cstate) (e : event R) : cstate :=
  let a' := astep (k_a c) e in
  match e with
  | Enter t k =>
      match alookup str_eqb k (a_open (k_a c)) with
      | Some l => mkC a' (k_done c) (k_seen c) (k_window c || mem_nat l (k_done c)) (k_again c) true
      | None => mkC a' (k_done c) (k :: k_seen c) (k_window c) (k_again c || mem_str k (k_seen c)) (k_follow c)
      end
  | FnReturn t _ => mkC a' (t :: k_done c) (k_seen c) (k_window c) (k_again c) (k_follow c)
  | _ => mkC a' (k_done c) (k_seen c) (k_window c) (k_again c) (k_follow c)
  end.
Definition features {R} (tr : list (event R)) : N :=
  let c := fold_left cstep tr (mkC (mkA [] []) [] [] false false false) in
  (if k_follow c then 1 else 0) + (if k_window c then 2 else 0) + (if k_again c then 4 else 0).

Definition update_is_empty (u : update) : bool :=
  match u with mkUpdate None None None None None => true | _ => false end.

(* the deployment's events as ONE generic event list over keys tagged with the wrapper object *)
Definition tag_erase (ae : mevent) : event result :=
  match erase (snd ae) with
  | Enter t k => Enter t (N.of_nat (fst ae) :: k)
  | e => e
  end.
Fixpoint distinct_methods (tr : list mevent) (seen : list str) : nat :=
  match tr with
  | [] => length seen
  | (_, WEnter _ q) :: tr' =>
      let n := endpoint_name (q_endpoint q) in
      if mem_str n seen then distinct_methods tr' seen else distinct_methods tr' (n :: seen)
  | _ :: tr' => distinct_methods tr' seen
  end.

Definition classify (c : case) : N :=
  match c with
  | CGen tr _ _ _ => features tr
  | CStorm _ execs obs => 900 + (if Nat.ltb (length execs) (length obs) then 1 else 0)
  | CWrap svc tr _ _ obs =>
      let pr (o : wobs) := project (wo_wid o) tr in
      100 + (match svc with Proxy => 0 | Auth => 50 end) +
      (if Nat.leb 2 (length (wids tr)) then 200 else 0) +          (* several wrapper objects *)
      (if Nat.leb 2 (distinct_methods tr []) then 400 else 0) +    (* several methods interleaved *)
      features (map tag_erase tr) +
      (if forallb (fun o => subject_clause (pr o) (wo_tid o)) obs then 0 else 8) +
      (if forallb (fun o => session_clause (pr o) (wo_tid o) (wo_sess o)) obs then 0 else 16)
  end.
