(* Corr_C15Client.v — comparison and monitor for the breaker's client (google_admin.go). No proofs.

   A case is one interleaving of operations of the REAL GoogleAdminService (real admin.Service
   against a scripted fake Directory API, real circuit.Breaker with mock clock and recording hooks):
   Begin an operation / let the directory answer the i-th outstanding request / advance the clock.
   Observed per event: the hook calls of the breaker, the request that reached the fake directory
   (if any) and the operation that returned (if any) with its members / error class.

   [holds] is the property on these observations, independent of the model's path: the only way a
   request may reach the directory is inside a Call that the breaker — whose state the monitor
   re-derives from the hooks alone, with the breaker monitor of Corr_C15 — had to let through at that
   moment; every answer must be reported to the breaker exactly then (its effects are checked by the
   breaker monitor); an operation may end with the breaker's error only where a Call was rejected,
   and then without a request; any other result must be exactly what the direct-style reading of
   listMemberships / CheckMemberships yields on the answers that operation got. *)
From V Require Export Base CorrBase Breaker BreakerClient Corr_C15.
Open Scope Z_scope.

(* ---------- the scripted directory ---------- *)
Definition member_type_eqb (a b : member_type) : bool :=
  match a, b with MUser, MUser | MGroup, MGroup | MOther, MOther => true | _, _ => false end.

Record script := mkscript {
  sc_faults : list (nat * answer);        (* the n-th request to arrive gets this answer, whatever it asks *)
  sc_table : list (request * answer)      (* otherwise by content; unknown requests get 404 *)
}.
Fixpoint assoc_nat (n : nat) (l : list (nat * answer)) : option answer :=
  match l with [] => None | (k, a) :: l' => if Nat.eqb n k then Some a else assoc_nat n l' end.
Fixpoint assoc_req (q : request) (l : list (request * answer)) : option answer :=
  match l with [] => None | (k, a) :: l' => if request_eqb q k then Some a else assoc_req q l' end.
Definition dir_of (sc : script) (n : nat) (q : request) : answer :=
  match assoc_nat n (sc_faults sc) with
  | Some a => a
  | None => match assoc_req q (sc_table sc) with Some a => a | None => AErr 404 end
  end.

Definition page_budget : nat := 1000.      (* no scripted group has that many pages *)

(* ---------- observations ---------- *)
Record cobs := mkcobs {
  co_hooks : list hook;
  co_req : option (nat * nat * request);   (* operation, arrival index, request *)
  co_done : option (nat * result)
}.
Record ccase := mkccase {
  cc_par : params;
  cc_sc : script;
  cc_evs : list sevent;
  cc_obs : list cobs;
  cc_blocked : nat            (* requests still unanswered when the sequence ended *)
}.
Definition case := ccase.

Definition opt_hooks (o : option obs) : list hook := match o with Some ob => o_hooks ob | None => [] end.
Definition project (o : sobs) : cobs :=
  mkcobs (match so_fin o with Some (_, _, _, ob) => o_hooks ob | None => [] end ++ opt_hooks (so_start o))
         (so_req o) (so_done o).

(* ---------- equality ---------- *)
Definition cerr_eqb (a b : cerr) : bool :=
  match a, b with
  | EOpen, EOpen | EBadRequest, EBadRequest | EGroupNotFound, EGroupNotFound | ERateLimit, ERateLimit
  | EUnavailable, EUnavailable | EOther, EOther => true
  | EApi c, EApi c' => c =? c'
  | _, _ => false
  end.
Definition result_eqb (a b : result) : bool :=
  match a, b with
  | ROk l, ROk l' => strs_eqb l l'
  | RSet l, RSet l' => forallb (fun x => mem_str x l') l && forallb (fun x => mem_str x l) l'   (* same set *)
  | RErr e, RErr e' => cerr_eqb e e'
  | _, _ => false
  end.
Definition req3_eqb (a b : nat * nat * request) : bool :=
  let '(o, n, q) := a in let '(o', n', q') := b in Nat.eqb o o' && Nat.eqb n n' && request_eqb q q'.
Definition done_eqb (a b : nat * result) : bool := Nat.eqb (fst a) (fst b) && result_eqb (snd a) (snd b).
Definition cobs_eqb (a b : cobs) : bool :=
  list_eqb hook_eqb (co_hooks a) (co_hooks b) && option_eqb req3_eqb (co_req a) (co_req b) &&
  option_eqb done_eqb (co_done a) (co_done b).

(* ---------- what an operation must return: direct-style reading of google_admin.go on the
   exchanges (request, answer) that operation had, in order ---------- *)
Inductive rout :=
| RAcc (l : list str)       (* went through, members so far *)
| RDone (r : result)        (* returned *)
| RPend                     (* wants to send its next request: nothing more was exchanged *)
| RWrong.                   (* the next exchange is not the request the code makes here *)

Fixpoint rp_members (nested : option (str -> list xchg -> rout * list xchg))
         (ms : list member) (acc : list str) (xs : list xchg) : rout * list xchg :=
  match ms with
  | [] => (RAcc acc, xs)
  | m :: ms' =>
      match mb_type m with
      | MUser => rp_members nested ms' (acc ++ [mb_email m]) xs
      | MOther => rp_members nested ms' acc xs
      | MGroup =>
          match nested with
          | None => rp_members nested ms' acc xs                 (* depth limit reached: skipped *)
          | Some rec =>
              match rec (mb_email m) xs with
              | (RAcc l, xs1) => rp_members nested ms' (acc ++ l) xs1
              | other => other
              end
          end
      end
  end.

Fixpoint rp_pages (nested : option (str -> list xchg -> rout * list xchg)) (g : str)
         (fuel : nat) (tok : str) (acc : list str) (xs : list xchg) : rout * list xchg :=
  match fuel with
  | O => (RDone (RErr EOther), xs)
  | S fuel' =>
      match xs with
      | [] => (RPend, [])
      | (q, a) :: xs' =>
          if request_eqb (RList g tok) q then
            match a with
            | AErr c => (RDone (RErr (list_err c)), xs')
            | ABad => (RDone (RErr EOther), xs')
            | AHas _ => (RAcc acc, xs')
            | AMembers ms next =>
                match rp_members nested ms acc xs' with
                | (RAcc acc', xs1) =>
                    if is_nil_str next then (RAcc acc', xs1) else rp_pages nested g fuel' next acc' xs1
                | other => other
                end
            end
          else (RWrong, xs)
      end
  end.

Fixpoint rp_group (F : nat) (d : nat) (g : str) (xs : list xchg) {struct d} : rout * list xchg :=
  rp_pages (match d with O => None | S d' => Some (fun e xs' => rp_group F d' e xs') end) g F [] [] xs.

Fixpoint rp_check (gs : list str) (email : str) (acc : list str) (xs : list xchg) : rout * list xchg :=
  match gs with
  | [] => (RDone (ROk acc), xs)
  | g :: gs' =>
      match xs with
      | [] => (RPend, [])
      | (q, a) :: xs' =>
          if request_eqb (RHas g email) q then
            match a with
            | AHas b => rp_check gs' email (if b then acc ++ [g] else acc) xs'
            | AMembers _ _ => rp_check gs' email acc xs'
            | AErr c => if c =? 404 then rp_check gs' email acc xs' else (RDone (RErr (check_err c)), xs')
            | ABad => (RDone (RErr EOther), xs')
            end
          else (RWrong, xs)
      end
  end.

Definition replay (F : nat) (o : op) (xs : list xchg) : rout * list xchg :=
  match o with
  | OList g d => match rp_group F d g xs with (RAcc l, xs1) => (RDone (ROk l), xs1) | other => other end
  | OCheck gs email => rp_check gs email [] xs
  | OValidate looks email =>
      match looks with
      | [] => (RDone (ROk []), xs)                     (* nothing asked: nothing sent *)
      | _ =>
          if looks_uncached looks then rp_check (map fst looks) email [] xs     (* the directory decides, for all groups *)
          else (RDone (ROk (map fst (filter (fun x => match snd x with Some set => mem_str email set | None => false end)
                                            looks))), xs)                        (* the cache decides, nothing sent *)
      end
  | OPopulate g => match rp_group F 4 g xs with (RAcc l, xs1) => (RDone (RSet l), xs1) | other => other end
  end.

Definition is_open_err (r : result) : bool := match r with RErr EOpen => true | _ => false end.

(* the operation returned [r] after exactly the exchanges [xs] *)
Definition result_ok (F : nat) (o : op) (xs : list xchg) (r : result) : bool :=
  match replay F o xs with
  | (RDone r', []) => negb (is_open_err r) && result_eqb r' r      (* exactly what the directory answered *)
  | (RPend, _) => is_open_err r          (* it was about to send a request: only a rejected Call ends it here *)
  | _ => false
  end.

(* ---------- the monitor ---------- *)
Record entry := mkentry {         (* an outstanding request, with its operation's history *)
  e_op : nat; e_idx : nat; e_req : request; e_o : op;
  e_hist : list xchg              (* all exchanges of that operation, this request included *)
}.
Record cmon := mkcmon {
  cm_mon : mon;                   (* breaker state as re-derived from the hooks (Corr_C15) *)
  cm_pend : list entry;           (* requests received and not answered, in arrival order *)
  cm_nreq : nat;
  cm_nops : nat
}.
Definition cmon_init : cmon := mkcmon mon_init [] 0 0.

(* after operation [opid] (history [xs]) has run on: either its next request arrived — then the
   breaker must have admitted a Call right now — or it returned *)
Definition cmon_after (p : params) (sc : script) (m1 : mon) (rest : list hook) (pend : list entry)
           (nreq nops opid : nat) (o : op) (xs : list xchg) (c : cobs) : option cmon :=
  match co_req c, co_done c with
  | Some (op', n, q), None =>
      if Nat.eqb op' opid && Nat.eqb n nreq then
        match mon_start p m1 (mkobs (Some true) true rest) with
        | Some m2 => Some (mkcmon m2 (pend ++ [mkentry opid n q o (xs ++ [(q, dir_of sc n q)])]) (S nreq) nops)
        | None => None
        end
      else None
  | None, Some (op', r) =>
      if Nat.eqb op' opid && result_ok page_budget o xs r then
        if is_open_err r then
          (* the breaker's error: a Call was rejected right now, nothing was sent *)
          match mon_start p m1 (mkobs (Some false) false rest) with
          | Some m2 => Some (mkcmon m2 pend nreq nops)
          | None => None
          end
        else if is_nil rest then Some (mkcmon m1 pend nreq nops) else None   (* no Call: no hook *)
      else None
  | _, _ => None
  end.

Definition cmon_step (p : params) (sc : script) (m : cmon) (e : sevent) (c : cobs) : option cmon :=
  match e with
  | Begin o =>
      cmon_after p sc (cm_mon m) (vis (co_hooks c)) (cm_pend m) (cm_nreq m) (S (cm_nops m)) (cm_nops m) o [] c
  | Answer i =>
      match nth_error (cm_pend m) i with
      | None =>
          match co_hooks c, co_req c, co_done c with [], None, None => Some m | _, _, _ => None end
      | Some en =>
          (* the answer is reported to the breaker now, as success iff it is one *)
          let ok := ans_ok (dir_of sc (e_idx en) (e_req en)) in
          match mon_finish_k p (cm_mon m) i ok (vis (co_hooks c)) with
          | None => None
          | Some (m1, rest) =>
              cmon_after p sc m1 rest (remove_nth i (cm_pend m)) (cm_nreq m) (cm_nops m) (e_op en) (e_o en) (e_hist en) c
          end
      end
  | STick dt =>
      match co_hooks c, co_req c, co_done c with
      | [], None, None =>
          let mm := cm_mon m in
          Some (mkcmon (mkmon (m_st mm) (m_epoch mm) (m_infl mm) (m_succ mm) (m_fail mm) (m_deadline mm) (m_now mm + dt))
                       (cm_pend m) (cm_nreq m) (cm_nops m))
      | _, _, _ => None
      end
  end.

Fixpoint cmon_run (p : params) (sc : script) (m : cmon) (evs : list sevent) (cs : list cobs) : option cmon :=
  match evs, cs with
  | [], [] => Some m
  | e :: evs', c :: cs' =>
      match cmon_step p sc m e c with Some m' => cmon_run p sc m' evs' cs' | None => None end
  | _, _ => None
  end.

Definition cholds (p : params) (sc : script) (evs : list sevent) (cs : list cobs) (blocked : nat) : bool :=
  match cmon_run p sc cmon_init evs cs with
  | Some m => Nat.eqb blocked (length (cm_pend m))
  | None => false
  end.

(* ---------- model prediction, judgement ---------- *)
Definition cmodel_trace (p : params) (sc : script) (evs : list sevent) : list cobs :=
  map project (strace (trip_of p) (reset_of p) (backoff_of p) (p_hom p) page_budget (dir_of sc) evs).
Definition cmodel_final (p : params) (sc : script) (evs : list sevent) : sys :=
  sexec (trip_of p) (reset_of p) (backoff_of p) (p_hom p) page_budget (dir_of sc) evs.

Definition judge (c : case) : N :=
  let p := cc_par c in
  let agree := list_eqb cobs_eqb (cmodel_trace p (cc_sc c) (cc_evs c)) (cc_obs c) &&
               Nat.eqb (length (pend (cmodel_final p (cc_sc c) (cc_evs c)))) (cc_blocked c) in
  code (negb agree) (cholds p (cc_sc c) (cc_evs c) (cc_obs c) (cc_blocked c)) 0%N.

(* ---------- classes ---------- *)
Definition chooks (cs : list cobs) : list hook := flat_map co_hooks cs.
Definition has_chook (h : hook) (cs : list cobs) : bool := existsb (hook_eqb h) (chooks cs).
Definition ended_open (c : cobs) : bool :=
  match co_done c with Some (_, r) => is_open_err r | None => false end.
Definition follow_up_page (c : cobs) : bool :=
  match co_req c with Some (_, _, RList _ (_ :: _)) => true | _ => false end.
Definition ended_ok (c : cobs) : bool :=
  match co_done c with Some (_, ROk _) => true | _ => false end.

Definition classify (c : case) : N :=
  let cs := cc_obs c in
  ((if has_chook (HState Closed Open) cs then 1 else 0) +
   (if has_chook (HState Open HalfOpen) cs then 2 else 0) +
   (if has_chook (HState HalfOpen Closed) cs then 4 else 0) +
   (if has_chook (HState HalfOpen Open) cs then 8 else 0) +
   (if existsb ended_open cs then 16 else 0) +
   (if existsb follow_up_page cs then 32 else 0) +
   (if existsb ended_ok cs then 64 else 0))%N.
