(* Corr_C12.v — what the correspondence shards import: the comparison and the monitor for C12
   (Corr_C12_defs.v: case, judge, classify) and the functions that unpack the string literals of a case.
   No proofs here. *)
From Coq Require Export Uint63.
From V Require Export Base CorrBase Signer Gen_Signer Corr_C12_defs.

(* Strings are emitted packed, seven bytes per primitive 63-bit integer, little-endian (coqc parses a
   primitive integer literal an order of magnitude faster than seven numerals of type N):
   [pk rem [i1; ...; ik]] = 7 bytes of each of i1 .. i(k-1), then [rem] bytes of ik;
   [pkc rem [chunk; ...]] = the same for a long string written as a list of short chunks. *)
Fixpoint unpack7 (k : nat) (i : int) : str :=
  match k with
  | O => []
  | S k' => Z.to_N (Uint63.to_Z (Uint63.land i 255%uint63)) :: unpack7 k' (Uint63.lsr i 8%uint63)
  end.
Fixpoint pk (rem : nat) (l : list int) : str :=
  match l with
  | [] => []
  | [i] => unpack7 rem i
  | i :: t => unpack7 7 i ++ pk rem t
  end.
Definition pkc (rem : nat) (l : list (list int)) : str := pk rem (concat l).
