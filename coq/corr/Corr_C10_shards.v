(* Corr_C10_shards.v — what the case shards of C10 import: Corr_C10 (case, judge, classify) plus the
   reader for packed byte strings.  Kept apart from Corr_C10.v so that no theorem file depends on
   the primitive-integer library (whose specification axioms coqchk would otherwise list in the
   closure of props/C10.vo).  No proofs here; no theorem mentions [U]. *)
From Coq Require Export Uint63.
From V Require Export Base CorrBase IdToken Corr_C10.

(* Case shards carry every byte string as [U [i1; i2; ...]%uint63]: seven bytes per primitive
   integer under a leading 1 (0x01 b1 .. b7).  Reading a shard of N-literal lists costs coqc
   ~100 us per byte (number-notation interpretation); primitive integers are read 20 times faster. *)
Fixpoint byte_n (fuel : nat) (i : Uint63.int) : N :=
  match fuel with
  | O => 0
  | S f => (if Uint63.eqb (Uint63.land i 1%uint63) 0%uint63 then 0 else 1) + 2 * byte_n f (Uint63.lsr i 1%uint63)
  end.
Fixpoint chunk (fuel : nat) (i : Uint63.int) (acc : str) : str :=
  match fuel with
  | O => acc
  | S f => if Uint63.eqb i 1%uint63 then acc
           else chunk f (Uint63.lsr i 8%uint63) (byte_n 8 (Uint63.land i 255%uint63) :: acc)
  end.
Definition U (l : list Uint63.int) : str := flat_map (fun i => chunk 8 i []) l.
