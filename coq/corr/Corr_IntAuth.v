(* Corr_IntAuth.v — comparison and monitor for the INTEGRATION model of sso-auth (AuthAll.v).
   One case = one real request served by auth.NewAuthenticatorMux (or a short history of them),
   with everything the driver observed. [agree] compares the model's prediction with the
   observation on projected observables; [holds] states the composite end-to-end clauses on the
   observation and the GENERATOR's bookkeeping ([ghost]: what it signed, sealed and placed where),
   never on the model's own parse of the request. No proofs here. *)
From V Require Export Base CorrBase AuthAll.
From V Require Corr_C07 Corr_C09 Corr_C20 Json.
Local Open Scope N_scope.

(* ---- oracle tables (first-order descriptions of the function-valued oracles) ---- *)
Fixpoint assoc {A} (k : str) (t : list (str * A)) : option A :=
  match t with [] => None | (a, b) :: t' => if str_eqb k a then Some b else assoc k t' end.

Record otab := {
  t_open : list (str * (N * B.session));        (* real ciphers: string -> key name, session *)
  t_tag : list (str * (str * str));             (* real HMAC: bytes -> (key, message) *)
  t_parse : list (str * option str);            (* url.Parse(x).String() *)
  t_nested : list (str * (str * str * str));    (* Parse(x).Query(): redirect_uri, sig, ts *)
  t_query_bad : list str                        (* x with url.ParseQuery(Parse(x).RawQuery) failing *)
}.
Definition oracles_of (t : otab) : oracles :=
  {| o_open := fun s => assoc s (t_open t);
     o_tag := fun b => match assoc b (t_tag t) with Some (k, m) => G.Mac k m | None => G.Raw b end;
     o_parse_string := fun s => match assoc s (t_parse t) with Some r => r | None => None end;
     o_nested := fun s => match assoc s (t_nested t) with Some r => r | None => ([], [], []) end;
     o_query_ok := fun s => negb (mem_str s (t_query_bad t)) |}.

Definition mk_answers (rr : F.refresh_reply) (vr : F.validate_reply) (tok : T.answer T.tok_fields)
    (ui : T.answer T.user_fields) (ptab : list (str * T.body T.user_fields)) (rv : S.idp_answer)
    (gr : B.groups_answer) (nonce : str) (st : N) : answers :=
  {| an_refresh := rr; an_validate := vr; an_tok := tok; an_ui := ui;
     an_payload := fun b => match assoc b ptab with Some x => x | None => T.NotJSON end;
     an_revoke := rv; an_groups := gr; an_nonce := nonce; an_static := st |}.

(* ---- observations ---- *)
Inductive oloc :=
| OLNone
| OLText (loc : str)                                       (* Location, verbatim *)
| OLCode (head : str) (code : option F.session) (state : str)
    (* Location with a code parameter: the text before '?', the code opened under the auth-code
       key by the real cipher, the state parameter *)
| OLIdP (state_plain : option str).                        (* Location at the IdP: its state, base64-decoded *)

Inductive obody :=
| OBEmpty
| OBErrPage (real : str) (cut_a cut_b : N) (mid : str)
    (* error.html: the bytes served; the benign rendering of the same template (same code, plain
       text) is real[0,cut_a) ++ mid ++ real[cut_b,..) — computed and checked by the driver;
       real = [] when the page was not sampled *)
| OBErrJson (doc : str)                                     (* application/json error document *)
| OBSignIn
| OBSignOut (email uri sg ts : str) (with_message : bool)   (* sign_out.html: the fields it shows *)
| OBJson (b : B.body)                                       (* back-channel JSON, decoded *)
| OBPlain                                                   (* text/plain *)
| OBRedirect
| OBRobots
| OBStatic
| OBOther.

Record obs := {
  ob_status : N;
  ob_loc : oloc;
  ob_sess : list F.cookie_op;        (* session-cookie Set-Cookie lines, opened under the cookie key *)
  ob_csrf : list F.set_cookie;       (* CSRF Set-Cookie lines: value, already expired *)
  ob_calls : list call;              (* what the fake IdP received *)
  ob_body : obody;
  ob_hdrs : list (str * list str)    (* response header values for the keys of the security table *)
}.

(* ---- what the generator knows about the request it built ---- *)
Inductive groute := RtOutside | RtStart | RtSignIn | RtSignOut | RtCallback | RtBack (h : B.handler) | RtUnknownPath.

Record ghost := {
  g_route : groute;                  (* where it aimed (RtOutside: wrong host / outside every slug) *)
  g_kind : akind;
  g_method : str;
  g_ids : list str; g_secrets : list str;     (* every client id / secret value it put anywhere *)
  g_uri : str; g_sig : G.sigval; g_ts : str;  (* redirect_uri / sig (as it built it) / ts; for /start the nested ones *)
  g_outer : str;                     (* /start: the outer redirect_uri it sent, as url.Parse(..).String() *)
  g_state : str;
  g_cookie : F.cookie;               (* the session cookie it presented, as it sealed it *)
  g_csrf : option str;
  g_cb_state : option str;           (* /callback: plaintext it base64-encoded into state (None: not base64) *)
  g_cb_code : str;
  g_vouched : option str;            (* /callback: the e-mail the scripted IdP vouches for, if any *)
  g_code : option (N * B.session);   (* /redeem: key name and session of the code it sent *)
  g_from : option nat                (* histories: index of the step that issued what is presented *)
}.

(* ---- projection of the model's response ---- *)
Definition close_z := Corr_C09.close_z.
Definition sess_close := Corr_C09.sess_close.
Definition op_close := Corr_C09.op_close.

Definition sc_eqb (a b : F.set_cookie) : bool :=
  str_eqb (F.sc_value a) (F.sc_value b) && bool_eqb (F.sc_expired a) (F.sc_expired b).

Definition call_eqb (a b : call) : bool :=
  match a, b with
  | CIdp x, CIdp y => F.idp_call_eqb x y
  | CRevoke x, CRevoke y => str_eqb x y
  | _, _ => false
  end.

Definition next_is_delim := Corr_C07.next_is_delim.

Definition loc_agree (d : deployment) (m : location) (o : oloc) : bool :=
  match m, o with
  | LNone, OLNone => true
  | LVerbatim src, OLText t => str_eqb (Url.hex_escape_non_ascii src) t
  | LClean p, OLText t => str_eqb p t
  | LCode src s, OLCode head (Some s') _ =>
      sess_close s s' &&
      match G.location_prefix (gcfg d) (G.ORedirect src G.WithCode) with
      | Some pre => next_is_delim head pre
      | None => false
      end
  | LIdP st, OLIdP (Some st') => str_eqb st st'
  | _, _ => false
  end.

Definition zopt_eqb (a b : option Z) : bool :=
  match a, b with None, None => true | Some x, Some y => Z.eqb x y | _, _ => false end.
(* expires_in is computed from the clock during the request *)
Definition zopt_close (m o : option Z) : bool :=
  match m, o with None, None => true | Some x, Some y => close_z (y + 32)%Z (x + 30)%Z || close_z y x | _, _ => false end.

Definition bbody_agree (m o : B.body) : bool :=
  option_eqb str_eqb (B.b_access m) (B.b_access o) && option_eqb str_eqb (B.b_refresh m) (B.b_refresh o) &&
  option_eqb str_eqb (B.b_email m) (B.b_email o) && zopt_close (B.b_expires m) (B.b_expires o) &&
  option_eqb strs_eqb (B.b_groups m) (B.b_groups o).

Definition body_agree (m : body) (o : obody) : bool :=
  match m, o with
  | BEmpty, OBEmpty => true
  | BErrPage _, OBErrPage _ _ _ _ => true
  | BErrJson _, OBErrJson _ => true
  | BSignInPage, OBSignIn => true
  | BSignOutPage e u s t w, OBSignOut e' u' s' t' w' =>
      str_eqb e e' && str_eqb u u' && str_eqb s s' && str_eqb t t' && bool_eqb w w'
  | BJson b, OBJson b' => bbody_agree b b'
  | BPlain, OBPlain => true
  | BRedirect, OBRedirect => true
  | BRedirect, OBEmpty => true          (* http.Redirect writes its stub only for GET / HEAD *)
  | BRobots, OBRobots => true
  | BStatic, _ => true                  (* content of the embedded file system is not modelled *)
  | _, _ => false
  end.

Definition AT := Gen_Headers.auth_security_headers.

Definition hval_str (v : H.hval) : str := match v with H.VStr s => s | H.VCookie _ => [] end.
Definition hdrs_agree (r : response) (o : list (str * list str)) : bool :=
  match r_body r with BStatic => true | _ => false end ||   (* what the embedded file server sets is not modelled *)
  forallb (fun kv => let k := H.canon (fst kv) in
                     match assoc k o with
                     | Some vs => strs_eqb (map hval_str (H.hget k (headers_of r))) vs
                     | None => false
                     end) AT.

Definition agree (d : deployment) (m : response) (o : obs) : bool :=
  N.eqb (r_status m) (ob_status o) && loc_agree d (r_loc m) (ob_loc o) &&
  list_eqb op_close (r_sess_ops m) (ob_sess o) && list_eqb sc_eqb (r_csrf_ops m) (ob_csrf o) &&
  list_eqb call_eqb (r_calls m) (ob_calls o) && body_agree (r_body m) (ob_body o) &&
  hdrs_agree m (ob_hdrs o).

(* ---- the property on observations ---- *)
Section Spec.
Variable lower : str -> str.

Definition is_some {A} (o : option A) : bool := match o with Some _ => true | None => false end.
Definition isnil {A} (l : list A) : bool := match l with [] => true | _ => false end.

Definition in_domain_uri (d : deployment) (u : str) : bool := Corr_C07.rfc_in_domain u (d_proxy_domains d).
Definition sig_ok (d : deployment) (now_ns : Z) (g : ghost) : bool :=
  Corr_C07.sig_spec now_ns (g_uri g) (g_sig g) (g_ts g) (d_client_secret d).
Definition id_shown (d : deployment) (g : ghost) : bool := mem_str (d_client_id d) (g_ids g).
Definition secret_shown (d : deployment) (g : ghost) : bool := mem_str (d_client_secret d) (g_secrets g).
Definition is_get (g : ghost) : bool := str_eqb (g_method g) B.m_get.
Definition is_post (g : ghost) : bool := str_eqb (g_method g) B.m_post.

Definition flow_calls (cs : list call) : list F.idp_call :=
  flat_map (fun c => match c with CIdp x => [x] | CRevoke _ => [] end) cs.
Definition revoked (cs : list call) : list str :=
  flat_map (fun c => match c with CRevoke t => [t] | CIdp _ => [] end) cs.

Definition has_clear (ops : list F.cookie_op) : bool :=
  existsb (fun op => match op with F.OpClear => true | _ => false end) ops.
Definition sets (ops : list F.cookie_op) : list F.session :=
  flat_map (fun op => match op with F.OpSet s => [s] | F.OpClear => [] end) ops.

(* INT_code_end_to_end on observations: a Location carrying code= only from GET /sign_in with the
   client id shown, redirect_uri in a root domain under the RFC reading (and so is the Location
   written), signature valid and fresh, cookie a seal under the cookie key within its lifetime,
   IdP confirmation in THIS request (observed call log), e-mail passing the rule; the code opens
   under the auth-code key to the presented session (lifetime, owner, refresh token unchanged). *)
Definition code_holds (d : deployment) (now_ns : Z) (an : answers) (g : ghost) (o : obs) : bool :=
  match ob_loc o with
  | OLCode head code st =>
      match g_route g with
      | RtSignIn =>
          Corr_C09.spec_code_allowed lower (fcfg d) (fkind (g_kind g)) (now_ns / ns)%Z
            (F.mkSI (is_get g) (id_shown d g) (in_domain_uri d (g_uri g)) (sig_ok d now_ns g) (g_state g))
            (g_cookie g) (an_refresh an) (an_validate an) (flow_calls (ob_calls o)) &&
          negb (isnil (g_state g)) && str_eqb st (g_state g) &&
          in_domain_uri d head && N.eqb (ob_status o) 302 &&
          match code with
          | Some s => Corr_C09.derived_from (now_ns / ns)%Z (g_cookie g) s
          | None => false
          end
      | _ => false
      end
  | _ => true
  end.

(* every session cookie that is SET: by /callback for a login the IdP vouched for, bound to the
   browser's CSRF nonce, with a re-validated redirect; or by /sign_in as a re-save of the
   presented session; by nothing else *)
Definition login_holds (d : deployment) (now_ns : Z) (g : ghost) (o : obs) : bool :=
  match sets (ob_sess o) with
  | [] => true
  | ss =>
      match g_route g with
      | RtCallback =>
          match ss, g_cb_state g with
          | [s], Some plain =>
              match Corr_C09.nonce_and_redirect plain with
              | Some (nonce, redirect) =>
                  is_get g && option_eqb str_eqb (g_csrf g) (Some nonce) && in_domain_uri d redirect &&
                  match ob_loc o with OLText t => str_eqb t (Url.hex_escape_non_ascii redirect) | _ => false end &&
                  option_eqb str_eqb (g_vouched g) (Some (F.s_email s)) && negb (isnil (F.s_email s)) &&
                  Corr_C09.spec_rule lower (fcfg d) (F.s_email s) &&
                  existsb (F.idp_call_eqb (F.CallRedeem (g_cb_code g))) (flow_calls (ob_calls o)) &&
                  close_z (F.s_lifetime s) ((now_ns / ns) + d_lifetime d)%Z &&
                  N.eqb (ob_status o) 302 &&
                  existsb (fun c => F.sc_expired c) (ob_csrf o)
              | None => false
              end
          | _, _ => false
          end
      | RtSignIn => forallb (Corr_C09.derived_from (now_ns / ns)%Z (g_cookie g)) ss
      | _ => false
      end
  end.

(* INT_backchannel (a): the token endpoints act only for a caller who showed both credentials *)
Definition obody_has_field (b : obody) : bool := match b with OBJson x => has_field x | _ => false end.
Definition back_holds (d : deployment) (now_ns : Z) (g : ghost) (o : obs) : bool :=
  match g_route g with
  | RtBack h =>
      (if id_shown d g && secret_shown d g then true
       else isnil (ob_calls o) && negb (obody_has_field (ob_body o)) &&
            (N.eqb (ob_status o) 401 || N.eqb (ob_status o) 405 || (N.eqb (ob_status o) 500 && negb (d_pre d)))) &&
      match h with
      | B.HRedeem =>
          isnil (ob_calls o) &&
          if N.eqb (ob_status o) 200 then
            is_post g &&
            match g_code g, ob_body o with
            | Some (k, s), OBJson b =>
                N.eqb k (d_code_key d) &&
                option_eqb str_eqb (B.b_access b) (Some (B.s_access s)) &&
                option_eqb str_eqb (B.b_refresh b) (Some (B.s_refresh_tok s)) &&
                option_eqb str_eqb (B.b_email b) (Some (B.s_email s)) &&
                ((now_ns / ns) <=? B.s_refresh_dl s + 2)%Z && ((now_ns / ns) <=? B.s_lifetime_dl s + 2)%Z
            | _, _ => false
            end
          else negb (obody_has_field (ob_body o))
      | _ => if (200 <=? ob_status o) && (ob_status o <? 300) then true else negb (obody_has_field (ob_body o))
      end
  | _ => negb (obody_has_field (ob_body o))
  end.

(* INT_backchannel (b): every response from inside an authenticator carries the security table *)
Definition inside (g : ghost) : bool := match g_route g with RtOutside => false | _ => true end.
Definition hdrs_hold (g : ghost) (o : obs) : bool :=
  if inside g then
    forallb (fun kv => match assoc (H.canon (fst kv)) (ob_hdrs o) with
                       | Some vs => strs_eqb vs [snd kv]
                       | None => false
                       end) AT
  else true.

(* INT_backchannel (c): error bodies are inert HTML / well-formed JSON *)
Definition benign_of (real : str) (a b : N) (mid : str) : str :=
  firstn (N.to_nat a) real ++ mid ++ skipn (N.to_nat b) real.
Definition body_holds (o : obs) : bool :=
  match ob_body o with
  | OBErrPage real a b mid => isnil real || Corr_C20.page_inert real (benign_of real a b mid)
  | OBErrJson doc => Json.json_error_doc_ok doc
  | _ => true
  end.

(* INT_signout: C19's clauses through the real gate order *)
Definition signout_gates (d : deployment) (now_ns : Z) (g : ghost) : bool :=
  in_domain_uri d (g_uri g) && sig_ok d now_ns g.
Definition signout_holds (d : deployment) (now_ns : Z) (an : answers) (g : ghost) (o : obs) : bool :=
  match g_route g with
  | RtSignOut =>
      (* anything revoked: a valid confirmed POST presenting the owning session *)
      (match revoked (ob_calls o) with
       | [] => true
       | [tok] =>
           is_post g && signout_gates d now_ns g &&
           match g_cookie g with
           | F.CkSealed F.KCookie s => str_eqb tok (S.revoke_token (sprov (g_kind g)) (to_as s))
           | _ => false
           end
       | _ => false
       end) &&
      (* the cookie is cleared only on a valid POST, together with the redirect back, and for a
         loadable session only after the IdP confirmed the revocation *)
      (if has_clear (ob_sess o) then
         is_post g && signout_gates d now_ns g && N.eqb (ob_status o) 302 &&
         match g_cookie g with
         | F.CkSealed F.KCookie s =>
             S.revoke_ok (sprov (g_kind g)) (an_revoke an) && negb (isnil (revoked (ob_calls o)))
         | F.CkNone => false
         | _ => isnil (revoked (ob_calls o))
         end
       else true) &&
      (* a redirect only behind both gates, to the signed URI *)
      (match ob_loc o with
       | OLNone => true
       | OLText t => signout_gates d now_ns g && str_eqb t (Url.hex_escape_non_ascii (g_uri g)) && in_domain_uri d t
       | _ => false
       end)
  | _ => isnil (revoked (ob_calls o))
  end.

(* /start: a login is started at the IdP only for validated outer and nested URIs, the nested
   one signed and fresh; /callback forwards only a re-validated URI; nothing else redirects *)
Definition redirect_holds (d : deployment) (now_ns : Z) (g : ghost) (o : obs) : bool :=
  match ob_loc o, g_route g with
  | OLNone, _ => true
  | OLIdP st, RtStart =>
      is_get g && in_domain_uri d (g_outer g) && in_domain_uri d (g_uri g) && sig_ok d now_ns g &&
      match st, ob_csrf o with
      | Some plain, [c] => negb (F.sc_expired c) && negb (isnil (F.sc_value c)) &&
                           str_eqb plain (F.sc_value c ++ F.colon :: g_outer g)
      | _, _ => false
      end
  | OLIdP _, _ => false
  | OLCode _ _ _, _ => true                                      (* code_holds *)
  | OLText t, RtCallback => in_domain_uri d t && negb (isnil (sets (ob_sess o)))
  | OLText t, RtSignOut => true                                  (* signout_holds *)
  | OLText t, _ => N.eqb (ob_status o) 301                       (* only gorilla's clean-path redirect *)
  end.

(* outside every authenticator nothing happens *)
Definition outside_holds (g : ghost) (o : obs) : bool :=
  match g_route g with
  | RtOutside | RtUnknownPath =>
      isnil (ob_sess o) && isnil (ob_csrf o) && isnil (ob_calls o) &&
      match ob_loc o with OLNone => true | OLText _ => N.eqb (ob_status o) 301 | _ => false end
  | _ => true
  end.

Definition holds (d : deployment) (now_ns : Z) (an : answers) (g : ghost) (o : obs) : bool :=
  code_holds d now_ns an g o && login_holds d now_ns g o && back_holds d now_ns g o &&
  hdrs_hold g o && body_holds o && signout_holds d now_ns an g o && redirect_holds d now_ns g o &&
  outside_holds g o.

End Spec.

(* ---- cases ---- *)
Record step := {
  st_q : request; st_tab : otab; st_an : answers; st_now : Z; st_ghost : ghost; st_obs : obs
}.

Inductive case :=
| CReq (ltab : list (str * str)) (d : deployment) (s : step)
| CHist (ltab : list (str * str)) (d : deployment) (steps : list step).

Definition step_agree (lower : str -> str) (d : deployment) (s : step) : bool :=
  agree d (serve lower d (st_q s) (oracles_of (st_tab s)) (st_an s) (st_now s)) (st_obs s).
Definition step_holds (lower : str -> str) (d : deployment) (s : step) : bool :=
  holds lower d (st_now s) (st_an s) (st_ghost s) (st_obs s).

(* history links: what a later step presents was issued by an earlier one *)
Definition link_holds (steps : list step) (s : step) : bool :=
  match g_from (st_ghost s) with
  | None => true
  | Some i =>
      match nth_error steps i with
      | None => false
      | Some src =>
          match g_route (st_ghost s) with
          | RtBack B.HRedeem =>
              (* a redeemed code is the one the earlier /sign_in put into its Location, and the
                 answer is that session's *)
              if N.eqb (ob_status (st_obs s)) 200 then
                match ob_loc (st_obs src), ob_body (st_obs s) with
                | OLCode _ (Some cs) _, OBJson b =>
                    option_eqb str_eqb (B.b_email b) (Some (F.s_email cs)) &&
                    option_eqb str_eqb (B.b_access b) (Some (F.s_access cs)) &&
                    option_eqb str_eqb (B.b_refresh b) (Some (F.s_rtok cs))
                | _, _ => false
                end
              else true
          | RtSignIn =>
              (* a code issued for a cookie an earlier step set: same owner, same lifetime *)
              match ob_loc (st_obs s) with
              | OLCode _ (Some cs) _ =>
                  existsb (fun s0 => str_eqb (F.s_email cs) (F.s_email s0) &&
                                     Z.eqb (F.s_lifetime cs) (F.s_lifetime s0))
                          (sets (ob_sess (st_obs src)))
              | _ => true
              end
          | _ => true
          end
      end
  end.

Definition lower_tab := Corr_C09.lower_tab.
Definition rule_guard (lower : str -> str) (d : deployment) : bool := Corr_C09.rule_guard lower (fcfg d).

Definition judge (c : case) : N :=
  match c with
  | CReq lt d s =>
      let lower := lower_tab lt in
      code (negb (step_agree lower d s)) (negb (rule_guard lower d) || step_holds lower d s) 0
  | CHist lt d steps =>
      let lower := lower_tab lt in
      code (negb (forallb (step_agree lower d) steps))
           (negb (rule_guard lower d) || (forallb (step_holds lower d) steps && forallb (link_holds steps) steps)) 0
  end.

(* classes: 100 * route + response class; histories 5000 + length *)
Definition route_no (g : ghost) : N :=
  match g_route g with
  | RtOutside => 0 | RtUnknownPath => 9 | RtStart => 1 | RtSignIn => 2 | RtSignOut => 3 | RtCallback => 4
  | RtBack B.HProfile => 5 | RtBack B.HValidate => 6 | RtBack B.HRedeem => 7 | RtBack B.HRefresh => 8
  end.
Definition obs_class (o : obs) : N :=
  match ob_loc o with
  | OLCode _ _ _ => 1
  | OLIdP _ => 2
  | OLText _ => 3
  | OLNone =>
      match ob_status o with
      | 200 => 4 | 201 => 5 | 400 => 10 | 401 => 11 | 403 => 12 | 404 => 13 | 405 => 14 | 421 => 15
      | 429 => 16 | 500 => 17 | 503 => 18 | _ => 19
      end
  end + (if isnil (ob_sess o) then 0 else 20) + (if isnil (ob_calls o) then 0 else 40).
Definition classify (c : case) : N :=
  match c with
  | CReq _ _ s => 100 * route_no (st_ghost s) + obs_class (st_obs s)
  | CHist _ _ steps => 5000 + N.of_nat (length steps)
  end.
