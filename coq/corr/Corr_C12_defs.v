(* Corr_C12_defs.v — comparison and monitor for C12 (request signatures verify over what the upstream received).

   A case is one socket round trip client -> sso-proxy -> backend.  It carries the request as the
   proxy's net/http server parsed it ([r0]; http.ReadRequest on the bytes sent), the session identity,
   the Request.Cookies() oracle, the body the client sent, the request the backend RECEIVED, the two
   canonical strings the implementation computes on the received request (mapRequestToHashInput,
   hmacauth StringToSign), and the verification verdicts computed in Go with the real primitives:
   RSA-PKCS1v15/SHA-256 under the key published at /oauth2/v1/certs for the received kid, and
   hmacauth.AuthenticateRequest.  No proofs here.
   (corr/Corr_C12.v re-exports this file together with the unpacking functions for case literals, which use
   primitive integers; they are kept out of this file so that the closure of props/C12.v stays free of the
   axioms the standard library states about Uint63.) *)
From V Require Export Base CorrBase Signer Gen_Signer.

Record obs_req := {
  o_proto : str;            (* r.Proto in the upstream's handler *)
  o_method : str;
  o_headers : headers;      (* r.Header in the upstream's handler (after its server's own processing), keys sorted *)
  o_path : str;
  o_rawquery : str;
  o_body : str
}.

(* A world = one sso-proxy instance: what the deployer wrote (service name, SSO_CONFIG_* variables as
   (NAME, value) pairs, options) and the oracle [w_algs] = the hash names hmacauth accepts in this binary. *)
Record world := {
  w_signer : option N;
  w_algs : list str;
  w_service : str;
  w_environ : list (str * str);
  w_skip : bool;
  w_inject : list (str * str);
  w_cookie_name : str;
  w_thost : str
}.

(* the configuration the MODEL derives from it (proxy_config.go:213-230, 427-445) *)
Definition cfg_of_world (w : world) : cfg :=
  {| c_signer := w_signer w;
     c_hmac := match hmac_of_config (w_algs w) (w_service w) (w_environ w) with HmacOn k => Some k | _ => None end;
     c_skip := w_skip w; c_pass_token := false; c_inject := w_inject w;
     c_cookie_name := w_cookie_name w; c_preserve_host := false;
     c_thost := w_thost w; c_tpath := []; c_tquery := [] |}.

(* the DOCUMENTED rule (docs/sso_config.md "Request Signing"), written independently: the variable
   SSO_CONFIG_{{SERVICE}}_SIGNING_KEY (upper-cased service name, i.e. matched without regard to case)
   holds `algorithm:secret_value`; the secret is the shared key. *)
Fixpoint cut_colon (s : str) : option (str * str) :=
  match s with
  | [] => None
  | c :: s' => if N.eqb c 58 then Some ([], s')
               else match cut_colon s' with Some (a, b) => Some (c :: a, b) | None => None end
  end.
Definition doc_hmac (w : world) : hmac_config :=
  let name := lower_ascii (clean_ws (w_service w) ++ signing_key_suffix) in
  match find (fun e => str_eqb (lower_ascii (fst e)) name) (w_environ w) with
  | None => HmacOff
  | Some (_, spec) =>
      match cut_colon spec with
      | Some (a, secret) => if existsb (N.eqb 58) secret then HmacConfigError
                            else if mem_str a (w_algs w) then HmacOn secret else HmacConfigError
      | None => HmacConfigError
      end
  end.

Inductive case :=
| CFwd (w : world) (vkey : str) (ident : option identity) (r0 : request) (parsed : list (str * str)) (sent_body : str)
       (recv : obs_req) (impl_rsa impl_hmac : str)
       (v_rsa : option bool) (v_kid : bool) (v_hmac : N)
| CNotFwd (expected_forward : bool) (status : N)
| CCfg (w : world) (start_error : bool).

(* the code's lists, re-extracted from the source on every run *)
Definition gen_cov : list str := signedHeaders.
Definition gen_covh : list str := hmac_names SignatureHeaders.
(* Bodies above a megabyte (the driver sends a few of 33-40 MiB) are not materialised at all: a list of
   34 million bytes costs coqc gigabytes per copy. They are ABSTRACTED by a short stand-in that is an
   injective function of the generator term the driver used (prefix, byte, length): every place of the case
   whose bytes the driver found equal to the body sent refers to the one stand-in, a place that differs is
   written out (abbreviated). This is sound for [judge] because neither the model nor the monitor looks
   inside a body or at its length — they compare and concatenate it (the Content-Length the transport writes
   comes from the [r_clen] field, which carries the TRUE length) — and the verification verdicts are
   computed by the driver with the real primitives over the real bytes. Trusted like SEALED/SIG/MAC. *)
Definition big_body (p : str) (c : N) (n : N) : str :=
  [60;98;111;100;121;32] ++ p ++ [32] ++ [c] ++ [32;42;32] ++ dec n ++ [62]. (* "<body " p " " c " * " n ">" *)

(* a long body written compactly by the driver: a prefix, then one byte repeated, [n] bytes in all *)
Definition fill (p : str) (c : N) (n : N) : str := p ++ repeat c (N.to_nat n - length p).

Definition loopback : str := [49;50;55;46;48;46;48;46;49]. (* "127.0.0.1" *)

(* the received request as an upstream handler has it: Body non-nil, no fragment *)
Definition of_obs (o : obs_req) : request :=
  {| r_method := o_method o; r_host := []; r_headers := o_headers o; r_path := o_path o;
     r_rawquery := o_rawquery o; r_fragment := []; r_body := Some (o_body o); r_chunked := false; r_clen := 0;
     r_sso_sig := None; r_kid := None; r_gap_sig := None |}.

Definition has_header (k : str) (h : headers) : bool := negb (is_empty (hvals k h)).

(* ---- the property on observations (independent of the model of the chain) ----
   signing enabled => the received request carries a signature that the upstream verifies, under the
   published key named by kid, over the DOCUMENTED canonical form of what it received; likewise the
   HMAC; and the body arrived intact. *)
Definition signing_on (c : cfg) : bool := negb (c_skip c).
Definition holds_rsa (c : cfg) (recv : obs_req) (impl_rsa : str) (v_rsa : option bool) (v_kid : bool) : bool :=
  match c_signer c with
  | Some _ => negb (signing_on c) ||
              (option_eqb bool_eqb v_rsa (Some true) && v_kid &&
               str_eqb (canon_rsa documented_covered (of_obs recv)) impl_rsa)
  | None => true
  end.
(* [v_hmac] is hmacauth.AuthenticateRequest at the upstream, keyed with the secret the deployer wrote *)
Definition holds_hmac (w : world) (recv : obs_req) (impl_hmac : str) (v_hmac : N) : bool :=
  match doc_hmac w with
  | HmacOn _ => w_skip w ||
                (N.eqb v_hmac 3 && str_eqb (canon_hmac documented_covered (of_obs recv)) impl_hmac)
  | _ => true
  end.
Definition holds_body (sent_body : str) (recv : obs_req) : bool := str_eqb sent_body (o_body recv).

(* ---- model prediction vs observation, on projected observables ---- *)
Definition proj_keys : list str := gen_cov ++ gen_covh.
Definition proj_eq (p : request) (o : obs_req) : bool :=
  str_eqb upstream_proto (o_proto o) &&
  str_eqb (r_method p) (o_method o) && str_eqb (r_path p) (o_path o) &&
  str_eqb (r_rawquery p) (o_rawquery o) && str_eqb (body_bytes p) (o_body o) &&
  forallb (fun k => strs_eqb (hvals k (r_headers p)) (hvals k (o_headers o))) proj_keys.

Definition sig_present (p : request) : bool :=
  match r_sso_sig p with Some _ => true | None => has_header sso_signature (r_headers p) end.
Definition gap_present (p : request) : bool :=
  match r_gap_sig p with Some _ => true | None => has_header gap_signature (r_headers p) end.

(* known findings: K1 = a Connection token names a covered or signature header (hop-by-hop removal
   after signing); K2 = the Content-Length header at signing time is not the one the transport writes.
   (C12-K3 — documented variable set, service name not lower-case, key never found — is fixed in /repo
   c723740: it has no attribution any more, a recurrence is a plain violation.) *)
Definition protected : list str := documented_covered ++ sig_headers.
Definition is_on (h : hmac_config) : bool := match h with HmacOn _ => true | _ => false end.
Definition is_err (h : hmac_config) : bool := match h with HmacConfigError => true | _ => false end.

Definition judge (cs : case) : N :=
  match cs with
  | CNotFwd expected _ => code expected true 0
  | CCfg w start_error =>
      let m := hmac_of_config (w_algs w) (w_service w) (w_environ w) in
      (* a configuration that is well-formed by the documented rule starts *)
      code (negb (bool_eqb (is_err m) start_error)) (is_err (doc_hmac w) || negb start_error) 0
  | CFwd w vkey ident r0 parsed sent_body recv impl_rsa impl_hmac v_rsa v_kid v_hmac =>
      let c := cfg_of_world w in
      let rs := at_sign_time c parsed ident r0 in
      let p := received gen_cov gen_covh c parsed ident loopback r0 in
      let certs := published_certs c in
      let rsa_on := signing_on c && match c_signer c with Some _ => true | None => false end in
      let hmac_on := signing_on c && (is_on (doc_hmac w) || match c_hmac c with Some _ => true | None => false end) in
      let m_proj := negb (proj_eq p recv) in
      let m_canon := negb (str_eqb (canon_rsa gen_cov (of_obs recv)) impl_rsa) ||
                     negb (str_eqb (canon_hmac gen_covh (of_obs recv)) impl_hmac) in
      let m_rsa := rsa_on && negb (option_eqb bool_eqb (verify_rsa gen_cov certs p) v_rsa &&
                                   bool_eqb (kid_published certs p) v_kid &&
                                   bool_eqb (sig_present p) (has_header sso_signature (o_headers recv))) in
      (* a client-supplied Gap-Signature that the proxy did not replace is junk: any verdict but a match *)
      let m_hmac := hmac_on && negb ((match r_gap_sig p with
                                      | Some _ => N.eqb (verify_hmac gen_covh vkey p) v_hmac
                                      | None => if has_header gap_signature (r_headers p)
                                                then negb (N.eqb v_hmac 3) else N.eqb v_hmac 0
                                      end) &&
                                     bool_eqb (gap_present p) (has_header gap_signature (o_headers recv))) in
      (* harness consistency: the body recorded as sent is the parsed one; the verification key is the documented secret *)
      let m_body := negb (str_eqb (body_bytes r0) sent_body) in
      let m_vkey := match doc_hmac w with HmacOn s => negb (str_eqb s vkey) | _ => false end in
      let holds := holds_rsa c recv impl_rsa v_rsa v_kid && holds_hmac w recv impl_hmac v_hmac &&
                   holds_body sent_body recv in
      (* Attribution. The monitor has three clauses; a falsified body clause is explained by no finding.
         A falsified RSA / HMAC clause is explained by K1 when a Connection token EFFECTIVELY names a
         header that exists when the request is signed (a covered header with a value, or a signature
         header the proxy sets), and by K2 when the Content-Length line is not the transport's. A request
         may show both; the smallest explaining code is reported (and [code] only uses it when the model
         predicts exactly the observation, whose verdicts then fail for these reasons only). *)
      let named (k : str) := mem_str k (hop_keys (r_headers rs)) in
      let model_hmac_on := signing_on c && match c_hmac c with Some _ => true | None => false end in
      let k1 := existsb (fun k => named k && has_header k (r_headers rs)) documented_covered ||
                (rsa_on && (named sso_signature || named kid_h)) ||
                (model_hmac_on && named gap_signature) in
      let k2 := negb (cl_canonical rs) in
      let known : N :=
        if negb (holds_body sent_body recv) then 0
        else if k1 then 1 else if k2 then 2 else 0 in
      code (m_proj || m_canon || m_rsa || m_hmac || m_body || m_vkey) holds known
  end.

(* classes: 0 = not forwarded; otherwise 1 + flags *)
Definition classify (cs : case) : N :=
  match cs with
  | CNotFwd _ _ => 0
  | CCfg w e => 4096 + (if e then 1 else 0) + 2 * (if is_on (doc_hmac w) then 1 else 0)
  | CFwd w _ ident r0 parsed _ recv _ _ v_rsa _ v_hmac =>
      let c := cfg_of_world w in
      let rs := at_sign_time c parsed ident r0 in
      1 + (match c_signer c with Some _ => 1 | None => 0 end)
        + 2 * (match c_hmac c with Some _ => 1 | None => 0 end)
        + 4 * (if c_skip c then 1 else 0)
        + 8 * (match ident with Some _ => 1 | None => 0 end)
        + 16 * (if is_empty (o_body recv) then 0 else 1)
        + 32 * (if r_chunked r0 then 1 else 0)
        + 64 * (if is_empty (hvals connection (r_headers r0)) then 0 else 1)
        + 128 * (if conn_safe protected (r_headers rs) then 0 else 1)
        + 256 * (if cl_canonical rs then 0 else 1)
        + 512 * (match v_rsa with Some true => 1 | _ => 0 end)
        + 1024 * (if N.eqb v_hmac 3 then 1 else 0)
        + 2048 * (if is_empty (w_inject w) then 0 else 1)
  end.
