(* Corr_C12_defs.v — comparison and monitor for C12 (request signatures verify over what the upstream received).

   A case is one socket round trip client -> sso-proxy -> backend.  It carries the request as the
   proxy's net/http server parsed it ([r0]; http.ReadRequest on the bytes sent), the session identity,
   the Request.Cookies() oracle, the body the client sent, the request the backend RECEIVED, the two
   canonical strings the implementation computes on the received request (mapRequestToHashInput,
   hmacauth StringToSign), and the verification verdicts computed in Go with the real primitives:
   RSA-PKCS1v15/SHA-256 under the key published at /oauth2/v1/certs for the received kid, and
   hmacauth.AuthenticateRequest.  No proofs here.
   (corr/Corr_C12.v re-exports this file together with the unpacking functions for case literals, which use
   primitive integers; they are kept out of this file so that the closure of props/C12.v stays free of the
   axioms the standard library states about Uint63.) *)
From V Require Export Base CorrBase Signer Gen_Signer.

Record obs_req := {
  o_method : str;
  o_headers : headers;      (* all received headers, keys sorted *)
  o_path : str;
  o_rawquery : str;
  o_body : str
}.

Inductive case :=
| CFwd (c : cfg) (ident : option identity) (r0 : request) (parsed : list (str * str)) (sent_body : str)
       (recv : obs_req) (impl_rsa impl_hmac : str)
       (v_rsa : option bool) (v_kid : bool) (v_hmac : N)
| CNotFwd (expected_forward : bool) (status : N).

(* the code's lists, re-extracted from the source on every run *)
Definition gen_cov : list str := signedHeaders.
Definition gen_covh : list str := hmac_names SignatureHeaders.
Definition loopback : str := [49;50;55;46;48;46;48;46;49]. (* "127.0.0.1" *)

(* the received request as an upstream handler has it: Body non-nil, no fragment *)
Definition of_obs (o : obs_req) : request :=
  {| r_method := o_method o; r_host := []; r_headers := o_headers o; r_path := o_path o;
     r_rawquery := o_rawquery o; r_fragment := []; r_body := Some (o_body o); r_chunked := false;
     r_sso_sig := None; r_kid := None; r_gap_sig := None |}.

Definition has_header (k : str) (h : headers) : bool := negb (is_empty (hvals k h)).

(* ---- the property on observations (independent of the model of the chain) ----
   signing enabled => the received request carries a signature that the upstream verifies, under the
   published key named by kid, over the DOCUMENTED canonical form of what it received; likewise the
   HMAC; and the body arrived intact. *)
Definition signing_on (c : cfg) : bool := negb (c_skip c).
Definition holds_rsa (c : cfg) (recv : obs_req) (impl_rsa : str) (v_rsa : option bool) (v_kid : bool) : bool :=
  match c_signer c with
  | Some _ => negb (signing_on c) ||
              (option_eqb bool_eqb v_rsa (Some true) && v_kid &&
               str_eqb (canon_rsa documented_covered (of_obs recv)) impl_rsa)
  | None => true
  end.
Definition holds_hmac (c : cfg) (recv : obs_req) (impl_hmac : str) (v_hmac : N) : bool :=
  match c_hmac c with
  | Some _ => negb (signing_on c) ||
              (N.eqb v_hmac 3 && str_eqb (canon_hmac documented_covered (of_obs recv)) impl_hmac)
  | None => true
  end.
Definition holds_body (sent_body : str) (recv : obs_req) : bool := str_eqb sent_body (o_body recv).

(* ---- model prediction vs observation, on projected observables ---- *)
Definition proj_keys : list str := gen_cov ++ gen_covh.
Definition proj_eq (p : request) (o : obs_req) : bool :=
  str_eqb (r_method p) (o_method o) && str_eqb (r_path p) (o_path o) &&
  str_eqb (r_rawquery p) (o_rawquery o) && str_eqb (body_bytes p) (o_body o) &&
  forallb (fun k => strs_eqb (hvals k (r_headers p)) (hvals k (o_headers o))) proj_keys.

Definition sig_present (p : request) : bool :=
  match r_sso_sig p with Some _ => true | None => has_header sso_signature (r_headers p) end.
Definition gap_present (p : request) : bool :=
  match r_gap_sig p with Some _ => true | None => has_header gap_signature (r_headers p) end.

(* known findings: K1 = a Connection token names a covered or signature header (hop-by-hop removal
   after signing); K2 = the Content-Length header at signing time is not the one the transport writes *)
Definition protected : list str := documented_covered ++ sig_headers.

Definition judge (cs : case) : N :=
  match cs with
  | CNotFwd expected _ => code expected true 0
  | CFwd c ident r0 parsed sent_body recv impl_rsa impl_hmac v_rsa v_kid v_hmac =>
      let rs := at_sign_time c parsed ident r0 in
      let p := received gen_cov gen_covh c parsed ident loopback r0 in
      let certs := published_certs c in
      let rsa_on := signing_on c && match c_signer c with Some _ => true | None => false end in
      let hmac_on := signing_on c && match c_hmac c with Some _ => true | None => false end in
      let m_proj := negb (proj_eq p recv) in
      let m_canon := negb (str_eqb (canon_rsa gen_cov (of_obs recv)) impl_rsa) ||
                     negb (str_eqb (canon_hmac gen_covh (of_obs recv)) impl_hmac) in
      let m_rsa := rsa_on && negb (option_eqb bool_eqb (verify_rsa gen_cov certs p) v_rsa &&
                                   bool_eqb (kid_published certs p) v_kid &&
                                   bool_eqb (sig_present p) (has_header sso_signature (o_headers recv))) in
      let m_hmac := hmac_on && negb (match c_hmac c with
                                     | Some k => N.eqb (verify_hmac gen_covh k p) v_hmac
                                     | None => true end &&
                                     bool_eqb (gap_present p) (has_header gap_signature (o_headers recv))) in
      let m_body := negb (str_eqb (body_bytes r0) sent_body) in
      let holds := holds_rsa c recv impl_rsa v_rsa v_kid && holds_hmac c recv impl_hmac v_hmac &&
                   holds_body sent_body recv in
      let known : N :=
        if negb (conn_safe protected (r_headers rs)) then 1
        else if negb (cl_canonical rs) then 2 else 0 in
      code (m_proj || m_canon || m_rsa || m_hmac || m_body) holds known
  end.

(* classes: 0 = not forwarded; otherwise 1 + flags *)
Definition classify (cs : case) : N :=
  match cs with
  | CNotFwd _ _ => 0
  | CFwd c ident r0 parsed _ recv _ _ v_rsa _ v_hmac =>
      let rs := at_sign_time c parsed ident r0 in
      1 + (match c_signer c with Some _ => 1 | None => 0 end)
        + 2 * (match c_hmac c with Some _ => 1 | None => 0 end)
        + 4 * (if c_skip c then 1 else 0)
        + 8 * (match ident with Some _ => 1 | None => 0 end)
        + 16 * (if is_empty (o_body recv) then 0 else 1)
        + 32 * (if r_chunked r0 then 1 else 0)
        + 64 * (if is_empty (hvals connection (r_headers r0)) then 0 else 1)
        + 128 * (if conn_safe protected (r_headers rs) then 0 else 1)
        + 256 * (if cl_canonical rs then 0 else 1)
        + 512 * (match v_rsa with Some true => 1 | _ => 0 end)
        + 1024 * (if N.eqb v_hmac 3 then 1 else 0)
        + 2048 * (if is_empty (o_rawquery recv) then 0 else 1)
  end.
